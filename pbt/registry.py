"""Maps property ids to the modules that declare their sub-checks."""
import importlib

_cache = {}


def load(pid):
    if pid not in _cache:
        mod = importlib.import_module("pbt.props." + pid.lower())
        _cache[pid] = mod.PROPERTY
    return _cache[pid]
