#!/bin/bash
for id in $(cat pbt/ready.txt); do
  s=$(date +%s)
  out=$(timeout 7200 /venv/bin/python pbt/run.py $id --tier thorough --no-evidence 2>&1)
  code=$?
  echo "$id exit=$code wall=$(( $(date +%s) - s ))s | $(echo "$out" | grep '^OK\|^VIOLATION\|^HARNESS' | head -3 | cut -c1-300)"
done
