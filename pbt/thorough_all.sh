#!/bin/bash
# usage: thorough_all.sh [seed]   -- thorough tier of every ready property (no evidence written)
test -d .deps/atheris || /venv/bin/pip install -q --no-index --find-links /opt/veriftools/wheels --target .deps atheris
for id in $(cat pbt/ready.txt); do
  s=$(date +%s)
  out=$(VERIF_SEED=${1:-1} timeout 7200 /venv/bin/python pbt/run.py $id --tier thorough --no-evidence 2>&1)
  code=$?
  echo "$id seed=${1:-1} exit=$code wall=$(( $(date +%s) - s ))s | $(echo "$out" | grep '^OK\|^VIOLATION\|^HARNESS' | head -3 | cut -c1-400)"
done
