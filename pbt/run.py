#!/venv/bin/python
"""
Entry point of every registered check:

    /venv/bin/python /verif/pbt/run.py C07 --tier quick
    /venv/bin/python /verif/pbt/run.py C07 --replay replays/C07/<file>.json

Environment: VERIF_SEED (default 1), VERIF_TIER (overridden by --tier),
VERIF_JOBS (default 16), PYREX_REPO (default /repo).
"""
import argparse
import json
import os
import sys

HERE = os.path.dirname(os.path.abspath(__file__))
sys.path.insert(0, os.path.dirname(HERE))
os.environ.setdefault("PYTHONHASHSEED", "0")
os.environ.setdefault("PYTHONDONTWRITEBYTECODE", "1")
for var in ("OMP_NUM_THREADS", "OPENBLAS_NUM_THREADS", "MKL_NUM_THREADS"):
    os.environ.setdefault(var, "1")
sys.dont_write_bytecode = True


def main():
    ap = argparse.ArgumentParser()
    ap.add_argument("property")
    ap.add_argument("--tier", default=os.environ.get("VERIF_TIER", "quick"),
                    choices=["quick", "thorough"])
    ap.add_argument("--replay")
    ap.add_argument("--only", action="append",
                    help="run only this sub-check (no evidence written)")
    ap.add_argument("--scale", type=float, default=1.0)
    ap.add_argument("--jobs", type=int)
    ap.add_argument("--no-evidence", action="store_true")
    args = ap.parse_args()
    try:
        seed = int(os.environ.get("VERIF_SEED", "1"))
    except ValueError:
        seed = 1
    from pbt import core
    if args.replay:
        with open(args.replay) as f:
            rp = json.load(f)
        info = core.run_replay(rp["property"], rp["subcheck"], rp["case"])
        if info is None:
            print("REPLAY-PASS property=%s subcheck=%s" % (rp["property"], rp["subcheck"]))
            return 0
        known = [f for f in core.load_known_findings() if f["status"] == "known" and
                 (f["property"] == rp["property"] or rp["property"] in f.get("also_properties", []))]
        for f in known:
            if info.get("key") is not None and f["key"] == info["key"]:
                print("KNOWN-FINDING: property=%s %s [key=%s replay=%s]"
                      % (rp["property"], f["what"], f["key"], os.path.abspath(args.replay)))
                return 0
        print(info["traceback"])
        print("VIOLATION property=%s replay=%s subcheck=%s :: %s: %s"
              % (rp["property"], os.path.abspath(args.replay), rp["subcheck"],
                 info["type"], info["message"].replace("\n", " ")[:300]))
        return 1
    try:
        return core.drive(args.property, args.tier, seed, only=args.only,
                          jobs=args.jobs, scale=args.scale,
                          write_evidence=not args.no_evidence)
    except Exception:
        import traceback
        print("HARNESS-ERROR property=%s\n%s" % (args.property, traceback.format_exc()))
        return 2


if __name__ == "__main__":
    sys.exit(main())
