#!/venv/bin/python
"""Regenerates /verif/MANIFEST.json from the sub-check declarations."""
import json
import os
import sys

HERE = os.path.dirname(os.path.abspath(__file__))
VERIF = os.path.dirname(HERE)
sys.path.insert(0, VERIF)

from pbt import core  # noqa
core.setup_environment()
from pbt import registry  # noqa

TECH = {
    "C20": "exhaustive enumeration of library references from the AST + executable resolution oracle; "
           "fresh-interpreter import of every module",
}
LEVEL_TEXT = {
}
NA = {
}


def main():
    props = [json.loads(l) for l in open(os.path.join(VERIF, "properties.jsonl"))]
    checks = []
    na = []
    for p in props:
        pid = p["id"]
        path = os.path.join(HERE, "props", pid.lower() + ".py")
        ready = set(open(os.path.join(HERE, "ready.txt")).read().split())
        if not os.path.exists(path) or pid not in ready:
            na.append({"property_id": pid,
                       "reason": NA.get(pid, "check designed (DESIGN.md section 3) but not built yet")})
            continue
        prop = registry.load(pid)
        subs = ", ".join(s.name for s in prop.subchecks)
        checks.append({
            "property_id": pid,
            "quick_cmd": "/venv/bin/python pbt/run.py %s --tier quick" % pid,
            "thorough_cmd": "/venv/bin/python pbt/run.py %s --tier thorough" % pid,
            "evidence_file": "evidence/%s.json" % pid,
            "replay_cmd_template": "/venv/bin/python pbt/run.py %s --replay {path}" % pid,
            "engine": "pbt",
            "level_claimed": {
                "category": "exploration",
                "text": LEVEL_TEXT.get(pid, getattr(prop, "level_text", None) or (
                    "Generated-input search (Hypothesis, seeded by VERIF_SEED, sharded over 16 processes) "
                    "against explicit oracles, sub-checks: %s. The thorough tier also drives the same "
                    "sub-checks with coverage-guided fuzzing (atheris/libFuzzer on pyrex's branch coverage). "
                    "It shows the property on every generated "
                    "case and reports how many were non-trivial; it cannot show absence of violations."
                    % subs)),
                "design_ref": "DESIGN.md " + (prop.design_ref or "3/" + pid),
            },
            "level_note": "; ".join(prop.assumptions) or "oracles as described in DESIGN.md",
            "technique": TECH.get(pid, getattr(prop, "technique", None) or
                                  "property-based testing (Hypothesis) with reference-model / metamorphic oracles; "
                                  "coverage-guided fuzzing (atheris) of the same oracles in the thorough tier"),
        })
    manifest = {
        "version": 1,
        "setup_cmd": "(/venv/bin/python -c 'import hypothesis' 2>/dev/null || /venv/bin/pip install --no-index "
                     "--find-links /opt/veriftools/wheels hypothesis) && "
                     "(test -d .deps/atheris || /venv/bin/pip install -q --no-index --find-links "
                     "/opt/veriftools/wheels --target .deps atheris)",
        "hooks": {
            "guard": "BHOKANSONFASIG_PYREX_VERIF",
            "enable": "no hooks: every property is observed through the public API; checks import the "
                      "working tree of /repo in a fresh interpreter (PYREX_REPO overrides the path)",
            "baseline_off_cmd": "cd /repo && /venv/bin/python -m pytest -q -p no:cacheprovider --timeout=900 "
                                "--continue-on-collection-errors",
            "source_commits": [],
            "add_only": True,
        },
        "engines": [{
            "name": "pbt",
            "path": "pbt/",
            "serves_properties": [c["property_id"] for c in checks],
            "kind_free_text": "Hypothesis 6.168 property-based tests: JSON-serialisable generated cases, "
                              "explicit oracles, shrinking to replay files, sharded with multiprocessing; the "
                              "thorough tier adds a coverage-guided phase (atheris 3.1 / libFuzzer driving the "
                              "same tests through Hypothesis fuzz_one_input with pyrex instrumented)",
        }],
        "checks": checks,
        "notes": "Runner: pbt/run.py <ID> --tier quick|thorough [--replay file]. Exit 0 held / 1 VIOLATION / "
                 "2 HARNESS-ERROR. Known findings and repaired defects: known_findings.json. "
                 "Seeded breaking changes: seeded/. Sensitivity mutants: pbt/mutants/.",
        "not_applicable": na,
    }
    with open(os.path.join(VERIF, "MANIFEST.json"), "w") as f:
        json.dump(manifest, f, indent=1)
        f.write("\n")
    print("checks:", [c["property_id"] for c in checks])
    print("not_applicable:", [n["property_id"] for n in na])


if __name__ == "__main__":
    main()
