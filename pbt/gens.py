"""
Shared Hypothesis strategies.  All produce plain JSON values ("specs"); the
`build_*` functions turn a spec into pyrex objects inside the check.
"""

import math

from hypothesis import strategies as st

# ---------------------------------------------------------------------------
# basic numbers


def floats(lo, hi, **kw):
    return st.floats(min_value=lo, max_value=hi, allow_nan=False,
                     allow_infinity=False, **kw)


def log_floats(lo, hi):
    """Log-uniform floats in [lo, hi] (lo > 0)."""
    return floats(math.log(lo), math.log(hi)).map(lambda x: min(hi, max(lo, math.exp(x))))


seeds32 = st.integers(0, 2**32 - 1)


@st.composite
def unit_vectors(draw):
    """Mixture: isotropic, axis-aligned, near-axis tilts."""
    kind = draw(st.sampled_from(["iso", "iso", "iso", "axis", "near"]))
    if kind == "axis":
        v = [0.0, 0.0, 0.0]
        v[draw(st.integers(0, 2))] = draw(st.sampled_from([1.0, -1.0]))
        return v
    cz = draw(floats(-1, 1))
    ph = draw(floats(0, 2 * math.pi))
    s = math.sqrt(max(0.0, 1 - cz * cz))
    v = [s * math.cos(ph), s * math.sin(ph), cz]
    if kind == "near":
        ax = draw(st.integers(0, 2))
        sg = draw(st.sampled_from([1.0, -1.0]))
        eps = draw(st.sampled_from([1e-9, 1e-6, 1e-3]))
        w = [eps * x for x in v]
        w[ax] += sg
        n = math.sqrt(sum(x * x for x in w))
        return [x / n for x in w]
    return v


@st.composite
def quaternions(draw):
    """Rotation as unit quaternion [w,x,y,z] (mixture incl. exact quarter turns)."""
    kind = draw(st.sampled_from(["rand", "rand", "rand", "quarter"]))
    if kind == "quarter":
        ax = draw(st.integers(0, 2))
        k = draw(st.integers(1, 3))
        half = k * math.pi / 4
        q = [math.cos(half), 0.0, 0.0, 0.0]
        q[1 + ax] = math.sin(half)
        return q
    q = [draw(floats(-1, 1)) for _ in range(4)]
    n = math.sqrt(sum(x * x for x in q))
    if n < 1e-3:
        return [1.0, 0.0, 0.0, 0.0]
    return [x / n for x in q]


def quat_matrix(q):
    import numpy as np
    w, x, y, z = q
    return np.array([
        [1 - 2 * (y * y + z * z), 2 * (x * y - z * w), 2 * (x * z + y * w)],
        [2 * (x * y + z * w), 1 - 2 * (x * x + z * z), 2 * (y * z - x * w)],
        [2 * (x * z - y * w), 2 * (y * z + x * w), 1 - 2 * (x * x + y * y)],
    ])


# ---------------------------------------------------------------------------
# ice models

SHIPPED_EXP = {
    "AntarcticIce": dict(n0=1.78, k=0.43, a=0.0132, range=[-2850.0, 0.0]),
    "ArasimIce": dict(n0=1.78, k=0.43, a=0.0132, range=[-2850.0, 0.0]),
    "GreenlandIce": dict(n0=1.775, k=0.448, a=0.0247, range=[-3000.0, 0.0]),
}


@st.composite
def exp_ice_specs(draw, custom=True, boundary_indices=True, min_depth=200.0,
                  max_depth=3500.0, buried=False):
    """Exponential-profile ice: shipped defaults or arbitrary n0,k,a,range.
    buried=True: a third of the custom models have a valid range whose top lies below z=0
    (the form the lower layers of a LayeredIce take)."""
    cls = draw(st.sampled_from(sorted(SHIPPED_EXP)))
    if not custom or draw(st.integers(0, 2)) == 0:
        spec = dict(SHIPPED_EXP[cls])
        spec["range"] = list(spec["range"])
        spec["cls"] = cls
        spec["above"] = 1.0
        spec["below"] = None
        spec["default"] = True
        return spec
    n0 = draw(floats(1.3, 2.0))
    k = draw(floats(0.05, n0 - 1.05))
    a = draw(floats(0.003, 0.05))
    depth = draw(floats(min_depth, max_depth))
    int_range = draw(st.booleans())
    if int_range:
        depth = float(int(depth))
    top = 0.0
    if buried and draw(st.integers(0, 2)) == 0:
        top = -draw(st.sampled_from([150.0, 50.0, 300.0, 1000.0, draw(floats(1.0, 1500.0))]))
        if int_range:
            top = float(int(top))
    spec = dict(cls=cls, n0=n0, k=k, a=a, range=[top - depth, top], default=False,
                above=1.0, below=None, int_range=int_range)
    if boundary_indices:
        spec["above"] = draw(st.sampled_from([1.0, None, 1.2]))
        spec["below"] = draw(st.sampled_from([None, None, 1.5, 2.5]))
    return spec


@st.composite
def uniform_ice_specs(draw, boundary_none=True):
    n = draw(floats(1.1, 2.0))
    top = draw(st.sampled_from([0.0, 0.0, -50.0, -300.0]))
    depth = draw(floats(100.0, 3000.0))
    above = draw(st.sampled_from([1.0, 1.0, 1.3, None] if boundary_none else [1.0, 1.3]))
    below = draw(st.sampled_from([None, 1.5, 2.2, None] if boundary_none else [1.5, 2.2]))
    return dict(cls="UniformIce", n=n, range=[top - depth, top], above=above,
                below=below)


def build_ice(spec):
    import pyrex.ice_model as im
    if spec["cls"] == "UniformIce":
        return im.UniformIce(spec["n"], valid_range=tuple(spec["range"]),
                             index_above=spec["above"], index_below=spec["below"])
    if spec["cls"] == "LayeredIce":
        from pyrex.custom.layered_ice import LayeredIce
        layers = [build_ice(s) for s in spec["layers"]]
        return LayeredIce(layers, index_above=spec["above"],
                          index_below=spec["below"])
    cls = getattr(im, spec["cls"])
    if spec.get("default") and spec["above"] == 1.0 and spec["below"] is None \
            and spec["range"] == SHIPPED_EXP[spec["cls"]]["range"] and spec["n0"] == SHIPPED_EXP[spec["cls"]]["n0"]:
        # the shipped model exactly as a user gets it (integer range bounds and all)
        return cls()
    rng = tuple(spec["range"])
    if spec.get("int_range") and all(float(x).is_integer() for x in rng):
        rng = tuple(int(x) for x in rng)
    return cls(n0=spec["n0"], k=spec["k"], a=spec["a"],
               valid_range=rng, index_above=spec["above"],
               index_below=spec["below"])


def ref_index(spec, z):
    """Harness transcription of n(z) = n0 - k exp(a z) with range masks."""
    lo, hi = sorted(spec["range"])
    if spec["cls"] == "UniformIce":
        inside = spec["n"]
        n_top = n_bot = spec["n"]
    else:
        inside = spec["n0"] - spec["k"] * math.exp(spec["a"] * z)
        n_top = spec["n0"] - spec["k"] * math.exp(spec["a"] * hi)
        n_bot = spec["n0"] - spec["k"] * math.exp(spec["a"] * lo)
    if z > hi:
        return n_top if spec["above"] is None else spec["above"]
    if z < lo:
        return n_bot if spec["below"] is None else spec["below"]
    return inside


# ---------------------------------------------------------------------------
# time grids and sample values


@st.composite
def grids(draw, min_n=2, max_n=512, dyadic=False):
    """Uniform time grid spec {n, dt, t0}."""
    n = draw(st.one_of(st.integers(min_n, min(max_n, 40)),
                       st.integers(min_n, max_n)))
    if dyadic:
        dt = 2.0 ** draw(st.integers(-34, -2))
        t0 = dt * draw(st.integers(-10**6, 10**6))
    else:
        dt = draw(log_floats(1e-10, 1.0))
        t0 = draw(st.one_of(st.just(0.0), floats(-1e3, 1e3).map(lambda x: x * dt),
                            floats(-1e-6, 1e-6)))
    return dict(n=n, dt=dt, t0=t0)


def build_times(g):
    import numpy as np
    return g["t0"] + g["dt"] * np.arange(g["n"])


def sample_values(n, lo=-1e3, hi=1e3):
    return st.lists(floats(lo, hi), min_size=n, max_size=n)
