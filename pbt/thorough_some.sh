#!/bin/bash
# usage: thorough_some.sh "<ids>" "<seeds>"
test -d .deps/atheris || /venv/bin/pip install -q --no-index --find-links /opt/veriftools/wheels --target .deps atheris
for seed in $2; do for id in $1; do
  s=$(date +%s)
  out=$(VERIF_SEED=$seed timeout 7200 /venv/bin/python pbt/run.py $id --tier thorough --no-evidence 2>&1)
  code=$?
  echo "$id seed=$seed exit=$code wall=$(( $(date +%s) - s ))s"
  echo "$out" | grep '^OK\|^VIOLATION\|^HARNESS' -A 12 | grep -v "^KNOWN" | cut -c1-600 | head -40
done; done
