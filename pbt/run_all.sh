#!/bin/bash
# Runs every ready check once (tier $1, default quick) against /repo and prints one line per property.
# Evidence files are rewritten.  Usage: pbt/run_all.sh [quick|thorough]
tier=${1:-quick}
cd "$(dirname "$0")/.."
rc=0
for id in $(cat pbt/ready.txt); do
  out=$(timeout 14400 /venv/bin/python pbt/run.py $id --tier $tier 2>&1)
  code=$?
  echo "$id exit=$code $(echo "$out" | grep -c '^KNOWN-FINDING') known | $(echo "$out" | grep '^OK\|^VIOLATION\|^HARNESS' | head -3 | cut -c1-200)"
  [ $code -ne 0 ] && rc=1
done
exit $rc
