#!/venv/bin/python
"""Writes seeded/README.md: one row per seeded breaking change with its confirmation and detection record."""
import glob
import json
import os

VERIF = os.path.dirname(os.path.dirname(os.path.abspath(__file__)))
rows = []
for meta in sorted(glob.glob(os.path.join(VERIF, "seeded", "*", "meta.json"))):
    m = json.load(open(meta))
    name = os.path.basename(os.path.dirname(meta))
    conf = m.get("confirmation", {})
    det = m.get("detection", {})
    dets = []
    for pid, d in sorted(det.items()):
        dets.append("%s: %s" % (pid, ", ".join(d["subchecks"]) if d.get("detected") else "NOT detected"))
    rows.append((name, m.get("property", "?"), (m.get("summary") or "").replace("|", "/").replace("\n", " ")[:300],
                 (m.get("needs_to_manifest") or "").replace("|", "/").replace("\n", " ")[:300],
                 "yes (%s)" % conf.get("tests_tail", "tests not re-run")[:22] if conf.get("confirmed") else "NO",
                 "; ".join(dets) or "not run"))
out = ["# Seeded breaking changes", "",
       "Each directory holds `patch.diff` (against /repo), `demo.py` (exits 0 without the patch, non-zero with it) and",
       "`meta.json`.  They were written by fresh sub-agents that saw only the property text and a scratch worktree of",
       "/repo - nothing from /verif.  `pbt/seedcheck.py seeded/<name>` re-confirms one (demo passes on the clean copy,",
       "the repository's own suite passes with the patch, the demo fails with it) and runs the property's quick check",
       "against the patched copy.  Changes that were rejected on inspection are in `../seeded_rejected/`.", "",
       "| seed | property | change | needs to manifest | confirmed (suite with patch) | detected by (quick tier, VERIF_SEED=1) |",
       "|---|---|---|---|---|---|"]
for r in rows:
    out.append("| %s | %s | %s | %s | %s | %s |" % r)
open(os.path.join(VERIF, "seeded", "README.md"), "w").write("\n".join(out) + "\n")
print("\n".join("%-8s %-4s %s" % (r[0], r[1], r[5]) for r in rows))
