"""
Shared machinery of the property-based checks (DESIGN.md section 2).

A *property* (C01..C20) is a list of *sub-checks*.  A sub-check is

    SubCheck(name, strategy, check, quick=N, thorough=M, ...)

where ``strategy`` is a Hypothesis strategy producing a JSON-serialisable
*case* (dict / list / float / int / str / bool / None only) and
``check(case, rec)`` builds the objects from the case, runs the code under
test, and raises ``Violation`` when the oracle disagrees.  Because a case is
plain JSON, the shrunk failing case *is* the replay file and
``run.py <ID> --replay <file>`` re-executes ``check`` on it without Hypothesis.

Exit codes of the runner: 0 held, 1 violation (``VIOLATION property=..``
line), 2 harness problem (``HARNESS-ERROR`` line; never a violation).
"""

import hashlib
import json
import math
import multiprocessing
import os
import sys
import time
import traceback

VERIF_DIR = os.path.dirname(os.path.dirname(os.path.abspath(__file__)))
REPO_DIR = os.environ.get("PYREX_REPO", "/repo")


def setup_environment():
    """Make `import pyrex` resolve to the current working tree of /repo."""
    os.environ.setdefault("PYTHONDONTWRITEBYTECODE", "1")
    sys.dont_write_bytecode = True
    if REPO_DIR in sys.path:
        sys.path.remove(REPO_DIR)
    sys.path.insert(0, REPO_DIR)
    import logging
    logging.disable(logging.CRITICAL)
    import warnings
    warnings.filterwarnings("ignore")
    try:
        import numpy as np
        np.seterr(all="ignore")
    except Exception:
        pass


class Violation(AssertionError):
    """The oracle of a sub-check disagrees with the code under test."""


class HarnessError(Exception):
    """The machinery itself is at fault (never reported as a violation)."""


def require(cond, msg, *args):
    if not cond:
        if args:
            try:
                msg = msg % args
            except Exception:
                msg = msg + " " + repr(args)
        raise Violation(msg)


# ---------------------------------------------------------------------------
# Recorder: evaluations, distinct non-trivial cases, classes, samples


def digest(obj):
    data = json.dumps(obj, sort_keys=True, default=repr).encode()
    return int.from_bytes(hashlib.blake2b(data, digest_size=8).digest(), "big")


def rounded(obj, sig=9):
    """Canonical form of a case for distinctness (floats to `sig` digits)."""
    if isinstance(obj, float):
        if obj != obj or obj in (math.inf, -math.inf):
            return repr(obj)
        return float("%.*g" % (sig, obj))
    if isinstance(obj, dict):
        return {k: rounded(v, sig) for k, v in obj.items()}
    if isinstance(obj, (list, tuple)):
        return [rounded(v, sig) for v in obj]
    return obj


class Recorder:
    MAX_SAMPLES = 6

    def __init__(self):
        self.evaluations = 0
        self.nontrivial_keys = set()
        self.classes = {}
        self.samples = []
        self.excluded = {}
        self._sample_slots = 0

    def case(self, case, nontrivial, classes=(), key=None, sample=None):
        """Register one executed case."""
        self.evaluations += 1
        for c in classes:
            self.classes[c] = self.classes.get(c, 0) + 1
        if nontrivial:
            d = digest(rounded(case if key is None else key))
            new = d not in self.nontrivial_keys
            self.nontrivial_keys.add(d)
            if new:
                # deterministic reservoir: keep cases whose digest is small
                self._offer_sample(d, case if sample is None else sample)

    def _offer_sample(self, d, sample):
        s = _shorten(sample)
        if len(self.samples) < self.MAX_SAMPLES:
            self.samples.append((d, s))
            self.samples.sort(key=lambda x: x[0])
        elif d < self.samples[-1][0]:
            self.samples[-1] = (d, s)
            self.samples.sort(key=lambda x: x[0])

    def klass(self, *names):
        for c in names:
            self.classes[c] = self.classes.get(c, 0) + 1

    def exclude(self, why):
        self.excluded[why] = self.excluded.get(why, 0) + 1

    def export(self):
        return {
            "evaluations": self.evaluations,
            "keys": sorted(self.nontrivial_keys),
            "classes": self.classes,
            "samples": self.samples,
            "excluded": self.excluded,
        }


def _shorten(obj, maxlen=24):
    """Keep samples readable: long lists are abbreviated."""
    if isinstance(obj, dict):
        return {k: _shorten(v, maxlen) for k, v in obj.items()}
    if isinstance(obj, (list, tuple)):
        if len(obj) > maxlen:
            return ([_shorten(v, maxlen) for v in obj[:maxlen // 2]]
                    + ["... %d more ..." % (len(obj) - maxlen // 2)])
        return [_shorten(v, maxlen) for v in obj]
    if isinstance(obj, float):
        return float("%.12g" % obj) if math.isfinite(obj) else repr(obj)
    return obj


# ---------------------------------------------------------------------------
# Sub-check declaration


class SubCheck:
    def __init__(self, name, strategy, check, quick, thorough, rule,
                 floors=None, classify=None, shrink_cap=(20, 120),
                 quick_shards=None, exhaustive=False, doc="", fuzz=True):
        """
        quick / thorough : number of Hypothesis examples per tier (total,
            divided over shards).
        floors : {class name: minimal fraction of evaluations} (generator
            starvation guard, exit 2 when missed).
        classify : f(case, exception) -> key string used to match entries
            of known_findings.json.
        shrink_cap : (quick, thorough) wall-clock caps of the shrinker in
            seconds (a cap hit keeps the smallest failing case so far).
        """
        self.name = name
        self.strategy = strategy
        self.check = check
        self.quick = quick
        self.thorough = thorough
        self.rule = rule
        self.floors = floors or {}
        self.classify = classify
        self.shrink_cap = shrink_cap
        self.quick_shards = quick_shards
        self.exhaustive = exhaustive
        self.doc = doc
        # fuzz : include this sub-check in the coverage-guided phase of the thorough tier (off for
        # statistical sub-checks whose single case costs seconds and has no input-dependent branches)
        self.fuzz = fuzz


def derive_seed(base, *parts):
    h = hashlib.blake2b(repr((base,) + parts).encode(), digest_size=8)
    return int.from_bytes(h.digest(), "big") % (2**63)


# ---------------------------------------------------------------------------
# Running one (sub-check, shard) task in a worker process


def _touches_pyrex(tb):
    """True when the traceback passes through the pyrex package."""
    for fs in traceback.extract_tb(tb):
        fn = fs.filename.replace("\\", "/")
        if "/pyrex/" in fn and "/verif/" not in fn:
            return True
    return False


def _exc_info(e):
    tb = e.__traceback__
    return {
        "type": type(e).__name__,
        "message": str(e)[:2000],
        "in_pyrex": _touches_pyrex(tb),
        "traceback": "".join(traceback.format_exception(type(e), e, tb))[-6000:],
    }


# ---------------------------------------------------------------------------
# CPython >= 3.11 keeps interpreter frames on a per-thread "data stack" made of
# 16 KiB chunks that are mmap'ed when a call crosses the end of a chunk and
# munmap'ed as soon as that call returns.  Hypothesis's deep call stacks make a
# hot call sit exactly on such an edge, which costs tens of thousands of
# mmap/munmap pairs per second and, with 16 workers, serialises them in the
# kernel.  `aligned_call` finds the edge by timing and runs `fn` from a frame
# that is the first one of a fresh chunk, so the next 16 KiB of frames are free.
# Purely a performance device: it has no influence on what is generated.

def _probe(a0=0,a1=0,a2=0,a3=0,a4=0,a5=0,a6=0,a7=0,a8=0,a9=0,b0=0,b1=0,b2=0,b3=0,b4=0,b5=0,b6=0,b7=0,b8=0,b9=0,
           c0=0,c1=0,c2=0,c3=0,c4=0,c5=0,c6=0,c7=0,c8=0,c9=0,d0=0,d1=0,d2=0,d3=0,d4=0,d5=0,d6=0,d7=0,d8=0,d9=0):
    return None
def _time_calls():
    pc = time.perf_counter
    t = pc()
    for _ in range(200):
        _probe()
    return pc() - t
def _anchor(fn, a0=0,a1=0,a2=0,a3=0,a4=0,a5=0,a6=0,a7=0,a8=0,a9=0,b0=0,b1=0,b2=0,b3=0,b4=0,b5=0,b6=0,b7=0,b8=0,b9=0,
           c0=0,c1=0,c2=0,c3=0,c4=0,c5=0,c6=0,c7=0,c8=0,c9=0,d0=0,d1=0,d2=0,d3=0,d4=0,d5=0,d6=0,d7=0,d8=0,d9=0):
    return fn()
def _pad(k, fn):
    if k == 0:
        return fn()
    return _pad(k - 1, fn)
def find_edge(maxk=200):
    times = []
    for k in range(maxk):
        times.append(min(_pad(k, _time_calls) for _ in range(3)))
    med = sorted(times)[len(times)//2]
    slow = [k for k,t in enumerate(times) if t > 4*med]
    return slow, med, times


def aligned_call(fn):
    try:
        slow, med, times = find_edge()
        if not slow:
            return fn()
        k = slow[0]
    except RecursionError:
        return fn()
    extra = int(os.environ.get('VERIF_STACK_EXTRA', '0'))
    return _pad(k, lambda: _anchor(lambda: _pad(extra, fn)))


def run_task(task):
    """Executed in a worker: returns a JSON-able result dict."""
    prop_id, sub_name, shard, n_examples, seed_value, tier, known_keys = task
    setup_environment()
    try:
        # a runaway allocation (e.g. 1e10 integration nodes under a mutant) must fail as
        # MemoryError inside the case, not summon the kernel's OOM killer
        import resource
        lim = int(os.environ.get("VERIF_MEM_GB", "6")) * 2**30
        resource.setrlimit(resource.RLIMIT_AS, (lim, lim))
    except Exception:
        pass
    t0 = time.time()
    out = {"sub": sub_name, "shard": shard, "failure": None, "harness": None,
           "known_hits": {}, "wall_s": 0.0}
    try:
        import hypothesis
        from hypothesis import HealthCheck, Phase, given, settings
        from hypothesis import seed as hseed
        from . import registry
        prop = registry.load(prop_id)
        sub = prop.sub(sub_name)
        rec = Recorder()
        state = {"first": None, "best": None, "t_fail": None, "calls": 0}
        cap = sub.shrink_cap[0 if tier == "quick" else 1]
        known = set(known_keys)

        def body(case):
            if state["t_fail"] is not None and time.time() - state["t_fail"] > cap:
                return  # ends the shrinker; best-so-far is kept
            state["calls"] += 1
            try:
                sub.check(case, rec)
            except HarnessError:
                raise
            except BaseException as e:  # noqa
                if isinstance(e, (KeyboardInterrupt, SystemExit)):
                    raise
                if type(e).__module__.startswith("hypothesis"):
                    raise
                key = None
                if sub.classify is not None:
                    try:
                        key = sub.classify(case, e)
                    except Exception:
                        key = None
                if key is not None and key in known:
                    out["known_hits"][key] = out["known_hits"].get(key, 0) + 1
                    rec.exclude("known:" + key)
                    return
                info = _exc_info(e)
                info["key"] = key
                if not isinstance(e, Violation) and not info["in_pyrex"]:
                    # exception that never entered pyrex: harness problem
                    raise HarnessError("%s: %s\n%s" % (info["type"], info["message"],
                                                      info["traceback"]))
                if state["first"] is None:
                    state["first"] = (case, info)
                    state["t_fail"] = time.time()
                state["best"] = (case, info)
                raise

        test = given(sub.strategy)(body)
        test = hseed(seed_value)(test)
        test = settings(
            max_examples=n_examples, database=None, deadline=None,
            derandomize=False, report_multiple_bugs=False, print_blob=False,
            suppress_health_check=list(HealthCheck),
            phases=[Phase.generate, Phase.shrink],
            verbosity=hypothesis.Verbosity.quiet,
        )(test)
        try:
            aligned_call(test)
        except HarnessError as e:
            out["harness"] = str(e)[-6000:]
        except BaseException as e:  # noqa
            if isinstance(e, (KeyboardInterrupt, SystemExit)):
                raise
            if state["best"] is None:
                out["harness"] = "".join(
                    traceback.format_exception(type(e), e, e.__traceback__))[-6000:]
        if state["best"] is not None and out["harness"] is None:
            case, info = state["best"]
            out["failure"] = {"case": case, "info": info,
                              "first_case": state["first"][0],
                              "shrink_capped": (time.time() - state["t_fail"]) > cap}
        out["rec"] = rec.export()
    except BaseException as e:  # noqa
        if isinstance(e, (KeyboardInterrupt, SystemExit)):
            raise
        out["harness"] = "".join(
            traceback.format_exception(type(e), e, e.__traceback__))[-6000:]
    out["wall_s"] = time.time() - t0
    return out


# statistical sub-checks: one case draws 1e4..1e6 samples and has no input-dependent branches in pyrex
NO_FUZZ = {("C13", "vertex_cylinder"), ("C13", "vertex_box"), ("C13", "direction"), ("C13", "particle_type"),
           ("C13", "shadow"), ("C14", "kind_dist"), ("C14", "inelasticity_dist"), ("C17", "rayleigh_stats")}


def fuzz_available():
    """atheris importable from /verif/.deps (installed there by MANIFEST setup_cmd)?"""
    deps = os.path.join(VERIF_DIR, ".deps")
    return os.path.isdir(os.path.join(deps, "atheris"))


def run_fuzz_task(task):
    """Coverage-guided shard: one libFuzzer campaign (pbt/fuzz_worker.py) in its own process,
    because libFuzzer ends the process it runs in.  Result has the shape of run_task's."""
    import re
    import shutil
    import subprocess
    import tempfile
    prop_id, sub_name, shard, runs, seed_value, known_keys = task
    t0 = time.time()
    out = {"sub": sub_name, "shard": "fuzz-%d" % shard, "engine": "atheris", "failure": None,
           "harness": None, "known_hits": {}, "wall_s": 0.0, "runs": runs, "libfuzzer": {}}
    tmp = tempfile.mkdtemp(prefix="pyrex-fuzz-")
    try:
        res = os.path.join(tmp, "out.json")
        cmd = [sys.executable, os.path.join(VERIF_DIR, "pbt", "fuzz_worker.py"), prop_id, sub_name,
               str(runs), str(seed_value), res, json.dumps(known_keys)]
        p = subprocess.run(cmd, cwd=tmp, stdout=subprocess.PIPE, stderr=subprocess.STDOUT, text=True,
                           timeout=int(os.environ.get("VERIF_FUZZ_TIMEOUT", "5400")))
        data = None
        if os.path.exists(res):
            with open(res) as f:
                data = json.load(f)
        if data is None:
            out["harness"] = "fuzz worker produced no result (exit %d): %s" % (p.returncode, p.stdout[-3000:])
        else:
            for k in ("failure", "harness", "known_hits", "rec"):
                out[k] = data.get(k)
            out["known_hits"] = out["known_hits"] or {}
            out["calls"] = data.get("calls", 0)
            m = re.findall(r"cov: (\d+) ft: (\d+) corp: (\d+)", p.stdout)
            if m:
                out["libfuzzer"] = {"cov_edges": int(m[-1][0]), "features": int(m[-1][1]),
                                    "corpus": int(m[-1][2])}
            m = re.search(r"number_of_executed_units: (\d+)", p.stdout)
            if m:
                out["libfuzzer"]["executed_units"] = int(m.group(1))
            if out["failure"] is None and out["harness"] is None and p.returncode != 0:
                out["harness"] = "fuzz worker exit %d: %s" % (p.returncode, p.stdout[-3000:])
    except subprocess.TimeoutExpired:
        out["inconclusive"] = "time budget of the coverage-guided shard hit"
    except BaseException as e:  # noqa
        if isinstance(e, (KeyboardInterrupt, SystemExit)):
            raise
        out["harness"] = "".join(traceback.format_exception(type(e), e, e.__traceback__))[-6000:]
    finally:
        shutil.rmtree(tmp, ignore_errors=True)
    out["wall_s"] = time.time() - t0
    return out


def _run_any(task):
    return run_fuzz_task(task[1:]) if task[0] == "fuzz" else run_task(task)


def run_replay(prop_id, sub_name, case):
    """Plain regression form: no Hypothesis involved."""
    setup_environment()
    from . import registry
    prop = registry.load(prop_id)
    sub = prop.sub(sub_name)
    rec = Recorder()
    try:
        sub.check(case, rec)
    except BaseException as e:  # noqa
        if isinstance(e, (KeyboardInterrupt, SystemExit)):
            raise
        info = _exc_info(e)
        key = None
        if sub.classify is not None:
            try:
                key = sub.classify(case, e)
            except Exception:
                key = None
        info["key"] = key
        return info
    return None


# ---------------------------------------------------------------------------
# Known findings


def load_known_findings():
    path = os.path.join(VERIF_DIR, "known_findings.json")
    if not os.path.exists(path):
        return []
    with open(path) as f:
        return json.load(f)["findings"]


# ---------------------------------------------------------------------------
# Property object and top-level driver


class Property:
    def __init__(self, pid, title, subchecks, assumptions=(), design_ref=""):
        self.id = pid
        self.title = title
        self.subchecks = list(subchecks)
        self.assumptions = list(assumptions)
        self.design_ref = design_ref

    def sub(self, name):
        for s in self.subchecks:
            if s.name == name:
                return s
        raise HarnessError("no sub-check %s in %s" % (name, self.id))


def _write_json(path, obj):
    os.makedirs(os.path.dirname(path), exist_ok=True)
    tmp = path + ".tmp%d" % os.getpid()
    with open(tmp, "w") as f:
        json.dump(obj, f, indent=1, sort_keys=False, default=repr)
        f.write("\n")
    os.replace(tmp, path)


def drive(prop_id, tier, seed_value, only=None, jobs=None, scale=1.0,
          write_evidence=True):
    """Run all sub-checks of a property; returns the exit code."""
    t0 = time.time()
    setup_environment()
    from . import registry
    prop = registry.load(prop_id)
    jobs = jobs or int(os.environ.get("VERIF_JOBS", "16"))
    findings = [f for f in load_known_findings()
                if f["property"] == prop_id or prop_id in f.get("also_properties", [])]
    known = [f for f in findings if f["status"] == "known"]
    # development aid only: treat extra classifier keys as known ("sub:key|sub:key")
    for item in filter(None, os.environ.get("VERIF_EXTRA_KNOWN", "").split("|")):
        sub_name, _, key = item.partition(":")
        known.append({"status": "known", "property": prop_id, "subcheck": sub_name,
                      "key": key, "what": "(development) " + key, "probe": None})

    tasks = []
    for sub in prop.subchecks:
        if only and sub.name not in only:
            continue
        # thorough = as deep as fits a budget of roughly ten minutes per property on 16 cores:
        # the declared thorough count, capped at THOROUGH_FACTOR x the quick count
        factor = float(os.environ.get("VERIF_THOROUGH_FACTOR", "15"))
        n = sub.quick if tier == "quick" else min(sub.thorough, int(sub.quick * factor))
        if sub.exhaustive:
            n = sub.quick
        n = max(1, int(math.ceil(n * scale)))
        if tier == "quick":
            shards = sub.quick_shards or max(1, min(jobs, n // 40))
        else:
            shards = max(1, min(jobs * 2, n // 100))
        if sub.exhaustive:
            shards = 1
        per = int(math.ceil(n / shards))
        keys = [f["key"] for f in known
                if f["property"] != prop_id or f.get("subcheck") in (None, sub.name)]
        for sh in range(shards):
            tasks.append((prop_id, sub.name, sh, per,
                          derive_seed(seed_value, prop_id, sub.name, sh),
                          tier, keys))
    # ---- coverage-guided phase (thorough tier): the same tests under libFuzzer/atheris -------
    fuzz_note = None
    if tier == "thorough" and os.environ.get("VERIF_FUZZ", "1") != "0":
        if not fuzz_available():
            fuzz_note = "skipped: atheris is not installed under .deps (run MANIFEST setup_cmd)"
        else:
            frac = float(os.environ.get("VERIF_FUZZ_FRACTION", "0.3"))
            for sub in prop.subchecks:
                if (only and sub.name not in only) or sub.exhaustive or not sub.fuzz or \
                        (prop_id, sub.name) in NO_FUZZ:
                    continue
                n = min(sub.thorough, int(sub.quick * float(os.environ.get("VERIF_THOROUGH_FACTOR", "15"))))
                n = max(200, int(n * frac * scale))
                shards = max(1, min(jobs, n // 400))
                keys = [f["key"] for f in known
                if f["property"] != prop_id or f.get("subcheck") in (None, sub.name)]
                for sh in range(shards):
                    tasks.append(("fuzz", prop_id, sub.name, sh, int(math.ceil(n / shards)),
                                  derive_seed(seed_value, prop_id, sub.name, "fuzz", sh), keys))
    # longest first is unknown; interleave sub-checks so that slow ones start early
    ctx = multiprocessing.get_context(os.environ.get("VERIF_MP", "forkserver"))
    if len(tasks) == 1 or jobs == 1:
        results = [_run_any(t) for t in tasks]
    else:
        # ProcessPoolExecutor (not Pool.map): a worker killed by the kernel (e.g. out of
        # memory under a mutant) raises BrokenProcessPool instead of hanging for ever
        from concurrent.futures import ProcessPoolExecutor
        from concurrent.futures.process import BrokenProcessPool
        results = []
        with ProcessPoolExecutor(min(jobs, len(tasks)), mp_context=ctx) as ex:
            futs = [(t, ex.submit(_run_any, t)) for t in tasks]
            for t, fu in futs:
                try:
                    results.append(fu.result())
                except BrokenProcessPool:
                    if t[0] == "fuzz":
                        t = t[1:]
                    results.append({"sub": t[1], "shard": t[2], "failure": None, "known_hits": {},
                                    "harness": "worker process died (killed / out of memory)",
                                    "wall_s": 0.0})

    per_sub = {}
    failures = []
    harness = []
    known_hits = {}
    per_fuzz = {}
    for r in results:
        if r.get("engine") == "atheris":
            z = per_fuzz.setdefault(r["sub"], {"executions": 0, "evaluations": 0, "keys": set(), "classes": {},
                                               "shards": 0, "wall_s": 0.0, "cov_edges": 0, "features": 0,
                                               "corpus": 0, "inconclusive": 0})
            z["shards"] += 1
            z["wall_s"] = max(z["wall_s"], r["wall_s"])
            z["executions"] += r.get("libfuzzer", {}).get("executed_units", 0)
            z["cov_edges"] = max(z["cov_edges"], r.get("libfuzzer", {}).get("cov_edges", 0))
            z["features"] = max(z["features"], r.get("libfuzzer", {}).get("features", 0))
            z["corpus"] += r.get("libfuzzer", {}).get("corpus", 0)
            if r.get("inconclusive"):
                z["inconclusive"] += 1
            if r.get("rec"):
                z["evaluations"] += r["rec"]["evaluations"]
                z["keys"].update(r["rec"]["keys"])
                for k, v in r["rec"]["classes"].items():
                    z["classes"][k] = z["classes"].get(k, 0) + v
            for k, v in (r.get("known_hits") or {}).items():
                known_hits[k] = known_hits.get(k, 0) + v
            if r["harness"]:
                harness.append((r["sub"], r["shard"], r["harness"]))
            if r["failure"]:
                failures.append((r["sub"], r["shard"], r["failure"]))
            continue
        s = per_sub.setdefault(r["sub"], {"evaluations": 0, "keys": set(),
                                          "classes": {}, "samples": [],
                                          "excluded": {}, "wall_s": 0.0,
                                          "shards": 0})
        s["shards"] += 1
        s["wall_s"] = max(s["wall_s"], r["wall_s"])
        if r.get("rec"):
            rec = r["rec"]
            s["evaluations"] += rec["evaluations"]
            s["keys"].update(rec["keys"])
            for k, v in rec["classes"].items():
                s["classes"][k] = s["classes"].get(k, 0) + v
            for k, v in rec["excluded"].items():
                s["excluded"][k] = s["excluded"].get(k, 0) + v
            s["samples"].extend(rec["samples"])
        for k, v in r["known_hits"].items():
            known_hits[k] = known_hits.get(k, 0) + v
        if r["harness"]:
            harness.append((r["sub"], r["shard"], r["harness"]))
        if r["failure"]:
            failures.append((r["sub"], r["shard"], r["failure"]))

    # ---- regression tier: saved shrunk failures of repaired defects ---------
    reg_dir = os.path.join(VERIF_DIR, "regressions", prop_id)
    regressions = 0
    reg_failures = []
    if os.path.isdir(reg_dir) and not only:
        for fn in sorted(os.listdir(reg_dir)):
            if not fn.endswith(".json"):
                continue
            with open(os.path.join(reg_dir, fn)) as f:
                rp = json.load(f)
            regressions += 1
            info = run_replay(prop_id, rp["subcheck"], rp["case"])
            if info is not None:
                key = info.get("key")
                if key is not None and key in [f["key"] for f in known]:
                    continue
                reg_failures.append((os.path.join(reg_dir, fn), rp["subcheck"], info))

    # ---- known-finding probes ------------------------------------------
    lines = []
    for f in known:
        if only and (f.get("probe_sub") or f.get("subcheck")) not in only:
            continue
        reproduced = None
        if f.get("probe") is not None and f["property"] == prop_id:
            info = run_replay(prop_id, f.get("probe_sub") or f["subcheck"], f["probe"])
            reproduced = info is not None and info.get("key") == f["key"]
        hits = known_hits.get(f["key"], 0)
        if reproduced or hits or reproduced is None:
            lines.append("KNOWN-FINDING: property=%s %s [key=%s probe=%s hits_in_search=%d]"
                         % (prop_id, f["what"], f["key"],
                            {True: "reproduced", False: "not-reproduced", None: "none"}[reproduced],
                            hits))
        else:
            lines.append("NOTE: listed finding no longer reproduces: property=%s key=%s"
                         % (prop_id, f["key"]))

    # ---- floors -----------------------------------------------------------
    starved = []
    for sub in prop.subchecks:
        s = per_sub.get(sub.name)
        if not s or s["evaluations"] == 0:
            continue
        if any(fl[0] == sub.name for fl in failures):
            continue
        # Floors were set to about half of the class fractions measured at a few seeds.  Hypothesis
        # generates by mutating earlier examples, so the fractions of one run of a few hundred cases
        # scatter far more than binomially (C10.align `accumulating`: 0.04 .. 0.33 over seven seeds
        # against a floor of 0.05): a generator is called starved when a class falls below 40 % (quick)
        # or 60 % (thorough) of its floor - starvation proper sends a class to (nearly) zero.
        slack = 0.4 if tier == "quick" else 0.6
        for cname, frac in sub.floors.items():
            frac = frac * slack
            got = s["classes"].get(cname, 0) / float(s["evaluations"])
            if got < frac:
                starved.append("%s.%s: class %r %.4f < floor %.4f"
                               % (prop_id, sub.name, cname, got, frac))

    # ---- replay files -------------------------------------------------------
    violation_lines = []
    seen_subs = set()
    for sub_name, shard, fl in sorted(failures, key=lambda x: (x[0], str(x[1]))):
        if sub_name in seen_subs:
            continue
        seen_subs.add(sub_name)
        d = "%016x" % digest(fl["case"])
        scratch = os.environ.get("VERIF_SCRATCH") or "/tmp/pyrex-verif-scratch/%d" % os.getpid()
        path = os.path.join(VERIF_DIR if write_evidence else scratch,
                            "replays", prop_id, "%s-%s.json" % (sub_name, d[:12]))
        _write_json(path, {
            "property": prop_id, "subcheck": sub_name, "seed": seed_value,
            "tier": tier, "shard": shard, "case": fl["case"],
            "unshrunk_case": fl["first_case"], "shrink_capped": fl["shrink_capped"],
            "key": fl["info"].get("key"),
            "exception": fl["info"]["type"], "message": fl["info"]["message"],
            "traceback": fl["info"]["traceback"],
        })
        violation_lines.append(
            "VIOLATION property=%s replay=%s subcheck=%s :: %s: %s"
            % (prop_id, path, sub_name, fl["info"]["type"],
               fl["info"]["message"].replace("\n", " ")[:300]))

    for path, sub_name, info in reg_failures:
        violation_lines.append(
            "VIOLATION property=%s replay=%s subcheck=%s :: (regression replay) %s: %s"
            % (prop_id, path, sub_name, info["type"], info["message"].replace("\n", " ")[:300]))

    # ---- evidence -----------------------------------------------------------
    total_eval = sum(s["evaluations"] for s in per_sub.values())
    fuzz_eval = 0
    all_keys = set()
    sub_out = {}
    samples = []
    classes = {}
    rules = []
    for sub in prop.subchecks:
        s = per_sub.get(sub.name)
        if not s:
            continue
        all_keys.update((sub.name, k) for k in s["keys"])
        ss = sorted(s["samples"], key=lambda x: x[0])[:Recorder.MAX_SAMPLES]
        sub_out[sub.name] = {
            "evaluations": s["evaluations"],
            "distinct_nontrivial": len(s["keys"]),
            "rule": sub.rule,
            "classes": dict(sorted(s["classes"].items())),
            "excluded": s["excluded"],
            "shards": s["shards"],
            "wall_s_max_shard": round(s["wall_s"], 2),
            "exhaustive": bool(sub.exhaustive),
            "samples": [x[1] for x in ss[:3]],
        }
        z = per_fuzz.get(sub.name)
        if z:
            new_keys = z["keys"] - s["keys"]
            all_keys.update((sub.name, k) for k in z["keys"])
            sub_out[sub.name]["coverage_guided"] = {
                "engine": "atheris/libFuzzer on Hypothesis fuzz_one_input, pyrex instrumented",
                "executions": z["executions"], "cases_decoded_and_checked": z["evaluations"],
                "distinct_nontrivial": len(z["keys"]), "distinct_nontrivial_not_seen_by_hypothesis": len(new_keys),
                "classes": dict(sorted(z["classes"].items())), "shards": z["shards"],
                "max_edges_covered_in_pyrex": z["cov_edges"], "max_features": z["features"],
                "corpus_units": z["corpus"], "shards_inconclusive_time_budget": z["inconclusive"],
                "wall_s_max_shard": round(z["wall_s"], 2)}
            fuzz_eval += z["evaluations"]
        for k, v in s["classes"].items():
            classes[sub.name + ":" + k] = v
        samples.extend({"subcheck": sub.name, "case": x[1]} for x in ss[:2])
        rules.append("%s: %s" % (sub.name, sub.rule))
    evidence = {
        "property_id": prop_id,
        "tier": tier,
        "seed": int(seed_value),
        "level": "exploration",
        "coverage": {
            "evaluations": int(total_eval + fuzz_eval),
            "evaluations_hypothesis": int(total_eval),
            "evaluations_coverage_guided": int(fuzz_eval),
            "coverage_guided_phase": (fuzz_note or ("ran" if per_fuzz else "not part of this tier")),
            "distinct_nontrivial": int(len(all_keys)),
            "rule": ("Hypothesis-generated cases per sub-check (thorough tier: plus the same tests driven "
                     "by libFuzzer through fuzz_one_input, counted only when the bytes decode into a case "
                     "that reaches the oracle); a case counts when it is "
                     "non-trivial by its sub-check's rule and its rounded digest is new. "
                     + " | ".join(rules)),
            "samples": samples,
            "exhaustive": all(s.exhaustive for s in prop.subchecks),
            "subchecks": sub_out,
            "known_findings_reported": [l for l in lines if l.startswith("KNOWN-FINDING")],
            "regression_replays_run": regressions,
        },
        "assumptions": prop.assumptions,
        "wall_s": round(time.time() - t0, 2),
        "violations": len(violation_lines),
    }
    if not only and write_evidence:
        _write_json(os.path.join(VERIF_DIR, "evidence", prop_id + ".json"), evidence)

    for l in lines:
        print(l)
    for name, s in sub_out.items():
        print("  %-28s eval=%-7d nontrivial=%-7d wall=%.1fs" %
              (name, s["evaluations"], s["distinct_nontrivial"], s["wall_s_max_shard"]))
        z = s.get("coverage_guided")
        if z:
            print("  %-28s fuzz: exec=%-7d cases=%-7d nontrivial=%-6d new=%-6d edges=%d wall=%.1fs" %
                  ("", z["executions"], z["cases_decoded_and_checked"], z["distinct_nontrivial"],
                   z["distinct_nontrivial_not_seen_by_hypothesis"], z["max_edges_covered_in_pyrex"],
                   z["wall_s_max_shard"]))
    if fuzz_note:
        print("NOTE: coverage-guided phase " + fuzz_note)
    if harness:
        for sub_name, shard, msg in harness[:3]:
            print("HARNESS-ERROR property=%s subcheck=%s shard=%s\n%s"
                  % (prop_id, sub_name, shard, msg))
        for l in violation_lines:
            print(l)
        return 1 if violation_lines else 2
    if violation_lines:
        for l in violation_lines:
            print(l)
        return 1
    if starved:
        for l in starved:
            print("HARNESS-ERROR generator starved: " + l)
        return 2
    print("OK property=%s tier=%s seed=%s evaluations=%d distinct_nontrivial=%d wall=%.1fs"
          % (prop_id, tier, seed_value, total_eval + fuzz_eval, len(all_keys), time.time() - t0))
    return 0
