#!/venv/bin/python
"""Markdown table of what the committed quick-tier evidence covered (for DESIGN.md section 6)."""
import glob
import json
import os
import sys

VERIF = os.path.dirname(os.path.dirname(os.path.abspath(__file__)))
thorough = {}
if len(sys.argv) > 1:      # optional: a thorough_all.sh log
    for line in open(sys.argv[1]):
        p = line.split()
        if len(p) > 5 and p[0].startswith("C") and "evaluations=" in line:
            ev = [x for x in p if x.startswith("evaluations=")][0].split("=")[1]
            wall = [x for x in p if x.startswith("wall=")][-1].split("=")[1]
            thorough[p[0]] = (ev, wall)
print("| prop | sub-checks | quick cases | quick non-trivial (distinct) | quick wall | thorough cases (incl. coverage-guided) | thorough wall |")
print("|---|---|---|---|---|---|---|")
for f in sorted(glob.glob(os.path.join(VERIF, "evidence", "C*.json"))):
    e = json.load(open(f))
    c = e["coverage"]
    t = thorough.get(e["property_id"], ("", ""))
    print("| %s | %d | %d | %d | %.0f s | %s | %s |" % (e["property_id"], len(c["subchecks"]), c["evaluations"],
                                                     c["distinct_nontrivial"], e["wall_s"], t[0], t[1]))
