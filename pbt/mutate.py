#!/venv/bin/python
"""
Sensitivity protocol (DESIGN 2.7): apply each listed mutant of pyrex to a
scratch copy under /tmp, run the property's quick check against the copy
(PYREX_REPO), and record whether it went red.  The copy is deleted afterwards.

    /venv/bin/python pbt/mutate.py C16            # all mutants of C16
    /venv/bin/python pbt/mutate.py C16 m3         # one mutant

Mutants live in pbt/mutants/<ID>.json:
  [{"id": "m1", "file": "pyrex/ice_model.py", "old": "...", "new": "...", "count": 1,
    "note": "..."}]
Results are written to pbt/mutants/results/<ID>.json (not evidence; a lab notebook).
"""
import json
import os
import shutil
import subprocess
import sys
import tempfile
import time

HERE = os.path.dirname(os.path.abspath(__file__))
VERIF = os.path.dirname(HERE)


def main():
    pid = sys.argv[1]
    only = set(sys.argv[2:])
    with open(os.path.join(HERE, "mutants", pid + ".json")) as f:
        mutants = json.load(f)
    os.makedirs(os.path.join(HERE, "mutants", "results"), exist_ok=True)
    # (VERIF_MUT_TAG=seed2 keeps a second record next to the VERIF_SEED=1 one)
    tag = os.environ.get("VERIF_MUT_TAG")
    res_path = os.path.join(HERE, "mutants", "results", pid + ("-" + tag if tag else "") + ".json")
    results = {}
    if os.path.exists(res_path):
        with open(res_path) as f:
            results = json.load(f)
    for m in mutants:
        if only and m["id"] not in only:
            continue
        tmp = tempfile.mkdtemp(prefix="pyrex-mut-")
        try:
            subprocess.check_call(["rsync", "-a", "--exclude", ".git", "--exclude", "docs",
                                   "--exclude", "*.pdf", "--exclude", "tests",
                                   "/repo/", tmp + "/"])
            edits = m.get("edits") or [m]
            stale = False
            for e in edits:
                path = os.path.join(tmp, e["file"])
                src = open(path).read()
                cnt = src.count(e["old"])
                want = e.get("count", 1)
                if cnt < 1 or (want != "all" and cnt != want):
                    # (the tree moved on under the mutant, e.g. a fix commit: say so and go on)
                    print("%s %-6s STALE: pattern occurs %d times in %s (want %s)"
                          % (pid, m["id"], cnt, e["file"], want), flush=True)
                    stale = True
                    break
                open(path, "w").write(src.replace(e["old"], e["new"]))
            if stale:
                results[pid + "." + m["id"]] = {"status": "stale"}
                continue
            env = dict(os.environ, PYREX_REPO=tmp, VERIF_NO_EVIDENCE="1", VERIF_SCRATCH=os.path.join(tmp, "_scratch"))
            t0 = time.time()
            cmd = ["/venv/bin/python", os.path.join(HERE, "run.py"), pid, "--tier", "quick",
                   "--no-evidence"] + sum((["--only", s] for s in m.get("only", [])), [])
            p = subprocess.run(cmd, env=env, stdout=subprocess.PIPE, stderr=subprocess.STDOUT,
                               text=True, timeout=1800)
            viol = [l for l in p.stdout.splitlines() if l.startswith("VIOLATION")]
            subs = sorted(set(l.split("subcheck=")[1].split()[0] for l in viol))
            status = "killed" if p.returncode == 1 and viol else ("harness-error" if p.returncode == 2 else "SURVIVED")
            print("%s %-6s %-10s %5.1fs  %s  %s" % (pid, m["id"], status, time.time() - t0,
                                                   ",".join(subs), m.get("note", "")))
            if status != "killed":
                print(p.stdout[-1500:])
            results["%s.%s" % (pid, m["id"])] = {"status": status, "subchecks": subs,
                                                 "note": m.get("note", ""),
                                                 "wall_s": round(time.time() - t0, 1)}
        finally:
            shutil.rmtree(tmp, ignore_errors=True)
    with open(res_path, "w") as f:
        json.dump(results, f, indent=1, sort_keys=True)
        f.write("\n")


if __name__ == "__main__":
    main()
