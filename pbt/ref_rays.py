"""
Reference oracles for gradient-index ray tracing (DESIGN 3/C01).

Neither oracle uses pyrex's closed forms or its trapezoid:

O1  `Quadrature`: adaptive quadrature of the three Snell integrals
        rho(beta) = int beta   / sqrt(n^2-beta^2) dz
        L(beta)   = int n      / sqrt(n^2-beta^2) dz
        T(beta)   = int n^2/c  / sqrt(n^2-beta^2) dz
    along a branch (direct, or up to the turning depth / surface and down), the
    inverse-square-root end-point singularity removed by z = z_t - u^2.  The
    profile is n0 - k exp(a z); `uniform_below` switches on the analytic
    tracer's documented model "n == n0 below the depth where n = 0.99999 n0".

O2  `shoot`: ODE integration of the ray equations in the TRUE exponential
    profile from the source along the reported emitted direction, mirror
    reflection at the surface, closest approach to the receiver.
"""

import math

import numpy as np
import scipy.integrate
import scipy.optimize

C = 299792458.0


class Profile:
    def __init__(self, spec, uniform_below=None):
        self.n0 = spec["n0"]
        self.k = spec["k"]
        self.a = spec["a"]
        self.lo, self.hi = sorted(spec["range"])
        self.z_uniform = uniform_below  # None = true profile everywhere

    def n(self, z):
        if self.z_uniform is not None and z < self.z_uniform:
            return self.n0
        return self.n0 - self.k * math.exp(self.a * z)

    def n_true(self, z):
        return self.n0 - self.k * math.exp(self.a * z)

    def dn(self, z):
        return -self.k * self.a * math.exp(self.a * z)

    def z_turn(self, beta):
        """Depth where n_true(z) = beta (may be above the surface)."""
        return math.log((self.n0 - beta) / self.k) / self.a


def z_uniform_of(spec, uniformity_factor=0.99999):
    """Depth where n = uniformity_factor * n0 (clamped into the range)."""
    n0, k, a = spec["n0"], spec["k"], spec["a"]
    lo, hi = sorted(spec["range"])
    z = math.log(n0 * (1 - uniformity_factor) / k) / a
    return min(hi, max(lo, z))


def flat_index_pair(spec, z_a, z_b, rho=None):
    """True when both depths lie where the index equals its asymptote n0 in floating
    point (k exp(a z) below half an ulp of n0): there pyrex's gradient tracers break
    down (known finding F16: max_angle = pi/2, alpha = n0^2 - beta^2 = 0)."""
    n_a = spec["n0"] - spec["k"] * math.exp(spec["a"] * z_a)
    n_b = spec["n0"] - spec["k"] * math.exp(spec["a"] * z_b)
    if min(n_a, n_b) == spec["n0"] or \
            (max(n_a, n_b) == spec["n0"] and min(n_a, n_b) / max(n_a, n_b) == 1.0):
        return True
    if z_a == z_b and rho is not None:
        # equal depths: the connecting ray rises rho^2 |n'| / (8 n) above them; when that
        # is below the floating-point resolution of the depth the index is flat for it
        rise = rho * rho * spec["k"] * spec["a"] * math.exp(spec["a"] * z_a) / (8 * n_a)
        if rise < 16 * math.ulp(abs(z_a) + 1.0):
            return True
    if z_a == z_b and 2 * spec["k"] * math.exp(spec["a"] * z_a) < 1e-9 * spec["n0"]:
        # equal depths so deep that alpha = n0^2 - beta^2 of the connecting (horizontal) ray is
        # below 1e-9 n0^2: formed by subtraction it keeps fewer than seven digits (same finding)
        return True
    return False


class Quadrature:
    """Snell integrals of a stratified profile by adaptive quadrature."""

    def __init__(self, profile, epsrel=1e-11):
        self.p = profile
        self.epsrel = epsrel

    def _weights(self, z, beta):
        n = self.p.n(z)
        g = n * n - beta * beta
        if g <= 0:
            return None
        s = math.sqrt(g)
        return beta / s, n / s, n * n / (C * s)

    def _smooth(self, z_a, z_b, beta):
        """int_{z_a}^{z_b} (z_a<z_b), no singularity inside; splits at z_uniform."""
        if z_b <= z_a:
            return np.zeros(3)
        pts = [z_a, z_b]
        zu = self.p.z_uniform
        if zu is not None and z_a < zu < z_b:
            pts = [z_a, zu, z_b]
        out = np.zeros(3)
        for lo, hi in zip(pts[:-1], pts[1:]):
            # evaluate strictly inside the piece (profile is discontinuous at zu)
            mid_eps = 0.0
            for j in range(3):
                def f(z, j=j, lo=lo, hi=hi):
                    zz = min(max(z, lo), hi)
                    if zu is not None:
                        # keep on this side of the discontinuity
                        if hi <= zu:
                            n = self.p.n0
                        else:
                            n = self.p.n_true(zz)
                    else:
                        n = self.p.n_true(zz)
                    g = n * n - beta * beta
                    if g <= 0:
                        return 0.0
                    s = math.sqrt(g)
                    return (beta / s, n / s, n * n / s)[j]
                v, _ = scipy.integrate.quad(f, lo, hi, epsabs=0, epsrel=self.epsrel, limit=200)
                out[j] += v
        out[2] /= C
        return out

    def _to_turn(self, z_a, z_t, beta):
        """int_{z_a}^{z_t} with n(z_t) = beta (inverse-sqrt singularity at z_t)."""
        if z_t <= z_a:
            return np.zeros(3)
        zu = self.p.z_uniform
        out = np.zeros(3)
        start = z_a
        if zu is not None and z_a < zu < z_t:
            out += self._smooth(z_a, zu, beta)
            start = zu
        elif zu is not None and z_t <= zu:
            # turning inside the uniform region cannot happen (n0 > beta there)
            return self._smooth(z_a, z_t, beta)
        umax = math.sqrt(z_t - start)
        sing = np.zeros(3)
        for j in range(3):
            def f(u, j=j):
                z = z_t - u * u
                n = self.p.n_true(z)
                g = n * n - beta * beta
                if g <= 0:
                    # u -> 0 limit: g ~ 2 beta |n'| u^2
                    g = 2 * beta * abs(self.p.dn(z_t)) * u * u
                    if g <= 0:
                        return 0.0
                s = math.sqrt(g)
                return (beta / s, n / s, n * n / s)[j] * 2 * u
            v, _ = scipy.integrate.quad(f, 0.0, umax, epsabs=0, epsrel=self.epsrel, limit=200)
            sing[j] += v
        sing[2] /= C
        return out + sing

    # -- public ---------------------------------------------------------------
    def direct(self, z_from, z_to, beta):
        """(rho, L, T) of the non-turning ray between the depths, or None."""
        lo, hi = min(z_from, z_to), max(z_from, z_to)
        if beta >= self.p.n_true(hi) * (1 + 1e-15) and beta > self.p.n(hi):
            return None
        if beta >= self.p.n_true(hi) * (1 - 1e-13):
            # grazing at the upper end point: integrable singularity there
            return self._to_turn(lo, hi, min(beta, self.p.n_true(hi)))
        return self._smooth(lo, hi, beta)

    def top_of(self, beta):
        """(z_top, reflects): turning depth or surface for an upgoing ray."""
        if beta <= 0:
            return self.p.hi, True
        if beta >= self.p.n0:
            return None, False
        zt = self.p.z_turn(beta)
        if zt >= self.p.hi:
            return self.p.hi, True
        return zt, False

    def indirect(self, z_from, z_to, beta):
        """(rho, L, T) of the ray going up from z_from, turning/reflecting, down to z_to."""
        z_top, reflects = self.top_of(beta)
        if z_top is None or z_top < max(z_from, z_to) - 1e-12:
            return None
        if reflects:
            return self._to_turn(z_from, z_top, beta) + self._to_turn(z_to, z_top, beta)
        return self._to_turn(z_from, z_top, beta) + self._to_turn(z_to, z_top, beta)

    def beta_max(self, z_from, z_to):
        return self.p.n_true(max(z_from, z_to))

    def direct_rho_max(self, z_from, z_to):
        lo, hi = min(z_from, z_to), max(z_from, z_to)
        if hi == lo:
            return 0.0
        return float(self._to_turn(lo, hi, self.p.n_true(hi))[0])

    def indirect_rho_max(self, z_from, z_to, n_grid=48):
        """Maximum of rho over the indirect branch (beta in (0, beta_max])."""
        bmax = self.beta_max(z_from, z_to)
        saved = self.epsrel
        self.epsrel = 1e-7
        try:
            def rho(b):
                r = self.indirect(z_from, z_to, b)
                return -1.0 if r is None else float(r[0])
            # turning depth coordinate gives a well-resolved grid near beta_max
            bs = bmax * (1 - np.logspace(-12, 0, n_grid, endpoint=False))
            vals = [rho(b) for b in bs]
            i = int(np.argmax(vals))
            lo = bs[min(i + 1, len(bs) - 1)]
            hi = bs[max(i - 1, 0)]
            if lo > hi:
                lo, hi = hi, lo
            if hi > lo:
                res = scipy.optimize.minimize_scalar(lambda b: -rho(b), bounds=(lo, hi),
                                                     method="bounded",
                                                     options={"xatol": 1e-12 * bmax})
                best = max(vals[i], -float(res.fun))
            else:
                best = vals[i]
            return best
        finally:
            self.epsrel = saved


# ---------------------------------------------------------------------------
# O2: ODE shooter in the true profile


def shoot(spec, from_point, direction, to_point, s_max, rtol=1e-11, n_scan=400):
    """Integrate the ray from `from_point` along `direction` (unit vector).

    Returns dict(miss, s, tof, turned, reflected, pos) at the closest approach
    to `to_point` along the ray within arc length `s_max`.
    """
    n0, k, a = spec["n0"], spec["k"], spec["a"]
    lo, hi = sorted(spec["range"])
    d = np.asarray(direction, dtype=float)
    d = d / np.linalg.norm(d)
    dh = math.hypot(d[0], d[1])
    hvec = np.array([d[0], d[1]]) / dh if dh > 0 else np.zeros(2)
    f = np.asarray(from_point, dtype=float)
    t = np.asarray(to_point, dtype=float)

    def n_of(z):
        return n0 - k * math.exp(a * min(z, hi))

    def rhs(s, y):
        r, z, pz, tau = y
        n = n_of(z)
        return [beta / n, pz / n, -k * a * math.exp(a * min(z, hi)), n / C]

    nf = n_of(f[2])
    beta = nf * dh
    y0 = [0.0, f[2], nf * d[2], 0.0]

    def hit_surface(s, y):
        return y[1] - hi
    hit_surface.terminal = True
    hit_surface.direction = 1

    def hit_bottom(s, y):
        return y[1] - (lo - 1.0)
    hit_bottom.terminal = True
    hit_bottom.direction = -1

    segments = []
    s0 = 0.0
    reflected = False
    y = y0
    for _ in range(4):
        sol = scipy.integrate.solve_ivp(rhs, (s0, s_max), y, method="DOP853", rtol=rtol,
                                        atol=1e-12, dense_output=True,
                                        events=[hit_surface, hit_bottom])
        segments.append(sol)
        if sol.status == 1 and len(sol.t_events[0]) > 0:
            # mirror at the surface
            s0 = float(sol.t_events[0][0])
            ye = sol.y_events[0][0]
            y = [ye[0], hi, -abs(ye[2]), ye[3]]
            reflected = True
            if s0 >= s_max:
                break
            continue
        break

    def state(s):
        for sol in segments:
            if sol.t[0] <= s <= sol.t[-1]:
                return sol.sol(s)
        return segments[-1].sol(min(max(s, segments[-1].t[0]), segments[-1].t[-1]))

    def dist(s):
        r, z, pz, tau = state(s)
        dx = f[0] + r * hvec[0] - t[0]
        dy = f[1] + r * hvec[1] - t[1]
        dz_ = z - t[2]
        return math.sqrt(dx * dx + dy * dy + dz_ * dz_)

    # coarse scan, vectorised per segment through the dense output; every local
    # minimum of the distance is refined (the ray can pass the receiver twice:
    # before and after a turn or a reflection)
    cands = []
    for k_seg, sol in enumerate(segments):
        if sol.t[-1] <= sol.t[0]:
            continue
        ss = np.linspace(sol.t[0], sol.t[-1], n_scan)
        yy = sol.sol(ss)
        dd = np.sqrt((f[0] + yy[0] * hvec[0] - t[0]) ** 2 + (f[1] + yy[0] * hvec[1] - t[1]) ** 2
                     + (yy[1] - t[2]) ** 2)
        idxs = [i for i in range(len(dd))
                if (i == 0 or dd[i] <= dd[i - 1]) and (i == len(dd) - 1 or dd[i] <= dd[i + 1])]
        idxs = sorted(idxs, key=lambda i: dd[i])[:4]
        for i in idxs:
            a_, b_ = float(ss[max(i - 1, 0)]), float(ss[min(i + 1, len(ss) - 1)])
            d_i, s_i = float(dd[i]), float(ss[i])
            if b_ > a_:
                res = scipy.optimize.minimize_scalar(dist, bounds=(a_, b_), method="bounded",
                                                     options={"xatol": 1e-10 * max(1.0, s_max)})
                if res.fun <= d_i:
                    d_i, s_i = float(res.fun), float(res.x)
            r, z, pz, tau = state(s_i)
            refl = bool(k_seg > 0)
            cands.append(dict(miss=d_i, s=s_i, tof=float(tau), reflected=refl,
                              turned=bool(d[2] > 0 and pz < 0 and not refl),
                              pz=float(pz), n_end=n_of(z)))
    cands.sort(key=lambda c: c["miss"])
    best = dict(cands[0])
    best.update(s_end=float(segments[-1].t[-1]), beta=beta, candidates=cands)
    return best


def pick_arrival(shot, tol_miss, L):
    """Among the passes that come within `tol_miss` of the receiver (or the closest
    one if none does) take the one whose arc length is nearest to `L`."""
    ok = [c for c in shot["candidates"] if c["miss"] <= tol_miss]
    if not ok:
        return shot["candidates"][0]
    return min(ok, key=lambda c: abs(c["s"] - L))
