"""
Harness-side reference for the Earth models (property C15).

Nothing here imports pyrex.  The density tables are transcribed from the
published models, not from the code:

* PREM: Dziewonski & Anderson 1981, table I (density column, polynomials in
  x = r / 6371 km, g/cm^3), shell radii in km 1221.5, 3480, 5701, 5771, 5971,
  6151, 6346.6, 6356, 6368, 6371.
* Core-Mantle-Crust (AraSim EarthModel): r^2 < 1.2e13 m^2 -> 14, up to
  R - 40 km -> 3.4, up to R = 6378.14 km -> 2.9.

Shells are half-open [lower, upper) as documented in pyrex ("from radius at
index i-1 to radius at index i"); the density is zero for r < 0 and r >= R.

The chord geometry uses the impact-parameter form (closest approach and
cross product), not the quadratic discriminant of the code under test.
"""

import math

MODELS = {
    "PREM": {
        "R": 6371000.0,
        "radii": [1221500.0, 3480000.0, 5701000.0, 5771000.0, 5971000.0,
                  6151000.0, 6346600.0, 6356000.0, 6368000.0, 6371000.0],
        # ascending powers of x = r/R
        "coef": [
            [13.0885, 0.0, -8.8381],
            [12.5815, -1.2638, -3.6426, -5.5281],
            [7.9565, -6.4761, 5.5283, -3.0807],
            [5.3197, -1.4836],
            [11.2494, -8.0298],
            [7.1089, -3.8045],
            [2.6910, 0.6924],
            [2.9],
            [2.6],
            [1.02],
        ],
    },
    "CoreMantleCrustModel": {
        "R": 6378140.0,
        "radii": [math.sqrt(1.2e13), 6378140.0 - 40000.0, 6378140.0],
        "coef": [[14.0], [3.4], [2.9]],
    },
}


def shell_index(model, r):
    """Index of the half-open shell containing r, or None outside the Earth."""
    m = MODELS[model]
    if not (r >= 0.0) or r >= m["R"]:
        return None
    for i, up in enumerate(m["radii"]):
        if r < up:
            return i
    return None


def poly(coef, x):
    acc = 0.0
    for c in reversed(coef):
        acc = acc * x + c
    return acc


def shell_density(model, i, r):
    m = MODELS[model]
    return poly(m["coef"][i], r / m["R"])


def density(model, r):
    i = shell_index(model, r)
    if i is None:
        return 0.0
    return shell_density(model, i, r)


def max_coef_sum(model):
    """Upper bound of sum |c_k| x^k on 0<=x<=1 (rounding scale of a polynomial)."""
    return max(sum(abs(c) for c in cs) for cs in MODELS[model]["coef"])


# ---------------------------------------------------------------------------
# chord geometry


def _unit(v):
    # scale first so that tiny / huge vectors neither underflow nor overflow
    s = max(abs(c) for c in v)
    w = [c / s for c in v]
    n = math.sqrt(math.fsum(c * c for c in w))
    return [c / n for c in w]


def chord(model, endpoint, direction):
    """
    Geometry of the ray P + t u (t >= 0) with respect to the Earth sphere.

    Returns dict(P, u, p, tc, b, t_in, t_out, a, L, enters):
      tc = parameter of closest approach to the centre, b = impact parameter,
      [t_in, t_out] = parameters inside the sphere (None when b >= R),
      a = max(0, t_in) start of the part inside the Earth on the ray,
      L = t_out (distance from the point to where the ray leaves the Earth) or 0,
      enters = the ray has a part of positive length inside the Earth.
    """
    R = MODELS[model]["R"]
    P = [float(endpoint[0]), float(endpoint[1]), float(endpoint[2]) + R]
    u = _unit([float(c) for c in direction])
    tc = -math.fsum(P[i] * u[i] for i in range(3))
    cx = P[1] * u[2] - P[2] * u[1]
    cy = P[2] * u[0] - P[0] * u[2]
    cz = P[0] * u[1] - P[1] * u[0]
    b = math.sqrt(math.fsum([cx * cx, cy * cy, cz * cz]))
    p = math.sqrt(math.fsum(c * c for c in P))
    out = dict(P=P, u=u, p=p, tc=tc, b=b, R=R, t_in=None, t_out=None, a=0.0, L=0.0,
               enters=False)
    if b >= R:
        return out
    half = math.sqrt((R - b) * (R + b))
    # tc +- half, written without cancellation: (tc-half)(tc+half) = p^2 - R^2
    pw = (p - R) * (p + R)
    if tc >= 0.0:
        out["t_out"] = tc + half
        out["t_in"] = pw / out["t_out"] if out["t_out"] > 0.0 else 0.0
    else:
        out["t_in"] = tc - half
        out["t_out"] = pw / out["t_in"]
    if out["t_out"] > 0.0:
        out["a"] = max(0.0, out["t_in"])
        out["L"] = out["t_out"]
        out["enters"] = out["t_out"] > out["a"]
    return out


def radius_at(g, t):
    s = t - g["tc"]
    return math.sqrt(g["b"] * g["b"] + s * s)


def pieces(model, g):
    """
    Split [a, t_out] at every shell crossing and at the closest approach.
    Returns list of (t0, t1, shell index) with t0 < t1, the radius being
    monotone in t on each piece and staying in one shell.
    """
    if not g["enters"]:
        return []
    m = MODELS[model]
    a, t_out, tc, b = g["a"], g["t_out"], g["tc"], g["b"]
    cuts = {a, t_out}
    if a < tc < t_out:
        cuts.add(tc)
    for rs in m["radii"][:-1]:
        if rs > b:
            d = math.sqrt((rs - b) * (rs + b))
            for t in (tc - d, tc + d):
                if a < t < t_out:
                    cuts.add(t)
    cuts = sorted(cuts)
    out = []
    for t0, t1 in zip(cuts[:-1], cuts[1:]):
        if not t1 > t0:
            continue
        rmid = radius_at(g, 0.5 * (t0 + t1))
        i = shell_index(model, min(rmid, math.nextafter(m["R"], 0.0)))
        out.append((t0, t1, i))
    return out


def _int_rk(k, b, s):
    """Antiderivative of (b^2+s^2)^(k/2) ds for k = 0..3 (closed forms)."""
    r = math.sqrt(b * b + s * s)
    if k == 0:
        return s
    if k == 2:
        return b * b * s + s ** 3 / 3.0
    # log term: asinh(s/b) is the odd, cancellation-free form of ln(s + r) - ln b
    lg = math.asinh(s / b) if b > 0.0 else 0.0
    i1 = 0.5 * (s * r + b * b * lg)
    if k == 1:
        return i1
    if k == 3:
        return 0.25 * s * r ** 3 + 0.75 * b * b * i1
    raise ValueError(k)


def column_closed_form(model, g):
    """Integral of density along the chord in g/cm^2 by closed-form antiderivatives."""
    m = MODELS[model]
    R, b, tc = m["R"], g["b"], g["tc"]
    terms = []
    for t0, t1, i in pieces(model, g):
        for k, c in enumerate(m["coef"][i]):
            if c == 0.0:
                continue
            terms.append(c / R ** k * (_int_rk(k, b, t1 - tc) - _int_rk(k, b, t0 - tc)))
    return 100.0 * math.fsum(terms)


def column_quad(model, g, epsrel=1e-11):
    """The same integral by adaptive quadrature on every smooth piece."""
    from scipy.integrate import quad
    m = MODELS[model]
    R, b, tc = m["R"], g["b"], g["tc"]
    total = []
    err = 0.0
    for t0, t1, i in pieces(model, g):
        cs = m["coef"][i]
        if len(cs) == 1:
            total.append(cs[0] * (t1 - t0))
            continue
        val, e = quad(lambda t: poly(cs, math.sqrt(b * b + (t - tc) ** 2) / R), t0, t1,
                      epsabs=0.0, epsrel=epsrel, limit=200)
        total.append(val)
        err += e
    return 100.0 * math.fsum(total), 100.0 * err


def graze_jump(model, g, window=1e-6):
    """
    Sum of the density jumps of the shells that the chord touches at its closest
    approach within `window` metres: a sample taken there falls on either side of the
    shell boundary depending on rounding (or on a graze of < 1 micrometre).
    """
    if not g["enters"] or not (g["a"] < g["tc"] < g["t_out"]):
        return 0.0
    m = MODELS[model]
    tot = 0.0
    for i, rs in enumerate(m["radii"][:-1]):
        if abs(g["b"] - rs) <= window:
            tot += abs(shell_density(model, i, rs) - shell_density(model, i + 1, rs))
    return tot


def variation(model, g):
    """
    Total variation of the density seen along the ray from t = 0 to just past
    the exit: smooth parts (the radius is monotone on each piece and the
    polynomials are sampled finely enough to catch an interior extremum),
    jumps at shell crossings, the jump between the value at the point itself
    and the first piece, and the exit drop to zero.  Also returns the largest density on the chord.
    """
    pcs = pieces(model, g)
    if not pcs:
        return 0.0, 0.0
    tv = 0.0
    rho_max = 0.0
    # value at t = 0 itself: zero when the point is outside, otherwise the table value at
    # the point's radius (a point exactly on a shell radius or on the surface belongs to
    # the outer shell / to the outside whichever way the chord goes; within rounding of
    # a shell radius either side is possible, the larger jump is taken)
    if g["a"] > 0.0:
        starts = [0.0]
    else:
        starts = [density(model, g["p"] + d) for d in (-1e-7, 0.0, 1e-7)]
    prev_end = None
    for t0, t1, i in pcs:
        r0, r1 = radius_at(g, t0), radius_at(g, t1)
        n = 16
        vals = [shell_density(model, i, r0 + (r1 - r0) * j / n) for j in range(n + 1)]
        rho_max = max(rho_max, max(vals))
        if prev_end is None:
            tv += max(abs(vals[0] - v) for v in starts)
        else:
            tv += abs(vals[0] - prev_end)
        tv += sum(abs(y - x) for x, y in zip(vals[:-1], vals[1:]))
        prev_end = vals[-1]
    tv += abs(prev_end)       # exit drop
    # a shell touched within rounding: the excursion across it and back may or may not
    # be seen by a sample
    gj = graze_jump(model, g)
    return tv + 2.0 * gj, rho_max + gj
