#!/venv/bin/python
"""
Confirm a seeded breaking change and run the checks against it.

    /venv/bin/python pbt/seedcheck.py seeded/C05-1 [--no-tests] [--tier quick] [--props C05,C06]

The seeded directory holds patch.diff, demo.py and meta.json ({"property": ...}).
Everything happens in a scratch copy of /repo under /tmp (PYREX_REPO), so that
/repo itself is never modified while other work reads it; the copy is removed
afterwards.  Steps:
  1. demo.py on the clean copy            -> must exit 0
  2. apply patch.diff (patch -p1)
  3. the repository's own test suite       -> must pass (skipped with --no-tests)
  4. demo.py on the patched copy           -> must exit non-zero
  5. the property's check (quick tier)     -> exit 1 + VIOLATION expected
Results are merged into meta.json under "confirmation" and "detection".
"""
import argparse
import json
import os
import shutil
import subprocess
import sys
import tempfile
import time

HERE = os.path.dirname(os.path.abspath(__file__))
VERIF = os.path.dirname(HERE)


def run(cmd, cwd=None, env=None, timeout=3600):
    p = subprocess.run(cmd, cwd=cwd, env=env, stdout=subprocess.PIPE, stderr=subprocess.STDOUT,
                       text=True, timeout=timeout)
    return p.returncode, p.stdout


def main():
    ap = argparse.ArgumentParser()
    ap.add_argument("seed_dir")
    ap.add_argument("--no-tests", action="store_true")
    ap.add_argument("--tier", default="quick")
    ap.add_argument("--props")
    ap.add_argument("--seed", default="1")
    args = ap.parse_args()
    sd = os.path.abspath(args.seed_dir)
    meta_path = os.path.join(sd, "meta.json")
    meta = json.load(open(meta_path))
    props = args.props.split(",") if args.props else [meta["property"]]
    tmp = tempfile.mkdtemp(prefix="pyrex-seed-")
    try:
        subprocess.check_call(["rsync", "-a", "--exclude", ".git", "--exclude", "docs", "--exclude", "*.pdf",
                               "--exclude", "__pycache__", "/repo/", tmp + "/"])
        demo_src = open(os.path.join(sd, "demo.py")).read()
        # demos were written against a worktree path; point them at the copy
        os.makedirs(os.path.join(tmp, "seed"), exist_ok=True)
        demo_path = os.path.join(tmp, "seed", "demo.py")
        wt = meta.get("worktree")
        if wt:
            demo_src = demo_src.replace(wt, tmp)
        open(demo_path, "w").write(demo_src)
        env = dict(os.environ, PYTHONDONTWRITEBYTECODE="1", PYTHONPATH=tmp)
        conf = {}
        rc, out = run(["/venv/bin/python", demo_path], cwd=tmp, env=env)
        conf["demo_clean_exit"] = rc
        rc, out = run(["patch", "-p1", "--no-backup-if-mismatch", "-i", os.path.join(sd, "patch.diff")], cwd=tmp)
        if rc != 0:
            print(out)
            raise SystemExit("patch does not apply")
        if not args.no_tests:
            t0 = time.time()
            rc, out = run(["/venv/bin/python", "-m", "pytest", "-q", "-p", "no:cacheprovider", "--timeout=900",
                           "-x", "tests"], cwd=tmp, env=env)
            conf["tests_exit"] = rc
            conf["tests_tail"] = out.strip().splitlines()[-1] if out.strip() else ""
            conf["tests_wall_s"] = round(time.time() - t0, 1)
        rc, out = run(["/venv/bin/python", demo_path], cwd=tmp, env=env)
        conf["demo_patched_exit"] = rc
        conf["demo_patched_tail"] = out.strip().splitlines()[-1][:300] if out.strip() else ""
        ok = conf["demo_clean_exit"] == 0 and conf["demo_patched_exit"] != 0 and \
            (args.no_tests or conf.get("tests_exit") == 0)
        conf["confirmed"] = bool(ok)
        print("CONFIRMATION", json.dumps(conf))
        det = meta.get("detection", {})
        for pid in props:
            t0 = time.time()
            env2 = dict(os.environ, PYREX_REPO=tmp, VERIF_SEED=args.seed, VERIF_SCRATCH=os.path.join(tmp, "_scratch"))
            rc, out = run(["/venv/bin/python", os.path.join(HERE, "run.py"), pid, "--tier", args.tier,
                           "--no-evidence"], env=env2, timeout=7200)
            viol = [l for l in out.splitlines() if l.startswith("VIOLATION")]
            subs = sorted(set(l.split("subcheck=")[1].split()[0] for l in viol if "subcheck=" in l))
            det[pid] = {"tier": args.tier, "seed": int(args.seed), "exit": rc, "detected": rc == 1 and bool(viol),
                        "subchecks": subs, "first": viol[0][:400] if viol else "",
                        "wall_s": round(time.time() - t0, 1)}
            print("DETECTION", pid, json.dumps(det[pid]))
            if rc == 2:
                print(out[-2000:])
        meta["confirmation"] = conf
        meta["detection"] = det
        json.dump(meta, open(meta_path, "w"), indent=1)
        open(meta_path, "a").write("\n")
    finally:
        shutil.rmtree(tmp, ignore_errors=True)


if __name__ == "__main__":
    main()
