#!/venv/bin/python
"""
Coverage-guided phase of the thorough tier: one libFuzzer (atheris) campaign on one sub-check.

    fuzz_worker.py <PROP> <SUB> <RUNS> <SEED> <OUT.json> <KNOWN-KEYS-JSON>

The fuzz target is the *same* Hypothesis test the generated-input phase runs
(`given(sub.strategy)(check)`), entered through Hypothesis's `fuzz_one_input`: libFuzzer's
bytes are Hypothesis's choice sequence, so every input decodes into a structured, sound case
and the semantic oracle of the sub-check sits inside the target.  Coverage feedback comes from
pyrex only (`atheris.instrument_imports(include=["pyrex"])`): the harness and the oracles are
not instrumented, so the search is steered towards new pyrex branches, not new harness code.

libFuzzer ends the process itself (no Python clean-up runs), so the recorder state is written
to OUT every 200 executions, on the last execution and before a failure is re-raised.  A
failing case is not shrunk here (fuzz_one_input does not shrink): the parent writes it as the
replay file as it is.
"""
import json
import os
import sys
import time
import traceback

HERE = os.path.dirname(os.path.abspath(__file__))
VERIF = os.path.dirname(HERE)


def _fix_bytestring_provider():
    """Hypothesis 6.168's BytestringProvider.draw_integer compares the raw drawn bits with
    [min_value, max_value] without adding min_value: integers(-32, -3) never terminates (overrun),
    integers(3, 6) can only yield 3.  Every strategy here draws such ranges, so fuzz_one_input would
    reject every input.  Replaced (in this process only) by offset + rejection on the span."""
    from hypothesis.internal.conjecture.providers import BytestringProvider

    def draw_integer(self, min_value=None, max_value=None, *, weights=None, shrink_towards=0):
        if min_value is None and max_value is None:
            min_value, max_value = -(2**127), 2**127 - 1
        elif min_value is None:
            min_value = max_value - 2**64
        elif max_value is None:
            max_value = min_value + 2**64
        if min_value == max_value:
            return min_value
        span = max_value - min_value
        bits = span.bit_length()
        value = self._draw_bits(bits)
        while value > span:
            value = self._draw_bits(bits)
        return min_value + value

    BytestringProvider.draw_integer = draw_integer


def main():
    prop_id, sub_name, runs, seed, out_path, known_json = sys.argv[1:7]
    runs, seed = int(runs), int(seed)
    sys.path.insert(0, os.path.join(VERIF, ".deps"))
    sys.path.insert(0, VERIF)
    from pbt import core
    core.setup_environment()
    import atheris
    with atheris.instrument_imports(include=["pyrex"]):
        import pyrex  # noqa
        for name in ("pyrex.custom.layered_ice", "pyrex.custom.layered_ice.ray_tracing"):
            try:
                __import__(name)
            except Exception:
                pass
    try:
        import resource
        lim = int(os.environ.get("VERIF_MEM_GB", "6")) * 2**30
        resource.setrlimit(resource.RLIMIT_AS, (lim, lim))
    except Exception:
        pass
    from hypothesis import HealthCheck, given, settings
    import hypothesis
    from pbt import registry
    from pbt.core import Recorder, HarnessError, Violation, _exc_info

    _fix_bytestring_provider()
    prop = registry.load(prop_id)
    sub = prop.sub(sub_name)
    rec = Recorder()
    known = set(json.loads(known_json))
    out = {"sub": sub_name, "engine": "atheris", "failure": None, "harness": None, "known_hits": {},
           "calls": 0, "runs_requested": runs, "seed": seed, "wall_s": 0.0, "rec": None}
    t0 = time.time()

    def save():
        out["rec"] = rec.export()
        out["wall_s"] = time.time() - t0
        tmp = out_path + ".tmp"
        with open(tmp, "w") as f:
            json.dump(out, f, default=str)
        os.replace(tmp, out_path)

    def body(case):
        out["calls"] += 1
        try:
            sub.check(case, rec)
        except HarnessError as e:
            out["harness"] = str(e)[-6000:]
            save()
            raise
        except BaseException as e:  # noqa
            if isinstance(e, (KeyboardInterrupt, SystemExit)):
                raise
            if type(e).__module__.startswith("hypothesis"):
                raise
            key = None
            if sub.classify is not None:
                try:
                    key = sub.classify(case, e)
                except Exception:
                    key = None
            if key is not None and key in known:
                out["known_hits"][key] = out["known_hits"].get(key, 0) + 1
                rec.exclude("known:" + key)
            else:
                info = _exc_info(e)
                info["key"] = key
                if not isinstance(e, Violation) and not info["in_pyrex"]:
                    out["harness"] = "%s: %s\n%s" % (info["type"], info["message"], info["traceback"])
                else:
                    out["failure"] = {"case": case, "info": info, "first_case": case, "shrink_capped": True}
                save()
                raise
        if out["calls"] % 200 == 0:
            save()

    test = given(sub.strategy)(body)
    test = settings(database=None, deadline=None, suppress_health_check=list(HealthCheck),
                    verbosity=hypothesis.Verbosity.quiet)(test)
    fuzz_one = test.hypothesis.fuzz_one_input
    n_inputs = [0]

    def target(data):
        n_inputs[0] += 1
        try:
            fuzz_one(data)
        finally:
            if n_inputs[0] >= runs:
                save()

    scratch = os.path.dirname(out_path)
    # starting corpus: byte strings long enough for Hypothesis to decode a whole case from (with an
    # empty corpus libFuzzer grows inputs from a few bytes, which Hypothesis rejects as exhausted
    # before the target is ever reached); derived from the seed, so the campaign is a function of it
    import hashlib
    corpus = os.path.join(scratch, "corpus-%s-%d" % (sub_name, seed))
    os.makedirs(corpus, exist_ok=True)
    for i, size in enumerate((512, 2048, 8192, 16384, 32768, 65536, 4096, 65536)):
        blob = b""
        k = 0
        while len(blob) < size:
            blob += hashlib.sha256(b"%d/%d/%d" % (seed, i, k)).digest()
            k += 1
        with open(os.path.join(corpus, "seed%d" % i), "wb") as f:
            f.write(blob[:size])
    argv = [sys.argv[0], corpus, "-runs=%d" % runs, "-seed=%d" % (seed % (2**31 - 1) + 1),
            "-max_len=65536", "-len_control=0", "-rss_limit_mb=0", "-timeout=3600",
            "-artifact_prefix=%s/" % scratch, "-print_final_stats=1"]
    save()
    try:
        atheris.Setup(argv, target)
        atheris.Fuzz()
    except BaseException:  # noqa
        if out["failure"] is None and out["harness"] is None:
            out["harness"] = traceback.format_exc()[-6000:]
        save()
        raise


if __name__ == "__main__":
    main()
