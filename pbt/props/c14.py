"""C14 - interactions, cross sections, event trees (DESIGN 3/C14).

Oracles are transcriptions of the *published* models, written in a form that
differs from pyrex's samplers:

* GQRS (AraSim/icemc pickYGhandietal):  y**0.4 = -ln(u), u uniform on
  [1/e, 1)  =>  F(y) = 1 - (exp(-y**0.4) - 1/e) / (1 - 1/e).
* CTW 2011: densities  dsigma/dy ~ (y-C1)**(-1/C2) on [0,1e-3] (weight
  f(eps) = max(0, 0.128 sin(-0.197 (eps-21.8)))) and ~ 1/(y-C1) on [1e-3,1],
  C1 = A0 - A1 exp(-(eps-A2)/A3), C2 = 2.55 - 0.0949 eps (Table V); the CDFs
  below are the integrals of these densities, not the inverse samplers.
* cross sections: Eq. 7 / Table III of CTW 2011, the GQRS 1998 power laws.
"""

import math

import numpy as np
from hypothesis import strategies as st

from ..core import Property, SubCheck, Violation, require
from .. import gens
from ..gens import floats, log_floats

EPS = 2.220446049250313e-16
N_A = 6.02214076e23          # exact SI value (CODATA 2018)
P_REJECT = 1e-9              # DESIGN 2.6
BLOCK = 40000                # particles per statistical block (DESIGN 2.6, quick size)
BLOCK_METHOD = 200000        # draws per block when the sampler method is called directly

# (short name, long name, PDG value)
PTYPES = [
    ("nu_e", "electron_neutrino", 12),
    ("nu_e_bar", "electron_antineutrino", -12),
    ("nu_mu", "muon_neutrino", 14),
    ("nu_mu_bar", "muon_antineutrino", -14),
    ("nu_tau", "tau_neutrino", 16),
    ("nu_tau_bar", "tau_antineutrino", -16),
]
KINDS = {"cc": ("cc", "charged_current", 1), "nc": ("nc", "neutral_current", 2)}

# ---------------------------------------------------------------------------
# published constants (reference side)

# CTW 2011 Table III: log10(sigma/cm^2) = C1 + C2 L + C3 L^2 + C4 / L, L = ln(eps - C0)
CTW_SIGMA = {
    ("nu", "nc"): (-1.826, -17.31, -6.448, 1.431, -18.61),
    ("nu", "cc"): (-1.826, -17.31, -6.406, 1.431, -17.91),
    ("nubar", "nc"): (-1.033, -15.95, -7.296, 1.569, -18.30),
    ("nubar", "cc"): (-1.033, -15.95, -7.247, 1.569, -17.72),
}
# GQRS 1998 (E > 1e6 GeV fits): sigma = coeff * E^0.363 cm^2
GQRS_SIGMA = {
    ("nu", "cc"): 5.53e-36, ("nu", "nc"): 2.31e-36, ("nu", "tot"): 7.84e-36,
    ("nubar", "cc"): 5.52e-36, ("nubar", "nc"): 2.29e-36, ("nubar", "tot"): 7.80e-36,
}
# CTW 2011 Table V (A0, A1, A2, A3) of C1(eps); high-y region by current/particle
CTW_A_LOW = (0.0, 0.0941, 4.72, 0.456)
CTW_A_HIGH = {
    ("nu", "cc"): (-0.008, 0.26, 3.0, 1.7),
    ("nubar", "cc"): (-0.0026, 0.085, 4.1, 1.7),
    ("nu", "nc"): (-0.005, 0.23, 3.0, 1.7),
    ("nubar", "nc"): (-0.005, 0.23, 3.0, 1.7),
}
Y_SPLIT = 1e-3


def ref_ctw_sigma(sign, kind, energy):
    c0, c1, c2, c3, c4 = CTW_SIGMA[(sign, kind)]
    lg = math.log(math.log10(energy) - c0)
    return 10.0 ** (c1 + c2 * lg + c3 * lg * lg + c4 / lg)


def ref_gqrs_sigma(sign, kind, energy):
    return GQRS_SIGMA[(sign, kind)] * energy ** 0.363


def ref_cc_probability(model, energy):
    if model == "GQRS":
        return 0.6865254
    eps = math.log10(energy)
    return 1.0 - (0.252162 + 0.0256 * math.log(eps - 1.76))


def ref_low_y_weight(energy):
    eps = math.log10(energy)
    return max(0.0, 0.128 * math.sin(-0.197 * (eps - 21.8)))


def _c1(a, eps):
    return a[0] - a[1] * math.exp(-(eps - a[2]) / a[3])


def ref_ctw_cdf_low(y, energy):
    """CDF on [0, 1e-3] of density ~ (y-C1)^(-1/C2): integral in closed form."""
    eps = math.log10(energy)
    c1 = _c1(CTW_A_LOW, eps)
    q = 1.0 - 1.0 / (2.55 - 0.0949 * eps)
    y = np.clip(y, 0.0, Y_SPLIT)
    lo = (0.0 - c1) ** q
    hi = (Y_SPLIT - c1) ** q
    return ((y - c1) ** q - lo) / (hi - lo)


def ref_ctw_cdf_high(y, sign, kind, energy):
    """CDF on [1e-3, 1] of density ~ 1/(y-C1)."""
    eps = math.log10(energy)
    c1 = _c1(CTW_A_HIGH[(sign, kind)], eps)
    y = np.clip(y, Y_SPLIT, 1.0)
    return np.log((y - c1) / (Y_SPLIT - c1)) / math.log((1.0 - c1) / (Y_SPLIT - c1))


def ref_ctw_cdf(y, sign, kind, energy):
    w = ref_low_y_weight(energy)
    high = ref_ctw_cdf_high(y, sign, kind, energy)
    if w == 0.0:
        return high
    return w * ref_ctw_cdf_low(y, energy) + (1.0 - w) * high


def ref_gqrs_cdf(y):
    y = np.clip(y, 0.0, 1.0)
    e1 = math.exp(-1.0)
    return 1.0 - (np.exp(-y ** 0.4) - e1) / (1.0 - e1)


def ks_distance(sample, cdf):
    x = np.sort(np.asarray(sample, dtype=float))
    n = len(x)
    f = np.asarray(cdf(x), dtype=float)
    i = np.arange(1, n + 1)
    return float(max(np.max(i / n - f), np.max(f - (i - 1) / n)))


def ks_critical(n, p=P_REJECT):
    """Dvoretzky-Kiefer-Wolfowitz: P(D > d) <= 2 exp(-2 n d^2) for every n."""
    return math.sqrt(math.log(2.0 / p) / (2.0 * n))


def binom_pvalue(k, n, p):
    """Two-sided exact binomial p-value (doubling the smaller tail)."""
    from scipy.stats import binom
    if p <= 0.0:
        return 1.0 if k == 0 else 0.0
    if p >= 1.0:
        return 1.0 if k == n else 0.0
    return float(min(1.0, 2.0 * min(binom.cdf(k, n, p), binom.sf(k - 1, n, p))))


# ---------------------------------------------------------------------------
# building pyrex objects from a case

_NOSEC = {}


def _model_class(model, sec):
    """GQRS / CTW / default classes; secondaries switched off through the
    documented class attribute `include_secondaries` on a subclass (so that no
    global state of pyrex is modified)."""
    import pyrex.particle as pp
    base = {"GQRS": pp.GQRSInteraction, "CTW": pp.CTWInteraction,
            "default": pp.NeutrinoInteraction}[model]
    if sec:
        return base
    key = (model, id(base))
    if key not in _NOSEC:
        _NOSEC[key] = type("NoSecondaries" + base.__name__, (base,),
                           {"include_secondaries": False})
    return _NOSEC[key]


def _pid(ptype, form):
    import pyrex.particle as pp
    short, long_, value = PTYPES[ptype]
    if form == "short":
        return short
    if form == "long":
        return long_
    if form == "value":
        return value
    return pp.Particle.Type(value)


def _kind_arg(kind, form):
    import pyrex.particle as pp
    if kind is None:
        return None
    short, long_, value = KINDS[kind]
    if form == "short":
        return short
    if form == "long":
        return long_
    if form == "value":
        return value
    return pp.Interaction.Type(value)


def _energy_arg(energy, form):
    if form == "np":
        return np.float64(energy)
    if form == "int" and float(energy).is_integer():
        return int(energy)
    return float(energy)


def make_particle(case, energy=None, kind="case"):
    import pyrex.particle as pp
    kw = {}
    k = case.get("kind") if kind == "case" else kind
    if k is not None:
        kw["interaction_type"] = _kind_arg(k, case.get("kind_form", "short"))
    if not (case["model"] == "default" and case.get("sec", True)):
        kw["interaction_model"] = _model_class(case["model"], case.get("sec", True))
    e = case["energy"] if energy is None else energy
    return pp.Particle(_pid(case["ptype"], case.get("id_form", "value")),
                       case.get("vertex", [0.0, 0.0, -100.0]),
                       case.get("direction", [0.0, 0.0, 1.0]),
                       _energy_arg(e, case.get("e_form", "float")), **kw)


def _sign(ptype):
    return "nu" if PTYPES[ptype][2] > 0 else "nubar"


def _model_name(case):
    return "CTW" if case["model"] == "default" else case["model"]


def _kind_of(inter):
    """'cc' / 'nc' from the enum reported by pyrex (by value and by name)."""
    import pyrex.particle as pp
    k = inter.kind
    require(isinstance(k, pp.Interaction.Type),
            "interaction.kind %r is not an Interaction.Type", k)
    require(k.value in (1, 2), "interaction kind %r is neither cc nor nc", k)
    return "cc" if k.value == 1 else "nc"


# ---------------------------------------------------------------------------
# generators

DECADES = [10.0 ** k for k in range(3, 13)]

energies = st.one_of(log_floats(1e3, 1e12), log_floats(1e3, 1e12),
                     st.sampled_from(DECADES),
                     st.sampled_from([1e3, math.nextafter(1e3, 2e3), 1e12,
                                      math.nextafter(1e12, 0.0)]))
forms = st.sampled_from(["short", "long", "value", "enum"])
e_forms = st.sampled_from(["float", "float", "int", "np"])


@st.composite
def interaction_cases(draw, focus=None):
    if focus == "secondaries":
        ptype = draw(st.integers(2, 5))
        kind = draw(st.sampled_from(["cc", "cc", "cc", None]))
        sec = True
        n = draw(st.integers(40, 160))
    else:
        ptype = draw(st.integers(0, 5))
        kind = draw(st.sampled_from([None, "cc", "nc"]))
        sec = draw(st.booleans())
        n = draw(st.integers(1, 24))
    return dict(ptype=ptype, id_form=draw(forms), energy=draw(energies),
                e_form=draw(e_forms),
                model=draw(st.sampled_from(["GQRS", "CTW", "CTW", "default"])),
                kind=kind, kind_form=draw(forms), sec=sec,
                vertex=[draw(floats(-1e4, 1e4)), draw(floats(-1e4, 1e4)),
                        draw(floats(-3000.0, 0.0))],
                direction=draw(gens.unit_vectors()),
                seed=draw(gens.seeds32), n=n)


ONE_MINUS = 1.0 - 2.0 ** -53      # largest value np.random.rand() can return
stream_values = st.one_of(
    st.sampled_from([0.0, 2.0 ** -53, ONE_MINUS, 0.5]),
    log_floats(1e-300, 1e-3),
    log_floats(1e-16, 1e-3).map(lambda d: min(ONE_MINUS, 1.0 - d)),
    floats(0.0, ONE_MINUS))


@st.composite
def stream_cases(draw):
    """A configuration plus the first values that np.random.rand() will return."""
    return dict(ptype=draw(st.integers(0, 5)), id_form="value", energy=draw(energies),
                e_form="float", model=draw(st.sampled_from(["GQRS", "CTW", "default"])),
                kind=draw(st.sampled_from([None, "cc", "cc", "nc"])), kind_form="short",
                sec=draw(st.sampled_from([True, True, False])),
                stream=draw(st.lists(stream_values, min_size=1, max_size=6)),
                seed=draw(gens.seeds32), n=draw(st.integers(1, 3)))


@st.composite
def block_cases(draw, forced=True):
    """One statistical block: fixed configuration, BLOCK draws."""
    e = draw(st.one_of(log_floats(1e3, 1e12), st.sampled_from(DECADES)))
    via = draw(st.sampled_from(["particle", "method"]))
    return dict(ptype=draw(st.integers(0, 5)), id_form="value", energy=e, e_form="float",
                model=draw(st.sampled_from(["GQRS", "CTW", "default"])),
                kind=draw(st.sampled_from([None, "cc", "nc"])) if forced else None,
                kind_form="short", sec=draw(st.booleans()),
                seed=draw(gens.seeds32), via=via,
                n=BLOCK if via == "particle" else BLOCK_METHOD)


@st.composite
def xsec_cases(draw):
    e0 = draw(st.one_of(log_floats(1e3, 10 ** 11.9), st.sampled_from(DECADES[:-1])))
    ladder = [e0]
    for _ in range(draw(st.integers(1, 5))):
        step = draw(st.one_of(log_floats(1e-6, 3.0), st.sampled_from([1.0, 0.5])))
        nxt = min(1e12, ladder[-1] * 10.0 ** step)
        # by construction: stop at the upper end of the domain
        if nxt <= ladder[-1] * (1 + 2e-6):
            break
        ladder.append(nxt)
    if len(ladder) == 1:
        ladder.append(1e12)
    return dict(ptype=draw(st.integers(0, 5)), id_form=draw(forms),
                model=draw(st.sampled_from(["GQRS", "CTW", "default"])),
                sec=draw(st.booleans()), kind_form=draw(forms), e_form=draw(e_forms),
                ladder=ladder, mode=draw(st.sampled_from(["fresh", "mutate"])),
                seed=draw(gens.seeds32))


@st.composite
def tree_cases(draw):
    n_roots = draw(st.integers(1, 3))
    root_form = draw(st.sampled_from(["list", "list", "tuple", "single"]))
    ops = []
    for _ in range(draw(st.integers(0, 14))):
        kind = draw(st.sampled_from(["add", "add", "add", "add", "add_deep", "add_deep",
                                     "add_unknown", "query"]))
        if kind in ("add", "add_deep"):
            ops.append(dict(op=kind, parent=draw(st.integers(0, 10 ** 6)),
                            n=draw(st.sampled_from([0, 1, 1, 2, 2, 3, 4])),
                            form=draw(st.sampled_from(["list", "list", "tuple", "single"]))))
        elif kind == "add_unknown":
            ops.append(dict(op=kind, n=draw(st.integers(1, 2))))
        else:
            ops.append(dict(op="query"))
    return dict(n_roots=n_roots, root_form=root_form, ops=ops, seed=draw(gens.seeds32),
                model=draw(st.sampled_from(["default", "base"])))


# ---------------------------------------------------------------------------
# per-draw invariants

TOL = 1e-12   # DESIGN 3/C14: absolute slack of the [0,1] bounds and of the sums
              # (rounding of expressions like c1 + (y-c1), (1-y) + y with terms <= 1);
              # applied on both sides so that a result like -3e-18 is not a finding


def _check_one_interaction(case, p, classes):
    """All per-draw clauses of the statement for one generated interaction."""
    it = p.interaction
    require(it.particle is p, "interaction.particle is not the particle it belongs to")
    kind = _kind_of(it)
    if case["kind"] is not None:
        require(kind == case["kind"], "requested interaction type %r, got %r",
                case["kind"], it.kind)
    y, em, had = it.inelasticity, it.em_frac, it.had_frac
    for name, v in (("inelasticity", y), ("em_frac", em), ("had_frac", had)):
        require(np.ndim(v) == 0 and math.isfinite(float(v)),
                "%s = %r is not a finite scalar", name, v)
    y, em, had = float(y), float(em), float(had)
    ctx = (PTYPES[case["ptype"]][0], kind, case["model"], case["sec"], case["energy"])
    require(-TOL <= y <= 1.0 + TOL, "inelasticity %r outside [0,1] (%r)", y, ctx)
    require(em >= -TOL and had >= -TOL, "negative shower fraction em=%r had=%r (%r)", em, had, ctx)
    require(em + had <= 1.0 + TOL, "em+had = %r exceeds 1 (em=%r had=%r y=%r, %r)",
            em + had, em, had, y, ctx)
    flavour = abs(PTYPES[case["ptype"]][2])
    if kind == "nc":
        classes.add("nc")
        require(em == 0.0 and had == y,
                "neutral current must be all hadronic with had = y: em=%r had=%r y=%r (%r)",
                em, had, y, ctx)
    elif flavour == 12:
        classes.add("nue_cc")
        require(abs(em + had - 1.0) <= 4 * EPS,
                "CC electron neutrino must deposit everything: em+had=%r (em=%r had=%r y=%r, %r)",
                em + had, em, had, y, ctx)
        # the hadronic part is the inelasticity, the electron takes the rest
        require(had == y and abs(em - (1.0 - y)) <= 2 * EPS,
                "CC electron neutrino: expected had=y, em=1-y; em=%r had=%r y=%r (%r)",
                em, had, y, ctx)
    else:
        primary = (em == 0.0 and had == y)
        if primary:
            classes.add("mutau_cc_primary")
        else:
            require(case["sec"],
                    "mu/tau CC without secondaries must give the primary fractions (0, y): "
                    "em=%r had=%r y=%r (%r)", em, had, y, ctx)
            classes.add("mutau_cc_secondary")
            if em > 0 and had > 0:
                classes.add("secondary_em_and_had")
            # secondaries come out of the outgoing lepton, which carries (1-y) E,
            # and are only reported when they outshine the primary shower (y E)
            require(em + had <= (1.0 - y) * (1 + 4 * EPS) + 4 * EPS,
                    "secondary showers carry more than the lepton energy: em+had=%r > 1-y=%r "
                    "(em=%r had=%r y=%r, %r)", em + had, 1.0 - y, em, had, y, ctx)
            require(em + had > y * (1 - 4 * EPS),
                    "secondary fractions reported although the primary shower is larger: "
                    "em+had=%r <= y=%r (%r)", em + had, y, ctx)
    return kind, y


def check_bounds(case, rec):
    np.random.seed(case["seed"])
    classes = set()
    ys = set()
    kinds = set()
    for _ in range(case["n"]):
        p = make_particle(case)
        kind, y = _check_one_interaction(case, p, classes)
        ys.add(y)
        kinds.add(kind)
    # same seed => same interaction (the stream is the only source of randomness)
    np.random.seed(case["seed"])
    p1 = make_particle(case)
    np.random.seed(case["seed"])
    p2 = make_particle(case)
    a, b = p1.interaction, p2.interaction
    require((a.kind, float(a.inelasticity), float(a.em_frac), float(a.had_frac)) ==
            (b.kind, float(b.inelasticity), float(b.em_frac), float(b.had_frac)),
            "same numpy seed gave different interactions")
    classes.add(_model_name(case))
    classes.add("sec_on" if case["sec"] else "sec_off")
    if case["energy"] in (1e3, 1e12):
        classes.add("domain_edge")
    if len(kinds) == 2:
        classes.add("both_kinds")
    rec.case(case, nontrivial=len(ys) >= 2, classes=classes)


class _ScriptedRand:
    """Stand-in for np.random.rand: returns the scripted values first (scalar
    calls only), then the seeded generator.  Every value is one that
    np.random.rand() can return (a float in [0, 1))."""

    def __init__(self, values):
        self.values = list(values)
        self.used = 0
        self.real = np.random.rand

    def __call__(self, *shape):
        if shape or self.used >= len(self.values):
            return self.real(*shape)
        v = self.values[self.used]
        self.used += 1
        return v


def check_stream(case, rec):
    """'any random stream': the uniform variates themselves are the input, so the
    ends of [0,1) (probability 2^-53 per draw under seeding) are reachable."""
    np.random.seed(case["seed"])
    classes = set()
    scripted = _ScriptedRand(case["stream"])
    np.random.rand = scripted
    try:
        for _ in range(case["n"]):
            p = make_particle(case)
            _check_one_interaction(case, p, classes)
    finally:
        np.random.rand = scripted.real
    if scripted.used:
        classes.add("stream_consumed")
    if any(v in (0.0, 2.0 ** -53) for v in case["stream"][:scripted.used]):
        classes.add("consumed_zero_end")
    if any(v >= 1.0 - 1e-15 for v in case["stream"][:scripted.used]):
        classes.add("consumed_one_end")
    classes.add(_model_name(case))
    rec.case(case, nontrivial=scripted.used > 0, classes=classes)


def classify_stream(case, exc):
    if isinstance(exc, OverflowError) and "infinity" in str(exc):
        return "inelasticity==1 -> lepton energy 0 -> OverflowError in secondaries energy index"
    return None


# ---------------------------------------------------------------------------
# distributions


def _draw_block(case, what):
    """`n` interactions of one configuration.  via="particle": n particles are
    constructed (the route every user takes); via="method": one particle, then
    the documented sampler method (`choose_interaction` / `choose_inelasticity`)
    is called n times on its interaction - five times the sample at equal cost."""
    np.random.seed(case["seed"])
    kinds = np.empty(case["n"], dtype=bool)
    ys = np.zeros(case["n"])
    if case.get("via", "particle") == "particle":
        for i in range(case["n"]):
            it = make_particle(case).interaction
            kinds[i] = (it.kind.value == 1)
            ys[i] = it.inelasticity
        return kinds, ys
    it = make_particle(case).interaction
    if what == "kind":
        cc = type(it).Type.charged_current
        nc = type(it).Type.neutral_current
        for i in range(case["n"]):
            k = it.choose_interaction()
            require(k is cc or k is nc, "choose_interaction returned %r", k)
            kinds[i] = k is cc
    else:
        kinds[:] = (_kind_of(it) == "cc")
        for i in range(case["n"]):
            ys[i] = it.choose_inelasticity()
    return kinds, ys


def check_kind_dist(case, rec):
    kinds, _ = _draw_block(case, "kind")
    n = len(kinds)
    k = int(np.count_nonzero(kinds))
    p_cc = ref_cc_probability(_model_name(case), case["energy"])
    pv = binom_pvalue(k, n, p_cc)
    require(pv >= P_REJECT,
            "%d charged-current interactions in %d draws; the published CC probability is %.6f "
            "(expected %.0f, two-sided binomial p=%.3g) for %s, %s, E=%r",
            k, n, p_cc, n * p_cc, pv, _model_name(case), PTYPES[case["ptype"]][0], case["energy"])
    rec.case(case, nontrivial=0 < k < n,
             classes=[_model_name(case), "E<1e6" if case["energy"] < 1e6 else "E>=1e6",
                      "via_" + case.get("via", "particle")])


def check_inelasticity_dist(case, rec):
    kinds, ys = _draw_block(case, "y")
    model = _model_name(case)
    sign = _sign(case["ptype"])
    classes = {model, "forced" if case["kind"] else "unforced",
               "via_" + case.get("via", "particle")}
    require(np.all(np.isfinite(ys)) and ys.min() >= -TOL and ys.max() <= 1.0 + TOL,
            "inelasticities outside [0,1]: min %r max %r", float(ys.min()), float(ys.max()))
    tested = 0
    for kind, mask in (("cc", kinds), ("nc", ~kinds)):
        sample = ys[mask]
        n = len(sample)
        if case["kind"] is not None:
            require(n == (len(ys) if kind == case["kind"] else 0),
                    "forced kind %r not respected", case["kind"])
        if n < 2000:
            continue
        tested += 1
        ctx = (model, PTYPES[case["ptype"]][0], kind, case["energy"], n)
        if model == "GQRS":
            require(sample.min() > 0.0, "GQRS inelasticity 0 drawn")
            d = ks_distance(sample, ref_gqrs_cdf)
            require(d <= ks_critical(n),
                    "KS distance %.4f > %.4f between drawn inelasticities and "
                    "F(y)=1-(exp(-y^0.4)-1/e)/(1-1/e) (%r)", d, ks_critical(n), ctx)
            continue
        w = ref_low_y_weight(case["energy"])
        low = sample[sample < Y_SPLIT]
        high = sample[sample >= Y_SPLIT]
        pv = binom_pvalue(len(low), n, w)
        require(pv >= P_REJECT,
                "%d of %d inelasticities below 1e-3; published low-y probability %.5f "
                "(binomial p=%.3g) (%r)", len(low), n, w, pv, ctx)
        d = ks_distance(sample, lambda y: ref_ctw_cdf(y, sign, kind, case["energy"]))
        require(d <= ks_critical(n),
                "KS distance %.4f > %.4f between drawn inelasticities and the CTW Eq.14-18 "
                "mixture CDF (%r)", d, ks_critical(n), ctx)
        # each region separately (more power on the shape inside a region)
        if len(high) >= 2000:
            d = ks_distance(high, lambda y: ref_ctw_cdf_high(y, sign, kind, case["energy"]))
            require(d <= ks_critical(len(high)),
                    "KS distance %.4f > %.4f in the high-y region (density ~1/(y-C1)) (%r)",
                    d, ks_critical(len(high)), ctx)
        if len(low) >= 2000:
            classes.add("low_y_tested")
            d = ks_distance(low, lambda y: ref_ctw_cdf_low(y, case["energy"]))
            require(d <= ks_critical(len(low)),
                    "KS distance %.4f > %.4f in the low-y region (density ~(y-C1)^(-1/C2)) (%r)",
                    d, ks_critical(len(low)), ctx)
    if sign == "nubar":
        classes.add("antineutrino")
    rec.case(case, nontrivial=tested > 0, classes=classes)


# ---------------------------------------------------------------------------
# cross sections and interaction lengths


def _rel(a, b):
    return abs(a - b) / max(abs(a), abs(b))


def check_xsec(case, rec):
    np.random.seed(case["seed"])
    model = _model_name(case)
    sign = _sign(case["ptype"])
    ref_sigma = ref_ctw_sigma if model == "CTW" else ref_gqrs_sigma
    rows = []
    base = dict(case, energy=case["ladder"][0])
    held = {k: make_particle(base, kind=k) for k in ("cc", "nc")}
    for e in case["ladder"]:
        row = {}
        for kind in ("cc", "nc"):
            if case["mode"] == "mutate":
                p = held[kind]
                p.energy = _energy_arg(e, case["e_form"])
            else:
                p = make_particle(base, energy=e, kind=kind)
            it = p.interaction
            require(_kind_of(it) == kind, "forced kind %r not respected", kind)
            vals = dict(s=it.cross_section, t=it.total_cross_section,
                        l=it.interaction_length, lt=it.total_interaction_length)
            for name, v in vals.items():
                require(np.ndim(v) == 0 and math.isfinite(float(v)) and float(v) > 0,
                        "%s of %s %s at E=%r is %r, not a positive finite number",
                        {"s": "cross_section", "t": "total_cross_section",
                         "l": "interaction_length", "lt": "total_interaction_length"}[name],
                        PTYPES[case["ptype"]][0], kind, e, v)
            row[kind] = {k: float(v) for k, v in vals.items()}
        rows.append(row)
        cc, nc = row["cc"], row["nc"]
        ctx = (model, PTYPES[case["ptype"]][0], e)
        require(cc["t"] == nc["t"], "total cross section depends on the interaction type: "
                "%r (cc) vs %r (nc) (%r)", cc["t"], nc["t"], ctx)
        # published parameterisations; 1e-11 = error of 10**x for |x|~36 (x itself good to
        # a few ulp => 36 ln10 * few * 1.1e-16) and of E**0.363
        for kind in ("cc", "nc"):
            require(_rel(row[kind]["s"], ref_sigma(sign, kind, e)) <= 1e-11,
                    "%s cross section %r differs from the published parameterisation %r (%r)",
                    kind, row[kind]["s"], ref_sigma(sign, kind, e), ctx)
        if model == "CTW":
            # statement: CC + NC = total for the default model; 1e-12 = sum of two roundings
            require(_rel(cc["s"] + nc["s"], cc["t"]) <= 1e-12,
                    "sigma_cc + sigma_nc = %r but total_cross_section = %r (rel %.3g) (%r)",
                    cc["s"] + nc["s"], cc["t"], _rel(cc["s"] + nc["s"], cc["t"]), ctx)
        else:
            require(_rel(cc["t"], ref_sigma(sign, "tot", e)) <= 1e-11,
                    "GQRS total cross section %r differs from the published fit %r (%r)",
                    cc["t"], ref_sigma(sign, "tot", e), ctx)
        # L = 1 / (N_A sigma); 1e-7 covers the CODATA 2010..2018 values of N_A that the
        # scipy versions of the declared range carry (spread 9e-8)
        for kind in ("cc", "nc"):
            require(_rel(row[kind]["l"], 1.0 / (N_A * row[kind]["s"])) <= 1e-7,
                    "%s interaction_length %r != 1/(N_A sigma) = %r (%r)",
                    kind, row[kind]["l"], 1.0 / (N_A * row[kind]["s"]), ctx)
            require(_rel(row[kind]["lt"], 1.0 / (N_A * row[kind]["t"])) <= 1e-7,
                    "total_interaction_length %r != 1/(N_A sigma_tot) = %r (%r)",
                    row[kind]["lt"], 1.0 / (N_A * row[kind]["t"]), ctx)
        # a particle whose interaction type was drawn reports the values of that type
        pu = make_particle(base, energy=e, kind=None)
        ku = _kind_of(pu.interaction)
        require(float(pu.interaction.cross_section) == row[ku]["s"] and
                float(pu.interaction.interaction_length) == row[ku]["l"] and
                float(pu.interaction.total_cross_section) == row[ku]["t"],
                "unforced particle of kind %s reports sigma=%r, L=%r; forced particle: %r, %r (%r)",
                ku, pu.interaction.cross_section, pu.interaction.interaction_length,
                row[ku]["s"], row[ku]["l"], ctx)
    # strictly increasing with energy (steps are >= 2e-6 relative => d(sigma)/sigma >= 5e-7)
    for lo, hi, e_lo, e_hi in zip(rows[:-1], rows[1:], case["ladder"][:-1], case["ladder"][1:]):
        for kind in ("cc", "nc"):
            require(hi[kind]["s"] > lo[kind]["s"],
                    "%s %s cross section does not increase: sigma(%r)=%r, sigma(%r)=%r",
                    model, kind, e_lo, lo[kind]["s"], e_hi, hi[kind]["s"])
            require(hi[kind]["l"] < lo[kind]["l"],
                    "%s %s interaction length does not decrease with energy: L(%r)=%r, L(%r)=%r",
                    model, kind, e_lo, lo[kind]["l"], e_hi, hi[kind]["l"])
        require(hi["cc"]["t"] > lo["cc"]["t"],
                "%s total cross section does not increase: sigma(%r)=%r, sigma(%r)=%r",
                model, e_lo, lo["cc"]["t"], e_hi, hi["cc"]["t"])
        require(hi["cc"]["lt"] < lo["cc"]["lt"],
                "%s total interaction length does not decrease with energy", model)
    classes = [model, sign, case["mode"]]
    if min(b / a for a, b in zip(case["ladder"][:-1], case["ladder"][1:])) < 1.001:
        classes.append("fine_step")
    if case["ladder"][0] < 1e4:
        classes.append("below_fit_range")
    rec.case(case, nontrivial=True, classes=classes)


# ---------------------------------------------------------------------------
# event trees: reference adjacency model


def _tree_particle(case, k):
    import pyrex.particle as pp
    kw = {}
    if case["model"] == "base":
        kw["interaction_model"] = pp.Interaction
    return pp.Particle(PTYPES[k % 6][2], [0.0, 0.0, -float(k)], [0.0, 0.0, 1.0],
                       1e6 * (1 + k % 7), **kw)


def _ids(particles):
    return sorted(id(p) for p in particles)


def _expect_value_error(fn, what):
    try:
        fn()
    except ValueError:
        return
    raise Violation("%s did not raise ValueError" % what)


def _query_tree(event, nodes, parent, children, roots):
    import pyrex.particle as pp
    # iteration: every particle exactly once
    seen = list(event)
    require(all(isinstance(p, pp.Particle) for p in seen), "iteration yielded a non-particle")
    require(_ids(seen) == _ids(nodes),
            "iteration returned %d particles (%d distinct), the tree holds %d",
            len(seen), len(set(map(id, seen))), len(nodes))
    require(len(event) == len(nodes), "len(event)=%d, tree holds %d", len(event), len(nodes))
    # children / parent against the model and against each other
    for i, p in enumerate(nodes):
        ch = event.get_children(p)
        require(_ids(ch) == _ids(nodes[j] for j in children[i]),
                "get_children(node %d) returned nodes %r, model says %r", i,
                sorted(_index_of(nodes, c) for c in ch), sorted(children[i]))
        for c in ch:
            require(event.get_parent(c) is p,
                    "get_parent(child of node %d) is node %r", i,
                    _index_of(nodes, event.get_parent(c)))
        par = event.get_parent(p)
        if parent[i] is None:
            require(par is None, "root node %d has parent %r", i, _index_of(nodes, par))
        else:
            require(par is nodes[parent[i]], "get_parent(node %d) is node %r, model says %d",
                    i, _index_of(nodes, par), parent[i])
            require(any(c is p for c in event.get_children(par)),
                    "node %d is not among the children of its parent", i)
    # levels: model BFS
    level = list(roots)
    depth = 0
    total = 0
    while True:
        got = event.get_from_level(depth)
        require(_ids(got) == _ids(nodes[j] for j in level),
                "get_from_level(%d) returned nodes %r, model says %r", depth,
                sorted(_index_of(nodes, c) for c in got), sorted(level))
        total += len(level)
        if not level:
            break
        level = [c for j in level for c in children[j]]
        depth += 1
    require(total == len(nodes), "levels hold %d particles of %d", total, len(nodes))
    require(len(event.get_from_level(depth + 3)) == 0, "level beyond the depth is not empty")
    return depth - 1


def _index_of(nodes, p):
    for i, q in enumerate(nodes):
        if q is p:
            return i
    return None if p is None else "unknown"


def check_tree(case, rec):
    import pyrex.particle as pp
    np.random.seed(case["seed"])
    counter = [0]

    def new():
        counter[0] += 1
        return _tree_particle(case, counter[0])

    nodes = [new() for _ in range(case["n_roots"])]
    roots = list(range(len(nodes)))
    parent = [None] * len(nodes)
    children = [[] for _ in nodes]
    if case["root_form"] == "single" and len(nodes) == 1:
        event = pp.Event(nodes[0])
    elif case["root_form"] == "tuple":
        event = pp.Event(tuple(nodes))
    else:
        event = pp.Event(list(nodes))
    classes = set()
    max_children_calls = {}
    for op in case["ops"]:
        if op["op"] in ("add", "add_deep"):
            if op["op"] == "add_deep":
                # choose among the most recently added half: grows deep trees
                half = max(1, len(nodes) // 2)
                pi = len(nodes) - 1 - (op["parent"] % half)
            else:
                pi = op["parent"] % len(nodes)
            kids = [new() for _ in range(op["n"])]
            if op["form"] == "single" and len(kids) == 1:
                arg = kids[0]
                classes.add("single_child_arg")
            elif op["form"] == "tuple":
                arg = tuple(kids)
            else:
                arg = list(kids)
            event.add_children(nodes[pi], arg)
            max_children_calls[pi] = max_children_calls.get(pi, 0) + 1
            for kpart in kids:
                nodes.append(kpart)
                parent.append(pi)
                children.append([])
                children[pi].append(len(nodes) - 1)
            if len(kids) == 0:
                classes.add("empty_add")
        elif op["op"] == "add_unknown":
            stranger = new()
            kids = [new() for _ in range(op["n"])]
            _expect_value_error(lambda: event.add_children(stranger, kids),
                                "add_children with a parent outside the tree")
            _expect_value_error(lambda: event.get_children(stranger),
                                "get_children of a particle outside the tree")
            _expect_value_error(lambda: event.get_parent(kids[0]),
                                "get_parent of a particle outside the tree")
            classes.add("unknown_parent")
        else:
            _query_tree(event, nodes, parent, children, roots)
    depth = _query_tree(event, nodes, parent, children, roots)
    if any(v >= 2 for v in max_children_calls.values()):
        classes.add("repeated_parent")
    if depth >= 2:
        classes.add("depth>=2")
    if depth >= 4:
        classes.add("depth>=4")
    if len(roots) >= 2:
        classes.add("multi_root")
        if any(children[r] for r in roots[1:]):
            classes.add("later_root_has_children")
    # a node with children that has a sibling added in the same call (aliasing of child lists)
    for i in range(len(nodes)):
        if children[i] and parent[i] is not None and len(children[parent[i]]) >= 2:
            classes.add("sibling_with_children")
            break
    rec.case(case, nontrivial=len(nodes) > len(roots) and depth >= 1, classes=classes)


# ---------------------------------------------------------------------------

PROPERTY = Property(
    "C14", "Interactions conserve energy, cross sections consistent, event trees well formed",
    [
        SubCheck("bounds", interaction_cases(), check_bounds, quick=3200, thorough=160000,
                 rule="6 neutrino types x energy 1e3..1e12 (log-uniform, decades, domain edges) x "
                      "{GQRS, CTW, default model} x forced kind {None, cc, nc} x secondaries on/off x "
                      "numpy seed x 1-24 draws, every draw checked; non-trivial = at least two "
                      "different inelasticities drawn",
                 floors={"nue_cc": 0.1, "nc": 0.25, "mutau_cc_primary": 0.2,
                         "mutau_cc_secondary": 0.05, "GQRS": 0.12, "sec_off": 0.25,
                         "domain_edge": 0.03}),
        SubCheck("secondaries", interaction_cases(focus="secondaries"), check_bounds,
                 quick=1600, thorough=80000,
                 rule="mu/tau (anti)neutrinos, secondaries on, mostly forced CC, 40-160 draws per "
                      "case: secondary fractions within the lepton energy and above the primary; "
                      "non-trivial = at least two different inelasticities drawn",
                 floors={"mutau_cc_secondary": 0.5, "secondary_em_and_had": 0.07}),
        SubCheck("stream_extremes", stream_cases(), check_stream, quick=3200, thorough=160000,
                 rule="configuration as in `bounds` plus the first 1-6 values returned by "
                      "np.random.rand() (0, 2^-53, 1-2^-53, tiny, nearly one, uniform; the seeded "
                      "generator afterwards); 1-3 particles, per-draw clauses; non-trivial = at "
                      "least one scripted value was consumed by pyrex",
                 floors={"stream_consumed": 0.9, "consumed_zero_end": 0.15,
                         "consumed_one_end": 0.15, "GQRS": 0.12, "nue_cc": 0.05,
                         "mutau_cc_secondary": 0.02},
                 classify=classify_stream),
        SubCheck("kind_dist", block_cases(forced=False), check_kind_dist,
                 quick=48, thorough=2400, quick_shards=8,
                 rule="one configuration (type, energy, model, secondaries) x %d constructed particles, "
                      "or x %d calls of choose_interaction on one particle: exact binomial test of the "
                      "number of CC interactions against the published probability, rejection at "
                      "p<1e-9; non-trivial = both kinds occurred" % (BLOCK, BLOCK_METHOD),
                 floors={"GQRS": 0.08, "CTW": 0.25, "via_particle": 0.15, "via_method": 0.15}),
        SubCheck("inelasticity_dist", block_cases(forced=True), check_inelasticity_dist,
                 quick=64, thorough=3200, quick_shards=8,
                 rule="one configuration x %d constructed particles, or x %d calls of "
                      "choose_inelasticity on one particle: KS distance (DKW bound, p<1e-9) of the "
                      "inelasticities of each interaction type against the analytic CDF of the "
                      "published density, plus low-y weight (binomial) and per-region KS for CTW; "
                      "non-trivial = at least one sample of >=2000 tested" % (BLOCK, BLOCK_METHOD),
                 floors={"GQRS": 0.08, "CTW": 0.25, "forced": 0.25, "low_y_tested": 0.06,
                         "antineutrino": 0.2, "via_particle": 0.15, "via_method": 0.15}),
        SubCheck("cross_sections", xsec_cases(), check_xsec, quick=2400, thorough=120000,
                 rule="type x model x energy ladder of 2-6 energies (steps 2e-6 .. 3 decades) x fresh "
                      "particles or one particle whose energy is reassigned; every case non-trivial",
                 floors={"CTW": 0.3, "GQRS": 0.15, "nubar": 0.25, "mutate": 0.25,
                         "fine_step": 0.05, "below_fit_range": 0.05}),
        SubCheck("tree", tree_cases(), check_tree, quick=1600, thorough=80000,
                 rule="1-3 roots (list/tuple/single) then 0-14 ops: add_children (0-4 children as "
                      "list/tuple/single particle, parent anywhere or among the newest nodes), "
                      "add/query with a particle outside the tree, full query; compared with an "
                      "adjacency model after the history; non-trivial = at least one child level",
                 floors={"depth>=2": 0.2, "depth>=4": 0.02, "multi_root": 0.3,
                         "sibling_with_children": 0.15, "unknown_parent": 0.2,
                         "repeated_parent": 0.15, "later_root_has_children": 0.1}),
    ],
    assumptions=[
        "interactions are observed through Particle(...).interaction; secondaries are switched off "
        "through a subclass with include_secondaries=False (the documented class attribute)",
        "distributional clauses are decided at the stated power: rejection at p<1e-9 per test with "
        "%d particles (detectable CDF shift about 1.6%%) or %d direct sampler calls (0.73%%) per "
        "block; the thorough tier runs more blocks, not larger ones" % (BLOCK, BLOCK_METHOD),
        "inelasticity is taken by its definition as the hadronic energy fraction of the primary "
        "vertex (had = y for the primary shower; em = 1-y for CC electron neutrinos)",
        "the shape of the secondary-interaction tables is not part of the statement; only energy "
        "conservation of the resulting fractions is checked",
        "every particle object is added to a tree at most once (adding the same object twice does "
        "not build a tree)",
        "stream_extremes replaces numpy.random.rand (scalar calls) by a scripted sequence of floats "
        "in [0,1); numpy.random.poisson stays seeded",
        "N_A: any CODATA 2010-2018 value (relative tolerance 1e-7 on interaction lengths)",
    ],
    design_ref="3/C14",
)
