"""C05 - frequency filtering: linear, real-preserving, passive, no wrap-around (DESIGN 3/C05).

Everything is observed through ``Signal.filter_frequencies(response, force_real)``
followed by ``.values`` (sampled ``Signal`` and function-backed ``FunctionSignal``).

Oracles never use pyrex's route (full ``fft`` of the padded signal times a response
mirrored by ``abs(freqs)`` + sign flip of the imaginary part).  They use

* metamorphic relations between pyrex outputs (linearity, homogeneity, twin
  spellings of one response, grid position),
* the *definition* of the Hermitian-symmetrised response evaluated at f >= 0 only
  and pushed through ``numpy.fft.rfft/irfft`` (which cannot represent a
  non-Hermitian spectrum at all), for small N also a direct O(N^2) cosine sum,
* exact expectations: identity, whole-sample shifts with zeros shifted in, an
  analytically delayed Gaussian pulse, Parseval's bound.

Tolerances.  One application of a response costs a forward and an inverse FFT of
length 2N; the round-off of such a pair is bounded normwise by
c*eps*log2(2N)*max|H|*||x||_2 (Higham, Accuracy and Stability, 24.2), and the
max-norm of the error is bounded by its 2-norm.  ``_tol`` uses c = 32 (measured
errors stay below c = 4).  The bin frequencies j/(2N dt) are only defined up to a
few ulp (order of the floating operations), which matters for responses with a
large phase slope (a delay of k samples has |f dH/df| = pi k): ``_sens`` measures
max_j |H(f_j(1+4eps)) - H(f_j(1-4eps))| and that much times ||x||_2 is added.
"""

import math

import numpy as np
from hypothesis import strategies as st

from ..core import Property, SubCheck, Violation, require
from .. import gens
from ..gens import floats, log_floats

EPS = 2.220446049250313e-16
MAX_N = 4096


# ---------------------------------------------------------------------------
# sample values: a compact JSON description (explicit list for short signals,
# a synthesis recipe otherwise, so that cases with thousands of samples stay
# small, shrinkable and replayable)


def _hash_noise(n, seed):
    """Deterministic white-ish sequence in [-0.5, 0.5) (pure arithmetic, no RNG)."""
    i = np.arange(n, dtype=float)
    v = np.sin(i * 12.9898 + (seed % 10007) * 78.233) * 43758.5453
    return v - np.floor(v) - 0.5


@st.composite
def value_specs(draw, n, allow_list=True):
    if allow_list and n <= 24 and draw(st.integers(0, 2)) > 0:
        return dict(mode="list", v=draw(gens.sample_values(n)),
                    scale=draw(st.sampled_from([1.0, 1.0, 1e-6, 1e6])))
    imp = []
    for _ in range(draw(st.integers(0, 4))):
        where = draw(st.sampled_from(["any", "any", "first", "last"]))
        idx = {"first": 0, "last": n - 1}.get(where)
        if idx is None:
            idx = draw(st.integers(0, n - 1))
        imp.append([idx, draw(floats(-10.0, 10.0))])
    tones = []
    for _ in range(draw(st.integers(0, 3))):
        tones.append([draw(floats(0.0, n / 2.0)), draw(floats(-5.0, 5.0)),
                      draw(floats(0.0, 2 * math.pi))])
    noise = draw(st.sampled_from([0.0, 1.0, 1.0, 0.01]))
    return dict(mode="synth", impulses=imp, tones=tones,
                noise=[noise, draw(st.integers(0, 10**6))],
                dc=draw(st.sampled_from([0.0, 0.0, 1.0, -3.5])),
                scale=draw(st.sampled_from([1.0, 1.0, 1e-6, 1e6, 37.5])))


def build_values(vs, n):
    if vs["mode"] == "list":
        x = np.array(vs["v"], dtype=float)
        if len(x) != n:
            raise ValueError("value list does not match the grid")
    else:
        i = np.arange(n, dtype=float)
        x = np.full(n, float(vs["dc"]))
        for idx, amp in vs["impulses"]:
            x[int(idx) % n] += amp
        for cyc, amp, ph in vs["tones"]:
            x += amp * np.sin(2 * math.pi * cyc * i / n + ph)
        if vs["noise"][0]:
            x += vs["noise"][0] * _hash_noise(n, int(vs["noise"][1]))
    return x * float(vs["scale"])


# ---------------------------------------------------------------------------
# response functions: JSON spec -> (vectorised reference evaluator, callable that
# is handed to pyrex).  Cut-offs are relative to the Nyquist frequency 1/(2 dt),
# delays are in samples.  The positive-frequency part H+(f) is one of the
# families below times a complex gain; the negative-frequency part is
#   herm : conj(H+(-f))        even : H+(-f)        zero : 0       junk : constant
# "zero" and "junk" are the positive-frequency-only responses of the quantifier.
# style: vec = works on arrays; scalar_type = raises TypeError on arrays (math.*);
# scalar_value = raises ValueError on arrays (``if f < 0``).

FAMILIES = ["const", "rc_low", "rc_high", "butter", "gauss", "delay", "brick",
            "table", "chirp"]


def _pos_funcs(spec, n, dt):
    fam, p = spec["fam"], spec["p"]
    f_nyq = 0.5 / dt
    if fam == "const":
        return (lambda a: np.ones(np.shape(a))), (lambda a: 1.0)
    if fam == "rc_low":
        fc = p[0] * f_nyq
        return (lambda a: 1.0 / (1.0 + 1j * (a / fc))), (lambda a: 1.0 / complex(1.0, a / fc))
    if fam == "rc_high":
        fc = p[0] * f_nyq
        return ((lambda a: (1j * (a / fc)) / (1.0 + 1j * (a / fc))),
                (lambda a: complex(0.0, a / fc) / complex(1.0, a / fc)))
    if fam == "butter":
        fc, m = p[0] * f_nyq, int(p[1])
        return ((lambda a: (1.0 + (a / fc) ** (2 * m)) ** -0.5),
                (lambda a: (1.0 + (a / fc) ** (2 * m)) ** -0.5))
    if fam == "gauss":
        fc = p[0] * f_nyq
        return (lambda a: np.exp(-(a / fc) ** 2)), (lambda a: math.exp(-(a / fc) ** 2))
    if fam == "delay":
        tau = p[0] * dt

        def v(a):
            ph = -2.0 * math.pi * a * tau
            return np.cos(ph) + 1j * np.sin(ph)

        def s(a):
            ph = -2.0 * math.pi * a * tau
            return complex(math.cos(ph), math.sin(ph))
        return v, s
    if fam == "brick":
        # pass band [f1, f2] with both edges half-way between two frequency bins
        j1 = math.floor(min(p) * n)
        j2 = math.floor(max(p) * n)
        f1 = (j1 - 0.5) / (2.0 * n * dt)
        f2 = (j2 + 0.5) / (2.0 * n * dt)
        return ((lambda a: ((a >= f1) & (a <= f2)).astype(float)),
                (lambda a: 1.0 if f1 <= a <= f2 else 0.0))
    if fam == "table":
        re = [float(c[0]) for c in spec["table"]]
        im = [float(c[1]) for c in spec["table"]]
        m = len(re)
        knots = np.arange(m) / float(m - 1)

        def v(a):
            u = np.minimum(a / f_nyq, 1.0)
            return np.interp(u, knots, re) + 1j * np.interp(u, knots, im)

        def s(a):
            xx = min(a / f_nyq, 1.0) * (m - 1)
            i = min(int(xx), m - 2)
            t = xx - i
            return complex(re[i] + t * (re[i + 1] - re[i]), im[i] + t * (im[i + 1] - im[i]))
        return v, s
    if fam == "chirp":
        c1, c2 = p

        def v(a):
            u = a / f_nyq
            ph = c1 * u + c2 * u * u
            return np.cos(ph) + 1j * np.sin(ph)

        def s(a):
            u = a / f_nyq
            ph = c1 * u + c2 * u * u
            return complex(math.cos(ph), math.sin(ph))
        return v, s
    raise ValueError("unknown response family %r" % fam)


def build_response(spec, n, dt, style=None):
    """Returns (H_vec, fn): H_vec evaluates the response on any signed frequency
    array (used by the oracles only), fn is what pyrex gets."""
    pos_v, pos_s = _pos_funcs(spec, n, dt)
    g = complex(spec["gain"][0], spec["gain"][1])
    neg = spec["neg"]
    junk = complex(*spec.get("junk", [0.0, 0.0]))
    style = style or spec.get("style", "vec")

    def h_vec(f):
        f = np.asarray(f, dtype=float)
        p = g * pos_v(np.abs(f))
        if neg == "herm":
            q = np.conj(p)
        elif neg == "even":
            q = p
        elif neg == "zero":
            q = np.zeros(p.shape, dtype=complex)
        else:
            q = np.full(p.shape, junk)
        return np.where(f < 0, q, p)

    def _scalar(fval, a):
        p = g * pos_s(a)
        if fval >= 0:
            return p
        if neg == "herm":
            return p.conjugate()
        if neg == "even":
            return p
        if neg == "zero":
            return 0j
        return junk

    def response_scalar_type(f):
        a = math.fabs(f)          # TypeError when f is an array
        return _scalar(float(f), a)

    def response_scalar_value(f):
        if f < 0:                 # ValueError when f is an array
            a = float(-f)
        else:
            a = float(f)
        return _scalar(float(f), a)

    def response_scalar_narrow(f):
        # like a hand-written response: returns the narrowest Python type for each
        # value (int 0/1 at DC or in a stop band, float where the gain is real, complex
        # elsewhere), so the type of the first evaluation says nothing about the others
        v = response_scalar_type(f)
        if v.imag == 0:
            v = v.real
            if v == int(v) and abs(v) < 2**53:
                v = int(v)
        return v

    def response_vectorised(f):
        return h_vec(f)

    fn = {"vec": response_vectorised, "scalar_type": response_scalar_type,
          "scalar_value": response_scalar_value, "scalar_narrow": response_scalar_narrow}[style]
    return h_vec, fn


def _unit_disk(draw, rmax=1.0):
    """Complex number of modulus <= rmax (modulus rmax itself is the most common)."""
    r = draw(st.one_of(st.sampled_from([1.0, 1.0, 1.0, 0.5, 0.0]), floats(0.0, 1.0)))
    ph = draw(st.sampled_from([0.0, math.pi, math.pi / 2, 0.3, -2.1, 1.0]))
    return [rmax * r * math.cos(ph), rmax * r * math.sin(ph)]


@st.composite
def response_specs(draw, n, passive=False, families=None, negs=None, styles=None,
                   int_delay=False):
    fam = draw(st.sampled_from(families or FAMILIES))
    spec = dict(fam=fam, p=[])
    if fam in ("rc_low", "rc_high", "gauss"):
        spec["p"] = [draw(log_floats(1e-3, 10.0))]
    elif fam == "butter":
        spec["p"] = [draw(log_floats(1e-3, 10.0)), draw(st.integers(1, 6))]
    elif fam == "delay":
        if int_delay or draw(st.booleans()):
            spec["p"] = [float(draw(st.integers(-n, n)))]
        else:
            spec["p"] = [draw(floats(-float(n), float(n)))]
    elif fam == "brick":
        spec["p"] = [draw(floats(0.0, 1.0)), draw(floats(0.0, 1.0))]
    elif fam == "table":
        m = draw(st.integers(2, 7))
        rmax = 1.0 if passive else draw(st.sampled_from([1.0, 3.0]))
        spec["table"] = [_unit_disk(draw, rmax) for _ in range(m)]
    elif fam == "chirp":
        spec["p"] = [draw(floats(-40.0, 40.0)), draw(floats(-40.0, 40.0))]
    if passive:
        spec["gain"] = _unit_disk(draw)
    else:
        spec["gain"] = draw(st.sampled_from([[1.0, 0.0], [1.0, 0.0], [-2.5, 0.0], [0.0, 1.0],
                                             [0.6, -0.8], [3.0, 4.0], [1e-3, 0.0]]))
    spec["neg"] = draw(st.sampled_from(negs or ["herm", "herm", "even", "zero", "junk"]))
    spec["junk"] = _unit_disk(draw) if passive else draw(st.sampled_from([[7.0, -3.0], [0.0, 1.0], [-1.0, 0.0]]))
    spec["style"] = draw(st.sampled_from(styles or ["vec", "vec", "scalar_type", "scalar_value", "scalar_narrow"]))
    return spec


@st.composite
def grid_specs(draw, max_n=MAX_N, dyadic=False, min_n=2):
    """gens.grids plus, on generic grids, more starting times far from zero (there
    times[1]-times[0] is not the nominal step any more)."""
    g = draw(gens.grids(min_n=min_n, max_n=max_n, dyadic=dyadic))
    if not dyadic and draw(st.integers(0, 2)) == 0:
        g["t0"] = g["dt"] * draw(st.sampled_from([1e3, -1e3, 1e6, -777.7, 123456.789, 0.1, -33.3]))
    return g


# ---------------------------------------------------------------------------
# running pyrex


def _table_function(t0, dt, x_ext, n_before=0):
    """A time function reproducing given samples on the grid (and, for the
    buffer tests, on whole samples before/after it); zero elsewhere."""
    x_ext = np.asarray(x_ext, dtype=float)

    def samples(t):
        idx = np.rint((np.asarray(t, dtype=float) - t0) / dt).astype(np.int64) + n_before
        ok = (idx >= 0) & (idx < len(x_ext))
        return np.where(ok, x_ext[np.clip(idx, 0, len(x_ext) - 1)], 0.0)
    return samples


def make_signal(kind, times, x, as_int=False):
    from pyrex.signals import Signal, FunctionSignal
    if kind == "signal":
        if as_int:
            return Signal(times, [int(v) for v in x])
        return Signal(times, x)
    if kind == "function":
        return FunctionSignal(times, _table_function(float(times[0]), float(times[1] - times[0]), x))
    raise ValueError(kind)


def read_values(sig, n, what="filtered signal"):
    y = np.asarray(sig.values)
    require(y.shape == (n,), "%s has shape %r, expected (%d,)", what, y.shape, n)
    require(np.isrealobj(y), "%s has dtype %r, expected real values", what, y.dtype)
    require(bool(np.all(np.isfinite(y))), "%s contains non-finite values", what)
    require(np.asarray(sig.times).shape == (n,), "times changed length")
    return np.array(y, dtype=float)


def apply_filter(kind, times, x, filters, as_int=False):
    sig = make_signal(kind, times, x, as_int=as_int)
    for fn, force_real in filters:
        sig.filter_frequencies(fn, force_real=force_real)
    return read_values(sig, len(times))


# ---------------------------------------------------------------------------
# oracle helpers


def _bins(n, dt):
    return np.arange(n + 1) / (2.0 * n * dt)


def _sens(h_vec, f, signed):
    """max change of the response when the bin frequencies move by +-4 ulp."""
    s = float(np.max(np.abs(h_vec(f * (1 + 4 * EPS)) - h_vec(f * (1 - 4 * EPS)))))
    if signed:
        s = max(s, float(np.max(np.abs(h_vec(-f * (1 + 4 * EPS)) - h_vec(-f * (1 - 4 * EPS))))))
    return s


def _hmax(h_vec, f, signed):
    m = float(np.max(np.abs(h_vec(f))))
    if signed:
        m = max(m, float(np.max(np.abs(h_vec(-f)))))
    return m


def _norm(x):
    """2-norm that neither underflows nor overflows (samples may be 1e-200)."""
    x = np.asarray(x, dtype=float)
    m = float(np.max(np.abs(x))) if x.size else 0.0
    if m == 0.0 or not math.isfinite(m):
        return m
    return m * float(np.linalg.norm(x / m))


def _independent(x1, x2):
    """x1 is not (nearly) a multiple of x2 (Gram-Schmidt residual, scaled)."""
    n1, n2 = _norm(x1), _norm(x2)
    if n1 == 0 or n2 == 0:
        return False
    u1, u2 = x1 / n1, x2 / n2
    return float(np.linalg.norm(u1 - u2 * float(np.dot(u1, u2)))) > 1e-9


def _tol(n, hmax, xnorm, sens=0.0, c=32.0):
    return (c * EPS * math.log2(2 * n) * hmax + sens) * xnorm + 1e-300


def ref_hermitian(x, h_pos):
    """Real signal obtained from the Hermitian-symmetrised response: only the
    f >= 0 samples of the response enter; irfft *is* the Hermitian extension."""
    n = len(x)
    spec = np.fft.rfft(np.concatenate((np.asarray(x, dtype=float), np.zeros(n)))) * h_pos
    spec[0] = spec[0].real       # f = 0 and Nyquist are their own mirror images:
    spec[n] = spec[n].real       # symmetrisation leaves the real part
    return np.fft.irfft(spec, 2 * n)[:n]


def ref_hermitian_direct(x, h_pos):
    """Same thing as an explicit cosine sum (no FFT at all), O(N^2)."""
    n = len(x)
    m = np.arange(n)
    j = np.arange(n + 1)
    e = np.exp(-1j * math.pi * np.outer(j, m) / n)
    w = h_pos * (e @ np.asarray(x, dtype=float))
    y = w[0].real + w[n].real * np.where(m % 2 == 0, 1.0, -1.0)
    if n > 1:
        y = y + 2.0 * np.real(np.conj(e[1:n]).T @ w[1:n])
    return y / (2.0 * n)


def ref_signed(x, h_vec, f):
    """Real part of the signal filtered with the response "left alone" on signed
    frequencies.  Re(ifft(H X)) of a real x equals the Hermitian part of H applied
    to x, so this too goes through rfft.  The Nyquist bin of the even-length padded
    transform is both +f_N and -f_N: both readings are returned."""
    n = len(x)
    hp, hm = h_vec(f), h_vec(-f)
    he = 0.5 * (hp + np.conj(hm))
    he[0] = hp[0].real
    out = []
    for nyq in (hm[n].real, hp[n].real):
        h = he.copy()
        h[n] = nyq
        out.append(ref_hermitian(x, h))
    return out


def _grid(case):
    g = case["grid"]
    times = gens.build_times(g)
    return g["n"], times, float(times[1] - times[0])


def _grid_classes(n):
    cl = ["odd_n" if n % 2 else "even_n"]
    if n >= 1024:
        cl.append("n>=1024")
    if n <= 3:
        cl.append("n<=3")
    return cl


def _nonconstant(v, rel=1e-9):
    v = np.asarray(v)
    return bool(np.max(np.abs(v - v[0])) > rel * max(np.max(np.abs(v)), 1e-300))


def _resp_classes(spec, force_real=None):
    cl = ["fam=" + spec["fam"], "neg=" + spec["neg"],
          "scalar_only" if spec["style"] != "vec" else "vectorised"]
    if force_real is not None:
        cl.append("force_real" if force_real else "not_forced")
    return cl


# ---------------------------------------------------------------------------
# (a) linear in the signal


@st.composite
def linear_cases(draw):
    g = draw(grid_specs())
    n = g["n"]
    coef = st.one_of(st.sampled_from([1.0, -1.0, 0.0, 2.0]), floats(-1e3, 1e3))
    return dict(grid=g, v1=draw(value_specs(n)), v2=draw(value_specs(n)),
                a=draw(coef), b=draw(coef), resp=draw(response_specs(n)),
                force_real=draw(st.booleans()),
                kind=draw(st.sampled_from(["signal", "signal", "function", "function_sum"])))


def check_linear(case, rec):
    n, times, dt = _grid(case)
    x1, x2 = build_values(case["v1"], n), build_values(case["v2"], n)
    a, b, fr = case["a"], case["b"], case["force_real"]
    h_vec, fn = build_response(case["resp"], n, case["grid"]["dt"])
    kind = case["kind"]
    base = "function" if kind == "function_sum" else kind
    y1 = apply_filter(base, times, x1, [(fn, fr)])
    y2 = apply_filter(base, times, x2, [(fn, fr)])
    if kind == "function_sum":
        # the combination is formed by pyrex itself: two components, filtered after adding
        s = a * make_signal("function", times, x1) + make_signal("function", times, x2) * b
        s.filter_frequencies(fn, force_real=fr)
        y12 = read_values(s, n)
    else:
        y12 = apply_filter(kind, times, a * x1 + b * x2, [(fn, fr)])
    f = _bins(n, dt)
    hmax = _hmax(h_vec, f, not fr)
    scale = abs(a) * _norm((x1)) + abs(b) * _norm((x2))
    tol = _tol(n, hmax, 3 * scale)
    err = float(np.max(np.abs(y12 - (a * y1 + b * y2))))
    require(err <= tol, "filter(a*x1+b*x2) differs from a*filter(x1)+b*filter(x2) by %.3g "
            "(tolerance %.3g; n=%d a=%r b=%r force_real=%r kind=%s response %r)",
            err, tol, n, a, b, fr, kind, case["resp"])
    indep = abs(a) > 0 and abs(b) > 0 and _nonconstant(x1) and _nonconstant(x2) and \
        _independent(x1, x2)
    nt = n >= 3 and indep and _nonconstant(h_vec(f)) and float(np.max(np.abs(y12))) > 0
    rec.case(case, nontrivial=nt,
             classes=_grid_classes(n) + _resp_classes(case["resp"], fr) + ["kind=" + kind])


# ---------------------------------------------------------------------------
# (a') homogeneous in the response (real factors)


@st.composite
def homogeneous_cases(draw):
    g = draw(grid_specs())
    n = g["n"]
    c = draw(st.one_of(st.sampled_from([-1.0, 0.0, 2.0, 0.5]), log_floats(1e-3, 1e3),
                       log_floats(1e-3, 1e3).map(lambda v: -v)))
    return dict(grid=g, values=draw(value_specs(n)), c=c, resp=draw(response_specs(n)),
                force_real=draw(st.booleans()),
                kind=draw(st.sampled_from(["signal", "signal", "function"])))


def _scaled(spec, c):
    s = dict(spec)
    s["gain"] = [c * spec["gain"][0], c * spec["gain"][1]]
    s["junk"] = [c * spec["junk"][0], c * spec["junk"][1]]
    return s


def check_homogeneous(case, rec):
    n, times, dt = _grid(case)
    x = build_values(case["values"], n)
    c, fr, kind = case["c"], case["force_real"], case["kind"]
    h_vec, fn = build_response(case["resp"], n, case["grid"]["dt"])
    _, fn_c = build_response(_scaled(case["resp"], c), n, case["grid"]["dt"])
    y = apply_filter(kind, times, x, [(fn, fr)])
    yc = apply_filter(kind, times, x, [(fn_c, fr)])
    f = _bins(n, dt)
    hmax = _hmax(h_vec, f, not fr)
    tol = _tol(n, abs(c) * hmax, 2 * _norm((x)))
    err = float(np.max(np.abs(yc - c * y)))
    require(err <= tol, "response scaled by %r: output differs from %r * output by %.3g "
            "(tolerance %.3g; n=%d force_real=%r kind=%s response %r)",
            c, c, err, tol, n, fr, kind, case["resp"])
    nt = n >= 3 and c not in (0.0, 1.0) and _nonconstant(x) and _nonconstant(h_vec(f)) \
        and float(np.max(np.abs(y))) > 0
    rec.case(case, nontrivial=nt,
             classes=_grid_classes(n) + _resp_classes(case["resp"], fr) + ["kind=" + kind,
                                                                          "c<0" if c < 0 else "c>=0"])


# ---------------------------------------------------------------------------
# (b) unit response = identity


@st.composite
def identity_cases(draw):
    g = draw(grid_specs())
    n = g["n"]
    fr = draw(st.booleans())
    fam = draw(st.sampled_from(["const", "const", "delay", "chirp", "table", "brick"]))
    spec = dict(fam=fam, p=[], gain=[1.0, 0.0], junk=[7.0, -3.0])
    if fam == "delay":
        spec["p"] = [0.0]
    elif fam == "chirp":
        spec["p"] = [0.0, 0.0]
    elif fam == "table":
        spec["table"] = [[1.0, 0.0]] * draw(st.integers(2, 5))
    elif fam == "brick":
        spec["p"] = [0.0, 1.0]      # pass band covering every bin
    # with force_real only the positive-frequency part of the response counts
    spec["neg"] = draw(st.sampled_from(["herm", "even", "zero", "junk"] if fr else ["herm", "even"]))
    spec["style"] = draw(st.sampled_from(["vec", "scalar_type", "scalar_value", "scalar_narrow"]))
    return dict(grid=g, values=draw(value_specs(n)), resp=spec, force_real=fr,
                kind=draw(st.sampled_from(["signal", "signal", "function"])),
                as_int=draw(st.integers(0, 5)) == 0)


def check_identity(case, rec):
    n, times, dt = _grid(case)
    x = build_values(case["values"], n)
    kind, fr = case["kind"], case["force_real"]
    as_int = bool(case["as_int"]) and kind == "signal" and float(np.max(np.abs(x))) < 1e15
    if as_int:
        x = np.trunc(x)
    h_vec, fn = build_response(case["resp"], n, case["grid"]["dt"])
    f = _bins(n, dt)
    # the generated response really is 1 on every frequency pyrex may ask for
    if not (np.all(h_vec(f) == 1) and (fr or np.all(h_vec(-f) == 1))):
        raise ValueError("identity generator produced a non-unit response")
    y = apply_filter(kind, times, x, [(fn, fr)], as_int=as_int)
    tol = _tol(n, 1.0, _norm((x)))
    err = float(np.max(np.abs(y - x)))
    require(err <= tol, "unit response changed the signal by %.3g (tolerance %.3g; n=%d "
            "force_real=%r kind=%s response %r)", err, tol, n, fr, kind, case["resp"])
    rec.case(case, nontrivial=n >= 3 and _nonconstant(x),
             classes=_grid_classes(n) + _resp_classes(case["resp"], fr) + ["kind=" + kind]
             + (["int_values"] if as_int else []))


# ---------------------------------------------------------------------------
# (c) independent of the absolute position of the time grid


@st.composite
def offset_cases(draw):
    dyadic = draw(st.booleans())
    g = draw(grid_specs(dyadic=dyadic))
    n = g["n"]
    if dyadic:
        t0b = g["dt"] * draw(st.one_of(st.just(0), st.integers(-10**6, 10**6)))
        if g["t0"] == t0b:
            t0b = g["t0"] + g["dt"] * draw(st.integers(1, 10**6))
    else:
        t0b = draw(st.one_of(st.just(0.0), floats(-1e3, 1e3).map(lambda v: v * g["dt"])))
        if g["t0"] == t0b:
            t0b = g["t0"] + 17.25 * g["dt"]
    return dict(grid=g, dyadic=dyadic, t0b=t0b, values=draw(value_specs(n)),
                resp=draw(response_specs(n)), force_real=draw(st.booleans()),
                kind=draw(st.sampled_from(["signal", "signal", "function"])),
                via_shift=draw(st.booleans()))


def check_offset(case, rec):
    g = case["grid"]
    n, times_a, dt_a = _grid(case)
    x = build_values(case["values"], n)
    fr, kind = case["force_real"], case["kind"]
    h_vec, fn = build_response(case["resp"], n, g["dt"])
    times_b = gens.build_times(dict(n=n, dt=g["dt"], t0=case["t0b"]))
    dt_b = float(times_b[1] - times_b[0])
    y_a = apply_filter(kind, times_a, x, [(fn, fr)])
    if case["via_shift"]:
        # reach grid B by moving a signal built on grid A
        sig = make_signal(kind, times_a, x)
        sig.shift(case["t0b"] - g["t0"])
        if case["dyadic"]:
            require(np.array_equal(np.asarray(sig.times), times_b), "shift() did not move the grid exactly")
        sig.filter_frequencies(fn, force_real=fr)
        y_b = read_values(sig, n)
    else:
        y_b = apply_filter(kind, times_b, x, [(fn, fr)])
    if case["dyadic"]:
        # every grid operation is exact in binary floating point: same step, same
        # frequencies, so not one bit may differ
        if dt_a != g["dt"] or dt_b != g["dt"]:
            raise ValueError("dyadic grid is not exact")
        require(np.array_equal(y_a, y_b),
                "output depends on the grid position: grids starting at %r and %r (dt=%r, n=%d) "
                "differ by %.3g (force_real=%r kind=%s via_shift=%r response %r)",
                g["t0"], case["t0b"], g["dt"], n, float(np.max(np.abs(y_a - y_b))), fr, kind,
                case["via_shift"], case["resp"])
    else:
        # the two grids have steps that differ by rounding (eps*|t0|/dt relative);
        # the allowed difference is what that step difference does to the response
        fa = _bins(n, dt_a)
        # (a grid reached by shift() is times_a + delta, rounded sample by sample: its first
        # spacing and its mean spacing differ from those of a freshly built grid B by further
        # ulps of |t|; every candidate step is allowed for, twice over)
        steps = [dt_b]
        if case["via_shift"] and n >= 2:
            tb = np.asarray(sig.times, dtype=float)
            steps += [float(tb[1] - tb[0]), float(tb[-1] - tb[0]) / (n - 1)]
            steps += [dt_b + 2 * math.ulp(float(np.max(np.abs(tb)))), dt_b - 2 * math.ulp(float(np.max(np.abs(tb))))]
        dh = 0.0
        for st_ in steps:
            fb = _bins(n, st_)
            dh = max(dh, float(np.max(np.abs(h_vec(fa) - h_vec(fb)))))
            if not fr:
                dh = max(dh, float(np.max(np.abs(h_vec(-fa) - h_vec(-fb)))))
        dh *= 2.0
        hmax = _hmax(h_vec, fa, not fr)
        sens = _sens(h_vec, fa, not fr)
        tol = _tol(n, hmax, 2 * _norm((x)), sens=dh + sens)
        err = float(np.max(np.abs(y_a - y_b)))
        require(err <= tol,
                "output depends on the grid position: grids starting at %r and %r (dt=%r, n=%d) "
                "differ by %.3g, tolerance %.3g (force_real=%r kind=%s response %r)",
                g["t0"], case["t0b"], g["dt"], n, err, tol, fr, kind, case["resp"])
    f = _bins(n, dt_a)
    nt = n >= 3 and _nonconstant(x) and _nonconstant(h_vec(f)) and float(np.max(np.abs(y_a))) > 0
    rec.case(case, nontrivial=nt,
             classes=_grid_classes(n) + _resp_classes(case["resp"], fr)
             + ["kind=" + kind, "dyadic" if case["dyadic"] else "generic",
                "via_shift" if case["via_shift"] else "two_grids"])


# ---------------------------------------------------------------------------
# (d) force_real = real signal of the Hermitian-symmetrised response


@st.composite
def reference_cases(draw):
    g = draw(grid_specs())
    n = g["n"]
    return dict(grid=g, values=draw(value_specs(n)), resp=draw(response_specs(n)),
                kind=draw(st.sampled_from(["signal", "signal", "function"])),
                as_int=draw(st.integers(0, 7)) == 0)


def _prep_reference(case):
    n, times, dt = _grid(case)
    x = build_values(case["values"], n)
    kind = case["kind"]
    as_int = bool(case["as_int"]) and kind == "signal" and float(np.max(np.abs(x))) < 1e15
    if as_int:
        x = np.trunc(x)
    h_vec, fn = build_response(case["resp"], n, case["grid"]["dt"])
    return n, times, dt, x, kind, as_int, h_vec, fn


def check_force_real(case, rec):
    n, times, dt, x, kind, as_int, h_vec, fn = _prep_reference(case)
    y = apply_filter(kind, times, x, [(fn, True)], as_int=as_int)
    f = _bins(n, dt)
    h_pos = h_vec(f)
    ref = ref_hermitian(x, h_pos)
    hmax = float(np.max(np.abs(h_pos)))
    tol = _tol(n, hmax, _norm((x)), sens=_sens(h_vec, f, False))
    err = float(np.max(np.abs(y - ref)))
    require(err <= tol, "force_real output differs from the Hermitian-symmetrised reference by %.3g "
            "(tolerance %.3g; n=%d dt=%r kind=%s response %r)", err, tol, n, dt, kind, case["resp"])
    classes = _grid_classes(n) + _resp_classes(case["resp"]) + ["kind=" + kind]
    if n <= 24:
        direct = ref_hermitian_direct(x, h_pos)
        err = float(np.max(np.abs(y - direct)))
        require(err <= 4 * tol, "force_real output differs from the direct cosine-sum reference by %.3g "
                "(tolerance %.3g; n=%d response %r)", err, 4 * tol, n, case["resp"])
        classes.append("direct_sum")
    if abs(h_pos[n].imag) > 1e-3 * hmax and abs(float(np.sum(x * np.where(np.arange(n) % 2, -1.0, 1.0)))) > 1e-6 * _norm((x)):
        classes.append("complex_at_nyquist")
    if abs(h_pos[0].imag) > 1e-3 * hmax and abs(float(np.sum(x))) > 1e-6 * _norm((x)):
        classes.append("complex_at_dc")
    if as_int:
        classes.append("int_values")
    nt = n >= 3 and _nonconstant(x) and _nonconstant(h_pos) and float(np.max(np.abs(ref))) > 0
    rec.case(case, nontrivial=nt, classes=classes)


def check_signed(case, rec):
    n, times, dt, x, kind, as_int, h_vec, fn = _prep_reference(case)
    y = apply_filter(kind, times, x, [(fn, False)], as_int=as_int)
    f = _bins(n, dt)
    refs = ref_signed(x, h_vec, f)
    hmax = _hmax(h_vec, f, True)
    tol = _tol(n, hmax, _norm((x)), sens=_sens(h_vec, f, True))
    errs = [float(np.max(np.abs(y - r))) for r in refs]
    require(min(errs) <= tol, "output without force_real differs from Re(response on signed frequencies "
            "applied to the padded signal) by %.3g (tolerance %.3g; n=%d dt=%r kind=%s response %r)",
            min(errs), tol, n, dt, kind, case["resp"])
    classes = _grid_classes(n) + _resp_classes(case["resp"]) + ["kind=" + kind]
    herm_part_differs = float(np.max(np.abs(refs[0] - ref_hermitian(x, h_vec(f))))) > 1e-6 * hmax * _norm((x))
    if herm_part_differs:
        classes.append("not_hermitian")
    if as_int:
        classes.append("int_values")
    nt = n >= 3 and _nonconstant(x) and _nonconstant(h_vec(f)) and float(np.max(np.abs(refs[0]))) > 0
    rec.case(case, nontrivial=nt, classes=classes)


# ---------------------------------------------------------------------------
# (d') scalar-only response = its vectorised twin


@st.composite
def twin_cases(draw):
    g = draw(grid_specs())
    n = g["n"]
    return dict(grid=g, values=draw(value_specs(n)), resp=draw(response_specs(n, styles=["vec"])),
                force_real=draw(st.booleans()),
                kind=draw(st.sampled_from(["signal", "signal", "function"])))


def check_twin(case, rec):
    n, times, dt = _grid(case)
    x = build_values(case["values"], n)
    fr, kind = case["force_real"], case["kind"]
    out = {}
    for style in ("vec", "scalar_type", "scalar_value", "scalar_narrow"):
        h_vec, fn = build_response(case["resp"], n, case["grid"]["dt"], style=style)
        if style != "vec":
            # the twins must really be scalar-only in the way the fall-back expects
            try:
                fn(np.array([1.0, 2.0, 3.0]))
            except (TypeError, ValueError):
                pass
            else:
                raise ValueError("scalar-only twin accepted an array")
        out[style] = apply_filter(kind, times, x, [(fn, fr)])
    f = _bins(n, dt)
    hmax = _hmax(h_vec, f, not fr)
    tol = _tol(n, hmax, 2 * _norm((x)), sens=_sens(h_vec, f, not fr))
    for style in ("scalar_type", "scalar_value", "scalar_narrow"):
        err = float(np.max(np.abs(out[style] - out["vec"])))
        require(err <= tol, "scalar-only response (%s) gives an output differing by %.3g from its "
                "vectorised twin (tolerance %.3g; n=%d force_real=%r kind=%s response %r)",
                style, err, tol, n, fr, kind, case["resp"])
    nt = n >= 3 and _nonconstant(x) and _nonconstant(h_vec(f)) and float(np.max(np.abs(out["vec"]))) > 0
    rec.case(case, nontrivial=nt,
             classes=_grid_classes(n) + _resp_classes(case["resp"], fr) + ["kind=" + kind])


# ---------------------------------------------------------------------------
# (d'') a response written as a plain constant


@st.composite
def constant_cases(draw):
    g = draw(grid_specs(max_n=256))
    n = g["n"]
    return dict(grid=g, values=draw(value_specs(n)),
                c=draw(st.sampled_from([[1.0, 0.0], [1.0, 0.0], [0.5, 0.0], [-2.0, 0.0], [0.6, -0.8],
                                        [0.0, 1.0]])),
                spelling=draw(st.sampled_from(["int_or_float", "complex", "numpy_scalar", "zero_d_array"])),
                force_real=draw(st.booleans()),
                kind=draw(st.sampled_from(["signal", "function"])))


def check_constant(case, rec):
    n, times, dt = _grid(case)
    x = build_values(case["values"], n)
    c = complex(*case["c"])
    fr, kind, sp = case["force_real"], case["kind"], case["spelling"]
    if sp == "int_or_float":
        val = (int(c.real) if float(c.real).is_integer() else c.real) if c.imag == 0 else c
    elif sp == "complex":
        val = c
    elif sp == "numpy_scalar":
        val = np.complex128(c)
    else:
        val = np.array(c)

    def constant_response(f):
        return val
    # counted before the call so that the class stays visible while a listed finding excludes it
    rec.klass("attempt_force_real" if fr else "attempt_not_forced")
    y = apply_filter(kind, times, x, [(constant_response, fr)])
    spec = dict(fam="const", p=[], gain=[c.real, c.imag], neg="even", junk=[0.0, 0.0], style="vec")
    h_vec, _ = build_response(spec, n, dt)
    f = _bins(n, dt)
    ref = ref_hermitian(x, h_vec(f)) if fr else ref_signed(x, h_vec, f)[0]
    tol = _tol(n, abs(c), _norm((x)))
    err = float(np.max(np.abs(y - ref)))
    require(err <= tol, "constant response %r (force_real=%r) gives an output differing by %.3g from the "
            "reference (tolerance %.3g)", val, fr, err, tol)
    if c == 1 and not fr:
        require(float(np.max(np.abs(y - x))) <= tol, "constant unit response is not the identity")
    rec.case(case, nontrivial=n >= 3 and _nonconstant(x),
             classes=_grid_classes(n) + ["spelling=" + sp, "force_real" if fr else "not_forced",
                                         "kind=" + kind, "unit" if c == 1 else "non_unit"])


def classify_constant(case, exc):
    if isinstance(exc, IndexError) and case.get("force_real") and "0-dimensional" in str(exc):
        return "force_real with response returning a single scalar -> IndexError"
    return None


# ---------------------------------------------------------------------------
# (e) passive


@st.composite
def passive_cases(draw):
    g = draw(grid_specs())
    n = g["n"]
    return dict(grid=g, values=draw(value_specs(n)), resp=draw(response_specs(n, passive=True)),
                force_real=draw(st.booleans()),
                kind=draw(st.sampled_from(["signal", "signal", "function"])),
                amplify=draw(st.sampled_from([None, None, None, 1.5, 4.0, 0.25])))


def check_passive(case, rec):
    n, times, dt = _grid(case)
    x = build_values(case["values"], n)
    fr, kind = case["force_real"], case["kind"]
    h_vec, fn = build_response(case["resp"], n, case["grid"]["dt"])
    f = _bins(n, dt)
    hmax = _hmax(h_vec, f, not fr)
    if hmax > 1 + 8 * EPS:
        raise ValueError("passive generator produced |H| = %r > 1" % hmax)
    # energies in units of max|x|^2 so that tiny or huge samples neither underflow nor overflow
    unit = float(np.max(np.abs(x))) or 1.0
    e_in = float(np.dot(x / unit, x / unit))
    y = apply_filter(kind, times, x, [(fn, fr)])
    e_out = float(np.dot(y / unit, y / unit))
    # 1e-12: Parseval holds to c*eps*log2(2N) ~ 1e-14 for the FFT pair
    # samples in the subnormal range (< 2.2e-308) are only accurate to ~1e-322 absolutely
    slack = 4 * math.sqrt(e_in * n) * (1e-322 / unit)
    require(e_out <= e_in * (1 + 1e-12) + slack,
            "a response of magnitude <= 1 (max %.17g) increased the energy (units of max|x|^2): %.17g -> %.17g "
            "(n=%d force_real=%r kind=%s response %r)", hmax, e_in, e_out, n, fr, kind, case["resp"])
    classes = _grid_classes(n) + _resp_classes(case["resp"], fr) + ["kind=" + kind]
    if e_in > 0 and e_out > 0.5 * e_in:
        classes.append("keeps_most_energy")
    if e_in > 0 and e_out < 1e-3 * e_in:
        classes.append("absorbs_almost_all")
    if case["amplify"] is not None:
        # other direction: the bound is |H|^2 and it is attained - a flat real gain q
        # gives exactly q^2 times the energy, more than the input when q > 1
        q = case["amplify"]
        spec = dict(fam="const", p=[], gain=[q, 0.0], neg="herm", junk=[0.0, 0.0],
                    style=case["resp"]["style"])
        _, fq = build_response(spec, n, case["grid"]["dt"])
        yq = apply_filter(kind, times, x, [(fq, fr)])
        e_q = float(np.dot(yq / unit, yq / unit))
        require(abs(e_q - q * q * e_in) <= 1e-12 * q * q * e_in + q * q * slack,
                "flat gain %r: energy %.17g, expected %.17g", q, e_q, q * q * e_in)
        classes.append("flat_gain")
    nt = n >= 3 and _nonconstant(x) and _nonconstant(h_vec(f)) and hmax > 0.5
    rec.case(case, nontrivial=nt, classes=classes)


# ---------------------------------------------------------------------------
# (f) pure delay: whole samples move later, nothing wraps round


@st.composite
def delay_cases(draw):
    dyadic = draw(st.booleans())
    g = draw(grid_specs(dyadic=dyadic))
    n = g["n"]
    mode = draw(st.sampled_from(["whole", "whole", "pulse"]))
    if n < 64:
        mode = "whole"
    case = dict(grid=g, dyadic=dyadic, mode=mode, force_real=draw(st.booleans()),
                kind=draw(st.sampled_from(["signal", "signal", "function"])),
                style=draw(st.sampled_from(["vec", "vec", "vec", "scalar_type", "scalar_value"])),
                spelling=draw(st.sampled_from(["exp", "cos_sin"])))
    if mode == "whole":
        where = draw(st.sampled_from(["any", "any", "near0", "nearN", "N", "advance", "adv_nearN"]))
        if where == "any":
            k = draw(st.integers(0, n))
        elif where == "near0":
            k = min(n, draw(st.integers(0, 3)))
        elif where == "nearN":
            k = max(0, n - draw(st.integers(0, 3)))
        elif where == "N":
            k = n
        elif where == "advance":
            k = -draw(st.integers(1, n))
        else:
            k = -max(1, n - draw(st.integers(0, 3)))
        case["k"] = k
        case["values"] = draw(value_specs(n))
    else:
        s_max = (n - 1) / 16.5
        sigma = draw(floats(3.0, s_max))
        centre = draw(floats(8 * sigma, (n - 1) - 8 * sigma))
        case["sigma"] = sigma
        case["centre"] = centre
        case["amp"] = draw(st.sampled_from([1.0, -2.5, 1e-6, 1e4]))
        # where the delayed centre lands: inside, cut by the end, beyond the end, or (advance)
        # cut by / beyond the start
        target = draw(st.sampled_from(["any", "inside", "cut_end", "beyond_end", "cut_start", "beyond_start"]))
        if target == "any":
            tau = draw(floats(-float(n), float(n)))
        elif target == "inside":
            tau = draw(floats(8 * sigma, (n - 1) - 8 * sigma)) - centre
        elif target == "cut_end":
            tau = (n - 1) + draw(floats(-6.0, 6.0)) * sigma - centre
        elif target == "beyond_end":
            tau = float(n) - draw(floats(0.0, 1.0)) * (centre - 8 * sigma)
        elif target == "cut_start":
            tau = draw(floats(-6.0, 6.0)) * sigma - centre
        else:
            tau = -float(n) + draw(floats(0.0, 1.0)) * ((n - 1) - 8 * sigma - centre)
        case["tau"] = max(-float(n), min(float(n), tau))
    return case


def _delay_function(tau, style, spelling):
    """exp(-2 pi i f tau) as a user would write it."""
    if style == "vec":
        if spelling == "exp":
            def delay(f):
                return np.exp(-2j * np.pi * f * tau)
        else:
            def delay(f):
                return np.cos(2 * np.pi * f * tau) - 1j * np.sin(2 * np.pi * f * tau)
    elif style == "scalar_type":
        import cmath

        def delay(f):
            ph = 2 * math.pi * math.fabs(f) * math.copysign(1.0, f) * tau
            if spelling == "exp":
                return cmath.exp(-1j * ph)
            return complex(math.cos(ph), -math.sin(ph))
    else:
        import cmath

        def delay(f):
            if f < 0:
                return cmath.exp(2j * math.pi * float(-f) * tau)
            return cmath.exp(-2j * math.pi * float(f) * tau)
    return delay


def check_delay(case, rec):
    n, times, dt = _grid(case)
    fr, kind = case["force_real"], case["kind"]
    classes = _grid_classes(n) + ["kind=" + kind, "force_real" if fr else "not_forced",
                                  "scalar_only" if case["style"] != "vec" else "vectorised",
                                  "dyadic" if case["dyadic"] else "generic"]
    if float(dt) != case["grid"]["dt"]:
        classes.append("rounded_step")
    f = _bins(n, dt)
    if case["mode"] == "whole":
        k = int(case["k"])
        x = build_values(case["values"], n)
        tau = k * dt            # the signal's own step (Signal.dt), k whole samples
        fn = _delay_function(tau, case["style"], case["spelling"])
        y = apply_filter(kind, times, x, [(fn, fr)])
        expect = np.zeros(n)
        if k >= 0:
            expect[k:] = x[:n - k]
        else:
            expect[:n + k] = x[-k:]
        xnorm = _norm((x))
        # |f dH/df| = pi |k| at Nyquist: phase error from the ulp-ambiguity of the bins
        tol = _tol(n, 1.0, xnorm, sens=16 * EPS * math.pi * abs(k))
        err = float(np.max(np.abs(y - expect)))
        if err > tol:
            lost = expect == 0
            leak = float(np.max(np.abs(y[lost]))) if np.any(lost) else 0.0
            raise Violation("delay by %d samples (n=%d, dt=%r, force_real=%r, kind=%s): output differs from the "
                            "shifted samples by %.3g (tolerance %.3g); largest value where zeros must be "
                            "shifted in: %.3g" % (k, n, dt, fr, kind, err, tol, leak))
        classes.append("whole")
        if 0 <= k <= 3:
            classes.append("k_near_0")
        if n - 3 <= k <= n:
            classes.append("k_near_N")
        if k < 0:
            classes.append("advance")
        # wrap-around would be visible: a non-zero sample leaves the window
        leaving = x[n - k:] if k > 0 else (x[:-k] if k < 0 else x[:0])
        visible = leaving.size > 0 and float(np.max(np.abs(leaving))) > 1e-6 * max(float(np.max(np.abs(x))), 1e-300)
        if visible:
            classes.append("samples_leave_window")
        nt = n >= 3 and k != 0 and _nonconstant(x) and visible
    else:
        sigma, centre, amp, tau_s = case["sigma"], case["centre"], case["amp"], case["tau"]
        i = np.arange(n, dtype=float)
        x = amp * np.exp(-0.5 * ((i - centre) / sigma) ** 2)
        fn = _delay_function(tau_s * dt, case["style"], case["spelling"])
        y = apply_filter(kind, times, x, [(fn, fr)])
        expect = amp * np.exp(-0.5 * ((i - centre - tau_s) / sigma) ** 2)
        # the pulse is cut at >= 8 sigma (1.3e-14 of its peak) and has 5e-20 of its
        # spectrum at Nyquist (sigma >= 3 samples): band-limited to ~1e-13
        tol = 1e-11 * abs(amp) + _tol(n, 1.0, _norm((x)), sens=16 * EPS * math.pi * abs(tau_s))
        err = float(np.max(np.abs(y - expect)))
        require(err <= tol, "Gaussian pulse (centre %r, sigma %r samples) delayed by %r samples: output differs "
                "from the analytically delayed pulse by %.3g (tolerance %.3g; n=%d force_real=%r kind=%s)",
                centre, sigma, tau_s, err, tol, n, fr, kind)
        classes.append("pulse")
        if centre + tau_s > n - 1 + 8 * sigma or centre + tau_s < -8 * sigma:
            classes.append("pulse_leaves_window")
        elif centre + tau_s > n - 1 - 8 * sigma or centre + tau_s < 8 * sigma:
            classes.append("pulse_cut_by_edge")
        if tau_s < 0:
            classes.append("advance")
        nt = abs(tau_s - round(tau_s)) > 1e-3
    rec.case(case, nontrivial=nt, classes=classes)


# ---------------------------------------------------------------------------
# FunctionSignal._apply_filters: buffers and several filters


@st.composite
def function_cases(draw):
    dyadic = draw(st.booleans())
    g = draw(grid_specs(max_n=1024, dyadic=dyadic))
    n = g["n"]
    nb = draw(st.sampled_from([0, 0, 1, 2, 5, 17, n]))
    na = draw(st.sampled_from([0, 0, 1, 3, 8, n // 2]))
    m = nb + n + na
    n_filters = draw(st.sampled_from([1, 2, 2, 3]))
    resps = [draw(response_specs(m)) for _ in range(n_filters)]
    return dict(grid=g, nb=nb, na=na, values=draw(value_specs(m, allow_list=m <= 24)), resps=resps,
                force_real=draw(st.booleans()), set_before=draw(st.booleans()))


def check_function(case, rec):
    from pyrex.signals import FunctionSignal
    n, times, dt = _grid(case)
    nb, na = int(case["nb"]), int(case["na"])
    m = nb + n + na
    x_ext = build_values(case["values"], m)
    fr = case["force_real"]
    built = [build_response(r, m, case["grid"]["dt"]) for r in case["resps"]]
    sig = FunctionSignal(times, _table_function(float(times[0]), dt, x_ext, n_before=nb))
    # buffers: ceil(buffer/dt) whole samples; (k-1/2) dt is k samples without any
    # dependence on how k*dt/dt rounds
    lead = (nb - 0.5) * dt if nb else 0.0
    trail = (na - 0.5) * dt if na else 0.0

    def set_buffers():
        if nb or na:
            sig.set_buffers(leading=lead, trailing=trail)
    if case["set_before"]:
        set_buffers()
    for _, fn in built:
        sig.filter_frequencies(fn, force_real=fr)
    if not case["set_before"]:
        set_buffers()
    y = read_values(sig, n)

    def h_prod(f):
        out = np.ones(np.shape(f), dtype=complex)
        for h_vec, _ in built:
            out = out * h_vec(f)
        return out
    f = _bins(m, dt)
    hmax = 1.0
    for h_vec, _ in built:
        hmax *= _hmax(h_vec, f, not fr)
    sens = sum(_sens(h_vec, f, not fr) * hmax / max(_hmax(h_vec, f, not fr), 1e-300) for h_vec, _ in built)
    tol = _tol(m, hmax, _norm((x_ext)), sens=sens)
    if fr:
        refs = [ref_hermitian(x_ext, h_prod(f))]
    else:
        refs = ref_signed(x_ext, h_prod, f)
    errs = [float(np.max(np.abs(y - r[nb:nb + n]))) for r in refs]
    require(min(errs) <= tol, "FunctionSignal with buffers of %d/%d samples and %d filter(s) (force_real=%r): values "
            "differ by %.3g from the product response applied once to the buffered samples and cropped "
            "(tolerance %.3g; n=%d responses %r)", nb, na, len(built), fr, min(errs), tol, n, case["resps"])
    plain = ref_hermitian(x_ext[nb:nb + n], h_prod(_bins(n, dt))) if fr else ref_signed(x_ext[nb:nb + n], h_prod, _bins(n, dt))[0]
    matters = float(np.max(np.abs(plain - refs[0][nb:nb + n]))) > 1e3 * tol
    classes = _grid_classes(n) + ["filters=%d" % len(built), "force_real" if fr else "not_forced"]
    if nb or na:
        classes.append("buffered")
    if matters:
        classes.append("buffer_matters")
    if any(r["style"] != "vec" for r in case["resps"]):
        classes.append("scalar_only")
    nt = n >= 3 and _nonconstant(x_ext) and _nonconstant(h_prod(f)) and (len(built) > 1 or matters)
    rec.case(case, nontrivial=nt, classes=classes)


# ---------------------------------------------------------------------------


_GRID_FLOORS = {"odd_n": 0.18, "n>=1024": 0.065}


# ---------------------------------------------------------------------------
# several filters on one FunctionSignal with DIFFERENT force_real flags: every
# force_real filter is Hermitian-symmetrised on its own, the others are taken as given


@st.composite
def mixed_flag_cases(draw):
    g = draw(grid_specs(max_n=512, dyadic=draw(st.booleans()), min_n=3))
    n = g["n"]
    k = draw(st.sampled_from([2, 2, 3]))
    flags = draw(st.lists(st.booleans(), min_size=k, max_size=k))
    if all(flags) or not any(flags):
        flags[draw(st.integers(0, k - 1))] = not flags[0]
    resps = []
    for fl in flags:
        # a force_real filter may be positive-frequency-only / junk on the negative side;
        # the others must be proper signed responses
        resps.append(draw(response_specs(n, negs=["herm", "even", "zero", "junk"] if fl
                                         else ["herm", "even"])))
    return dict(grid=g, values=draw(value_specs(n, allow_list=n <= 24)), resps=resps, flags=flags)


def check_mixed_flags(case, rec):
    from pyrex.signals import FunctionSignal
    n, times, dt = _grid(case)
    x = build_values(case["values"], n)
    built = [build_response(r, n, case["grid"]["dt"]) for r in case["resps"]]
    sig = FunctionSignal(times, _table_function(float(times[0]), dt, x))
    for (h_vec, fn), fl in zip(built, case["flags"]):
        sig.filter_frequencies(fn, force_real=fl)
    y = read_values(sig, n)
    f = np.fft.fftfreq(2 * n, d=dt)
    H = np.ones(2 * n, dtype=complex)
    hmax = 1.0
    for (h_vec, fn), fl in zip(built, case["flags"]):
        if fl:
            hp = h_vec(np.abs(f))                 # positive-frequency response ...
            h = np.where(f < 0, np.conj(hp), hp)  # ... mirrored by complex conjugation
        else:
            h = h_vec(f)
        H = H * h
        hmax *= max(float(np.max(np.abs(h))), 1e-300)
    ref = np.real(np.fft.ifft(H * np.fft.fft(np.concatenate([x, np.zeros(n)]))))[:n]
    sens = sum(_sens(h_vec, _bins(n, dt), True) for h_vec, _ in built) * hmax
    tol = _tol(n, hmax, _norm(x), sens=sens)
    err = float(np.max(np.abs(y - ref)))
    require(err <= tol, "FunctionSignal with filters force_real=%r: values differ by %.3g from the signal of the "
            "product of the individually Hermitian-symmetrised (where force_real) responses (tolerance %.3g; "
            "n=%d responses %r)", case["flags"], err, tol, n, case["resps"])
    # non-trivial: some force_real response is not Hermitian by itself
    nonherm = any(fl and r["neg"] in ("zero", "junk", "even") and (r["neg"] != "even" or abs(r["gain"][1]) > 0)
                  for r, fl in zip(case["resps"], case["flags"]))
    rec.case(case, nontrivial=n >= 3 and _nonconstant(x) and nonherm,
             classes=_grid_classes(n) + ["filters=%d" % len(built)] + (["nonhermitian_forced"] if nonherm else []))


PROPERTY = Property(
    "C05", "Frequency filtering is linear, real-preserving, passive and free of wrap-around",
    [
        SubCheck("linear_signal", linear_cases(), check_linear, quick=1200, thorough=60000,
                 rule="grid (n 2..4096, dt 1e-10..1 s, offsets) x two value vectors x real a,b x response "
                      "(9 families, complex gain, Hermitian/even/positive-only/junk negative side, vectorised or "
                      "scalar-only) x force_real x Signal/FunctionSignal/sum of FunctionSignals; non-trivial = "
                      "n>=3, a,b != 0, linearly independent non-constant signals, non-constant response",
                 floors=dict(_GRID_FLOORS, scalar_only=0.18, force_real=0.17, **{"kind=function_sum": 0.1})),
        SubCheck("homogeneous_response", homogeneous_cases(), check_homogeneous, quick=1000, thorough=50000,
                 rule="grid x values x response x real factor c (both signs, 1e-3..1e3, 0); non-trivial = n>=3, "
                      "c not in {0,1}, non-constant signal and response",
                 floors=dict(_GRID_FLOORS, scalar_only=0.2, **{"c<0": 0.2})),
        SubCheck("identity", identity_cases(), check_identity, quick=1000, thorough=50000,
                 rule="grid x values (float or int) x unit response in 5 spellings (constant, zero delay, zero "
                      "chirp, table of ones, all-pass brick), vectorised or scalar-only, positive-only when "
                      "force_real; non-trivial = n>=3 and non-constant signal",
                 floors=dict(_GRID_FLOORS, scalar_only=0.28, int_values=0.12, force_real=0.2)),
        SubCheck("grid_offset", offset_cases(), check_offset, quick=1000, thorough=50000,
                 rule="two positions of one grid (dyadic: bit-identical outputs; generic: within the effect of "
                      "the rounding of the step), second position by construction or by shift(); non-trivial = "
                      "n>=3, non-constant signal and response",
                 floors=dict(_GRID_FLOORS, dyadic=0.23, generic=0.25, via_shift=0.18)),
        SubCheck("force_real", reference_cases(), check_force_real, quick=1600, thorough=80000,
                 rule="grid x values x response with force_real=True against irfft(H(f>=0) * rfft(padded)) and, "
                      "for n<=24, a direct cosine sum; non-trivial = n>=3, non-constant signal and response",
                 floors=dict(_GRID_FLOORS, scalar_only=0.2, complex_at_nyquist=0.18, complex_at_dc=0.1, direct_sum=0.2,
                             **{"neg=junk": 0.055, "neg=zero": 0.055})),
        SubCheck("signed_response", reference_cases(), check_signed, quick=1200, thorough=60000,
                 rule="grid x values x response with force_real=False against the Hermitian part of the response "
                      "on signed frequencies (either sign at the Nyquist bin); non-trivial = n>=3, non-constant "
                      "signal and response",
                 floors=dict(_GRID_FLOORS, scalar_only=0.2, not_hermitian=0.2)),
        SubCheck("scalar_twin", twin_cases(), check_twin, quick=800, thorough=40000,
                 rule="one response as vectorised function, as math.*-based scalar function (TypeError on arrays) "
                      "and as branching scalar function (ValueError on arrays): same output; non-trivial = n>=3, "
                      "non-constant signal and response",
                 floors=dict(_GRID_FLOORS, force_real=0.17)),
        SubCheck("constant_response", constant_cases(), check_constant, quick=480, thorough=24000,
                 rule="response functions that return one constant (int/float, complex, numpy scalar, 0-d array) "
                      "whatever they are given; non-trivial = n>=3 and non-constant signal",
                 floors={"attempt_force_real": 0.2, "unit": 0.3}, classify=classify_constant),
        SubCheck("passive", passive_cases(), check_passive, quick=1200, thorough=60000,
                 rule="grid x values x response with max|H|<=1 by construction (checked) x force_real; energy "
                      "never grows; flat gain q gives q^2 (other direction); non-trivial = n>=3, non-constant "
                      "signal, non-constant response with max|H|>0.5",
                 floors=dict(_GRID_FLOORS, scalar_only=0.2, keeps_most_energy=0.08, flat_gain=0.2, force_real=0.18)),
        SubCheck("delay", delay_cases(), check_delay, quick=1600, thorough=80000,
                 rule="whole-sample delays 0..N and advances -N..-1 written as exp(-2 pi i f k dt): samples move, "
                      "zeros come in, nothing wraps; fractional delays of a band-limited Gaussian pulse against "
                      "the analytic pulse; non-trivial = n>=3, k != 0 and a non-zero sample leaves the window, or "
                      "a fractional delay",
                 floors=dict(_GRID_FLOORS, k_near_N=0.17, k_near_0=0.13, advance=0.12, pulse=0.06,
                             pulse_leaves_window=0.02, pulse_cut_by_edge=0.015, rounded_step=0.07,
                             samples_leave_window=0.3, scalar_only=0.15, force_real=0.2)),
        SubCheck("mixed_flags", mixed_flag_cases(), check_mixed_flags, quick=800, thorough=40000,
                 rule="FunctionSignal with 2-3 filters whose force_real flags differ (at least one of each); "
                      "reference = product of the responses, each force_real one mirrored by conjugation on its "
                      "own, applied once (full complex FFT of the 2N-padded samples); non-trivial = a force_real "
                      "response that is not Hermitian by itself",
                 floors={"nonhermitian_forced": 0.3}),
        SubCheck("function_signal", function_cases(), check_function, quick=1000, thorough=50000,
                 rule="FunctionSignal with leading/trailing buffers of whole samples and 1-3 filters against the "
                      "product response applied once to the buffered samples; non-trivial = n>=3 and (several "
                      "filters or buffers that change the result)",
                 floors={"odd_n": 0.2, "buffer_matters": 0.3, "filters=2": 0.2, "force_real": 0.17}),
    ],
    assumptions=[
        "time grids are uniform and ascending with n >= 2 samples (n up to 4096 in the search)",
        "the sampling step is the one the grid itself carries, times[1]-times[0] (Signal.dt)",
        "scalar-only responses raise TypeError or ValueError when given an array (the documented fall-back)",
        "homogeneity in the response is asserted for real factors (a complex factor does not commute with "
        "taking the real part)",
        "whole-sample delays are limited to |k| <= N, the amount the 2N zero-padding guarantees",
        "without force_real the Nyquist bin of the padded transform may be read as +f_N or -f_N",
        "responses are Python functions (objects without __name__ are not exercised)",
    ],
    design_ref="3/C05",
)
