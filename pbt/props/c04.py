"""C04 - signals: alignment, independent copies, pointwise combination (DESIGN 3/C04).

One interpreter (`World`) executes a JSON *history* (initial signal specs followed by a
list of op dicts whose object selectors are integers taken modulo the pool size) against
pyrex and against a shadow model.  Every sub-check of the property is a different
strategy for such histories plus its own non-triviality rule:

  construct        Signal / EmptySignal / GaussianNoise constructor: one value per time
                   sample (pad / truncate), inputs copied
  function_values  FunctionSignal: one value per time sample, equal to the function
  copy             copy() equal and independent, both directions, every class
  add              cross product of operand classes x value types x grid relations
  scale            a*c, c*a, a/c, a*=c, a/=c
  regrid_sampled   with_times of sampled / empty signals (stored value, linear, zero)
  regrid_function  with_times of function-backed signals (exact re-evaluation)
  history          long mixed histories

The shadow of a pool member is what was observed when it was created or last modified on
purpose (times, values, value type).  After EVERY op every member must still equal its
shadow bit for bit (a FunctionSignal is re-evaluated from scratch for that), every array
that was passed to pyrex as an argument must be unchanged, and no two distinct members /
arguments may share a buffer or one of the component lists of a FunctionSignal.  The
result of an op is predicted by the model (pointwise python arithmetic, an own linear
interpolation, evaluation of the harness-defined function) before it is adopted.

Tolerances (all absolute, derived per case):
  * sampled results of +, *, / and copies: 0 (IEEE operations are correctly rounded, the
    model does the same operation element by element with python numbers);
  * sampled re-gridding between samples: 16 eps max(|v_j|,|v_j+1|) (two roundings of the
    slope form vs the convex-combination form); 0 at shared sample times and outside;
  * function-backed values: sum over components of
        amp|F| 16 eps (2+#scalings)        rounding of the factor chain / summation order
      + amp|F| 1e-12 per constant-gain filter (FFT round trip, <= 2*(64+buffer) points)
      + Lip|F| 8 ulp(max|t|,|t0|)          rounding of t - t0 after shifts
    with amp / Lip the amplitude and Lipschitz constant of the harness function; the
    functions only use + - * / abs min max, so numpy and python agree exactly;
  * functions owned by pyrex (thermal noise): 1e-9 of the observed amplitude.
"""

import bisect
import math
import operator

import numpy as np
from hypothesis import strategies as st

from ..core import Property, SubCheck, Violation, require
from ..gens import floats, log_floats, seeds32

EPS = 2.220446049250313e-16
TINY = 1e-290      # absolute floor of every non-zero tolerance (gradual underflow of tiny values)

VT = ["undefined", "voltage", "field", "power"]
SAMPLED_CLASSES = ["Signal", "Empty", "Gauss"]
FUNCTION_CLASSES = ["Function", "FullNoise", "FFTNoise", "ZHS"]
ALL_CLASSES = SAMPLED_CLASSES + FUNCTION_CLASSES
FN_KINDS = ["const", "lorentz", "tri", "rat", "lin"]

F4_KEY = "FunctionSignal.with_times keeps the caller's new_times object"
N1_KEY = "FunctionSignal.values on a 1-sample grid: TypeError (dt is None)"


# ---------------------------------------------------------------------------
# value types


def vt_canon(v):
    if v is None or v["form"] == "none" or v["t"] in ("undefined", "unknown"):
        return "undefined"
    return v["t"]


def vt_build(v):
    from pyrex.signals import Signal
    if v is None or v["form"] == "none":
        return None
    if v["form"] == "enum":
        return getattr(Signal.Type, v["t"])
    if v["form"] == "int":
        return VT.index(vt_canon(v))
    return v["t"]


@st.composite
def vt_specs(draw):
    t = draw(st.sampled_from(["undefined", "undefined", "unknown", "voltage", "voltage",
                              "voltage", "field", "field", "power"]))
    form = draw(st.sampled_from(["enum", "name", "int"] + (["none"] if t == "undefined" else [])))
    return {"form": form, "t": t}


# ---------------------------------------------------------------------------
# grids (specs -> numpy arrays, strictly increasing by construction)


def grid_len(g, grids=None):
    k = g["k"]
    if k in ("uni", "dy"):
        return g["n"]
    if k in ("inc", "int"):
        return len(g["d"]) + 1
    raise ValueError(k)


def grid_array(g, resolved):
    k = g["k"]
    if k == "uni":
        return g["t0"] + g["dt"] * np.arange(g["n"])
    if k == "dy":
        return (g["m"] + np.arange(g["n"])) * 2.0 ** g["e"]
    if k == "inc":
        return g["s"] * (g["t0"] + np.concatenate(([0.0], np.cumsum(g["d"]))))
    if k == "int":
        return np.cumsum([g["t0"]] + list(g["d"])).astype(np.int64)
    if k == "var":
        base = resolved[g["of"]]
        n = len(base)
        var = g["var"]
        if var == "same" or n == 0:
            return base.copy()
        if var == "asfloat":
            return base.astype(float)
        step = (base[1] - base[0]) if n > 1 else 1
        if var == "ulp":
            a = base.astype(float)
            p = g["pos"] % n
            a[p] = np.nextafter(a[p], np.inf)
            return a
        if var == "drop":
            return base[:-1].copy()
        if var == "extra":
            return np.concatenate((base, [base[-1] + step]))
        if var == "shift":
            return base + step
    raise ValueError("grid kind %r" % (k,))


def is_uniform_grid(g):
    return g["k"] in ("uni", "dy") or (g["k"] == "int" and len(set(g["d"])) <= 1)


def _sizes(min_n, max_n):
    small = [n for n in (0, 1, 2, 3) if min_n <= n <= max_n]
    opts = [st.integers(min_n, max_n)]
    if small:
        opts.append(st.sampled_from(small))
    return st.one_of(*opts)


@st.composite
def grid_specs(draw, kinds, min_n=0, max_n=24):
    kind = draw(st.sampled_from(kinds))
    n = draw(_sizes(min_n, max_n))
    if kind == "phys":
        n = max(n, 4)
        return {"k": "uni", "n": n, "dt": draw(st.sampled_from([0.25e-9, 0.5e-9, 1e-9, 2e-9])),
                "t0": draw(floats(-50.0, 50.0)) * 1e-9, "phys": True}
    if kind == "uni":
        dt = draw(log_floats(1e-10, 1.0))
        t0 = draw(st.one_of(st.just(0.0), floats(-1e3, 1e3).map(lambda x: x * dt),
                            floats(-1e-6, 1e-6)))
        return {"k": "uni", "n": n, "dt": dt, "t0": t0}
    if kind in ("dy", "dyhuge", "dymid"):
        lim = {"dy": 10 ** 6, "dymid": 2 ** 20, "dyhuge": 2 ** 45}[kind]
        m = draw(st.integers(-lim, lim))
        if kind == "dyhuge":
            m = draw(st.sampled_from([-1, 1])) * (2 ** 44 + abs(m) // 2)
        return {"k": "dy", "n": n, "e": draw(st.integers(-34, 3)), "m": m}
    if kind == "inc":
        n = max(n, 1)
        return {"k": "inc", "t0": draw(floats(-1e3, 1e3)), "s": draw(log_floats(1e-9, 1e2)),
                "d": draw(st.lists(floats(0.01, 10.0), min_size=n - 1, max_size=n - 1))}
    if kind == "int":
        n = max(n, 1)
        return {"k": "int", "t0": draw(st.integers(-10 ** 6, 10 ** 6)),
                "d": draw(st.lists(st.integers(1, 5), min_size=n - 1, max_size=n - 1))}
    if kind == "iuni":
        n = max(n, 1)
        return {"k": "int", "t0": draw(st.integers(-10 ** 6, 10 ** 6)),
                "d": [draw(st.integers(1, 4))] * (n - 1)}
    raise ValueError(kind)


# ---------------------------------------------------------------------------
# harness-defined functions (only exactly rounded operations)


@st.composite
def fn_specs(draw, kinds=FN_KINDS):
    return {"k": draw(st.sampled_from(kinds)),
            "a": draw(st.one_of(st.sampled_from([1.0, -2.0, 0.5]),
                                st.builds(operator.mul, st.sampled_from([1.0, -1.0]),
                                          log_floats(1e-3, 1e3)))),
            "mu": draw(floats(-0.5, 1.5)), "w": draw(floats(0.5, 20.0)),
            "vec": draw(st.sampled_from([True, True, False])),
            "exc": draw(st.sampled_from(["TypeError", "ValueError"]))}


def make_component(fn, arr):
    """Resolve a function spec against the grid it is created on."""
    n = len(arr)
    first = float(arr[0])
    dt = float(arr[1] - arr[0]) if n >= 2 else 1.0
    span = float(arr[-1] - arr[0]) if n >= 2 else dt
    m = first + fn["mu"] * span
    s = fn["w"] * dt
    a = float(fn["a"])
    k = fn["k"]
    vec = fn["vec"]
    exc = TypeError if fn["exc"] == "TypeError" else ValueError

    def core(u):
        if k == "const":
            return a + 0.0 * u
        z = (u - m) / s
        if k == "lorentz":
            return a / (1.0 + z * z)
        if k == "tri":
            return a * np.maximum(0.0, 1.0 - np.abs(z))
        if k == "rat":
            return a * z / (1.0 + z * z)
        return a * np.minimum(1.0, np.maximum(-1.0, z))

    def f(t):
        if not vec and np.ndim(t) != 0:
            raise exc("this function only accepts scalars")
        return core(t)

    lip = {"const": 0.0, "lorentz": 0.65, "tri": 1.0, "rat": 1.0, "lin": 1.0}[k] * abs(a) / s
    return {"f": f, "vec": vec, "t0": 0.0, "F": 1.0, "amp": abs(a), "lip": lip,
            "nops": 0, "nflt": 0, "mode": "local", "const": k == "const"}


def eval_comps(comps, T):
    """Model value of a function-backed signal at times T: sum F f(T - t0); abs. tolerance."""
    T = np.asarray(T)
    total = np.zeros(len(T))
    tol = 0.0
    tmax = float(np.max(np.abs(T))) if len(T) else 0.0
    for c in comps:
        if c["mode"] == "nonlocal":
            return None, None
        arg = T - c["t0"]
        if c["vec"]:
            v = np.asarray(c["f"](arg), dtype=float)
        else:
            v = np.array([float(c["f"](x)) for x in arg], dtype=float)
        v = v * c["F"]
        total = total + v
        if c["mode"] == "opaque":
            big = max(float(np.max(np.abs(v))) if len(v) else 0.0, c["amp"] * abs(c["F"]))
            tol += 1e-9 * big
        else:
            B = c["amp"] * abs(c["F"])
            tol += B * 16 * EPS * (2 + c["nops"]) + (B * 1e-12 * c["nflt"])
            tol += c["lip"] * abs(c["F"]) * 8 * math.ulp(max(tmax, abs(c["t0"]), 1e-300))
    return total, tol + TINY


def bound_of(sh):
    """Upper bound of sum |component values| of a function-backed shadow: amplitude x |factor|
    for harness functions; functions owned by pyrex (noise, Askaryan) have no known amplitude,
    so 4 x the largest value currently observed is used for them."""
    b = sum(c["amp"] * abs(c["F"]) for c in sh.comps if c["mode"] == "local")
    if any(c["mode"] != "local" for c in sh.comps) and len(sh.values):
        b += 4 * float(np.max(np.abs(sh.values)))
    return b


# ---------------------------------------------------------------------------
# pointwise python arithmetic, own interpolation


def pw(op, A, B):
    A = np.asarray(A).tolist()
    if np.ndim(B) == 0:
        b = B.item() if isinstance(B, np.generic) else B
        return np.array([op(x, b) for x in A]) if A else np.zeros(0)
    B = np.asarray(B).tolist()
    return np.array([op(x, y) for x, y in zip(A, B)]) if A else np.zeros(0)


def ref_interp(T, V, X):
    """Stored value at shared times, linear between samples, zero outside; tolerances."""
    T = np.asarray(T).tolist()
    V = [float(v) for v in np.asarray(V).tolist()]
    out, tol, cls = [], [], []
    for x in np.asarray(X).tolist():
        if x < T[0] or x > T[-1]:
            out.append(0.0), tol.append(0.0), cls.append("outside")
            continue
        j = bisect.bisect_right(T, x) - 1
        if T[j] == x:
            out.append(V[j]), tol.append(0.0), cls.append("shared")
            continue
        w = (x - T[j]) / (T[j + 1] - T[j])
        out.append((1.0 - w) * V[j] + w * V[j + 1])
        tol.append(16 * EPS * max(abs(V[j]), abs(V[j + 1])) + TINY)
        cls.append("between" if V[j] != V[j + 1] else "between_flat")
    return np.array(out, dtype=float), np.array(tol, dtype=float), cls


def same_times(A, B):
    A, B = np.asarray(A), np.asarray(B)
    return A.shape == B.shape and all(x == y for x, y in zip(A.tolist(), B.tolist()))


def container(arr, how):
    if how == "array":
        return np.array(arr)
    if how == "tuple":
        return tuple(np.asarray(arr).tolist())
    return np.asarray(arr).tolist()


def scalar(c, ct, for_div=False):
    if ct in ("int", "npint"):
        c = int(round(max(-3.0, min(3.0, c))))   # int64 cannot overflow within 30 ops
        if for_div and c == 0:
            c = 1
        return np.int64(c) if ct == "npint" else c
    c = float(c)
    if for_div and c == 0.0:
        c = 1.0
    return np.float64(c) if ct == "np" else c


# ---------------------------------------------------------------------------
# shadow model and interpreter


class Sh:
    def __init__(self, kind, times, values, vt, comps=None):
        self.kind = kind            # sampled | empty | function
        self.times = np.array(times)
        self.values = np.array(values)
        self.vt = vt
        self.comps = [dict(c) for c in comps] if comps else []

    def derive(self, **kw):
        s = Sh(self.kind, self.times, self.values, self.vt, self.comps)
        for k, v in kw.items():
            setattr(s, k, v)
        return s


class Member:
    def __init__(self, obj, sh, cls):
        self.obj = obj
        self.sh = sh
        self.cls = cls
        self.relatives = set()    # indices of members it was derived from / that derive from it


try:
    from numpy.lib.array_utils import byte_bounds
except ImportError:                                    # numpy < 2
    from numpy import byte_bounds


def fresh_values(obj):
    """Values computed from the current state (a FunctionSignal caches them)."""
    if hasattr(obj, "_clear_cache"):
        obj._clear_cache()
    return obj.values


LISTS = ("_functions", "_t0s", "_buffers", "_factors", "_filters")


def component_lists(obj):
    out = []
    for name in LISTS:
        lst = getattr(obj, name, None)
        if isinstance(lst, list):
            out.append((name, lst))
            if name in ("_buffers", "_filters"):
                out.extend((name + "[%d]" % i, x) for i, x in enumerate(lst)
                           if isinstance(x, list))
    return out


class World:
    def __init__(self, case):
        self.case = case
        self.members = []
        self.args = []          # [obj, snapshot(list), label]
        self.classes = set()
        self.flags = set()
        self.grids = []
        for g in case["grids"]:
            self.grids.append(grid_array(g, self.grids))
        self.step = "init"

    # -- bookkeeping --------------------------------------------------------

    def klass(self, *names):
        self.classes.update(names)

    def register_arg(self, obj, label):
        if isinstance(obj, (np.ndarray, list)):
            self.args.append([obj, np.asarray(obj).tolist(), label])
        return obj

    def pick(self, i):
        return self.members[i % len(self.members)] if self.members else None

    def index(self, mem):
        return self.members.index(mem)

    # -- invariants ---------------------------------------------------------

    def observe(self, obj, what):
        from pyrex.signals import Signal
        require(isinstance(obj, Signal), "%s: %r is not a Signal", what, type(obj))
        t = obj.times
        require(isinstance(t, np.ndarray) and t.ndim == 1,
                "[times-not-ndarray] %s: times is %s, not a 1-d ndarray (step %s)",
                what, type(t).__name__, self.step)
        v = fresh_values(obj)
        require(isinstance(v, np.ndarray) and v.ndim == 1,
                "%s: values is %s, not a 1-d ndarray (step %s)", what, type(v).__name__,
                self.step)
        require(len(v) == len(t), "[align] %s: %d values for %d times (step %s)",
                what, len(v), len(t), self.step)
        vt = obj.value_type
        require(isinstance(vt, Signal.Type), "%s: value_type %r is not a Signal.Type", what, vt)
        return t, v, vt.name

    def check_all(self):
        for i, m in enumerate(self.members):
            what = "member #%d (%s)" % (i, m.cls)
            t, v, vt = self.observe(m.obj, what)
            require(same_times(t, m.sh.times),
                    "[changed] %s: times changed behind its back after step %s: %r -> %r",
                    what, self.step, m.sh.times.tolist()[:6], t.tolist()[:6])
            require(v.shape == m.sh.values.shape and bool(np.all(v == m.sh.values)),
                    "[changed] %s: values changed behind its back after step %s: %r -> %r",
                    what, self.step, m.sh.values.tolist()[:6], v.tolist()[:6])
            require(vt == m.sh.vt, "[changed] %s: value type changed after step %s: %s -> %s",
                    what, self.step, m.sh.vt, vt)
        for k, (obj, snap, label) in enumerate(self.args):
            require(np.asarray(obj).tolist() == snap,
                    "[arg-changed] argument %s was modified by pyrex (step %s): %r -> %r",
                    label, self.step, snap[:6], np.asarray(obj).tolist()[:6])
        spans = []
        for i, m in enumerate(self.members):
            for name in ("times", "values"):
                x = getattr(m.obj, name)
                if x.size:
                    lo, hi = byte_bounds(x)
                    spans.append((lo, hi, "member #%d (%s).%s" % (i, m.cls, name), x))
        for obj, snap, label in self.args:
            if isinstance(obj, np.ndarray) and obj.size:
                lo, hi = byte_bounds(obj)
                spans.append((lo, hi, "the argument " + label, obj))
        spans.sort(key=lambda s: (s[0], s[1]))
        for a in range(len(spans)):
            b = a + 1
            while b < len(spans) and spans[b][0] < spans[a][1]:
                if np.shares_memory(spans[a][3], spans[b][3]):
                    tag = "[alias-arg]" if "argument" in spans[a][2] + spans[b][2] else "[shared-buffer]"
                    raise Violation("%s %s and %s share memory (step %s)"
                                    % (tag, spans[a][2], spans[b][2], self.step))
                b += 1
        seen = {}
        for i, m in enumerate(self.members):
            for name, lst in component_lists(m.obj):
                if id(lst) in seen and seen[id(lst)][0] != i:
                    j, other = seen[id(lst)]
                    raise Violation("[shared-list] member #%d.%s is the same list object as "
                                    "member #%d.%s (step %s)" % (i, name, j, other, self.step))
                seen[id(lst)] = (i, name)

    def admit(self, obj, pred, tol, cls, parents=(), what="result"):
        """Check a new object against the model's prediction and add it to the pool."""
        from pyrex.signals import EmptySignal, FunctionSignal
        for i, m in enumerate(self.members):
            require(obj is not m.obj, "[same-object] %s of step %s is member #%d itself",
                    what, self.step, i)
        t, v, vt = self.observe(obj, what)
        require(same_times(t, pred.times), "%s (step %s): times %r, expected %r", what,
                self.step, t.tolist()[:8], pred.times.tolist()[:8])
        require(vt == pred.vt, "%s (step %s): value type %s, expected %s", what, self.step,
                vt, pred.vt)
        require(isinstance(obj, FunctionSignal) == (pred.kind == "function"),
                "%s (step %s): class %s but the documented result is %s", what, self.step,
                type(obj).__name__,
                "function-backed" if pred.kind == "function" else "sampled")
        if pred.values is not None:
            self.compare(v, pred.values, tol, what)
        if pred.kind == "function":
            self.check_function_values(t, v, pred.comps, what)
        kind = pred.kind
        if kind != "function":
            kind = "empty" if isinstance(obj, EmptySignal) else "sampled"
        mem = Member(obj, Sh(kind, t, v, vt, pred.comps), cls)
        self.members.append(mem)
        k = len(self.members) - 1
        for p in parents:
            mem.relatives.add(p)
            self.members[p].relatives.add(k)
        return mem

    def compare(self, v, expected, tol, what):
        expected = np.asarray(expected)
        require(v.shape == expected.shape, "[align] %s (step %s): %d values, expected %d",
                what, self.step, len(v), len(expected))
        if len(v) == 0:
            return
        err = np.abs(v - expected)
        bad = err > tol
        if np.any(bad):
            k = int(np.argmax(bad))
            raise Violation("%s (step %s): value[%d] = %r, model %r (|diff| %.3g > tol %.3g)"
                            % (what, self.step, k, float(v[k]), float(expected[k]),
                               float(err[k]), float(np.max(np.broadcast_to(tol, err.shape)[k]))))

    def check_function_values(self, t, v, comps, what):
        model, tol = eval_comps(comps, t)
        if model is None:
            self.klass("nonlocal_function")
            return
        self.compare(v, model, tol, what + " [sum F f(t-t0)]")

    def resync(self, mem, what):
        t, v, vt = self.observe(mem.obj, what)
        mem.sh.times, mem.sh.values, mem.sh.vt = np.array(t), np.array(v), vt

    def touched(self, mem):
        if mem.relatives:
            self.flags.add("mutate_after_derive")

    # -- construction -------------------------------------------------------

    def new(self, spec):
        import pyrex.signals as ps
        arr = self.grids[spec["g"] % len(self.grids)]
        n = len(arr)
        cls = spec["cls"]
        tin = self.register_arg(container(arr, spec["tas"]), "times(%s)" % spec["tas"])
        self.klass("n=%s" % (n if n < 3 else "3+"), "times_" + spec["tas"], "new:" + cls)
        if arr.dtype.kind == "i":
            self.klass("int_times")
        if n and float(np.max(np.abs(arr))) > 2 ** 40 * abs(float(arr[-1] - arr[0]) + 1e-300):
            self.klass("huge_times")
        if n and arr[0] < 0:
            self.klass("negative_times")
        vt = vt_canon(spec.get("vt"))
        if cls == "Signal":
            data = spec["vals"]["data"]
            m = len(data)
            vin = self.register_arg(container(np.array(data, dtype=(np.int64 if spec["vals"]["int"]
                                                                   else float)),
                                              spec["vals"]["as"]), "values(%s)" % spec["vals"]["as"])
            self.klass("pad" if m < n else ("truncate" if m > n else "equal_len"),
                       "values_" + spec["vals"]["as"])
            if spec["vals"]["int"]:
                self.klass("int_values")
            obj = ps.Signal(tin, vin, vt_build(spec.get("vt")))
            expected = [float(x) if m < n else x for x in data[:n]] + [0.0] * max(0, n - m)
            pred = Sh("sampled", arr, np.array(expected) if expected else np.zeros(0), vt)
            return self.admit(obj, pred, 0.0, cls, what="Signal(...)")
        if cls == "Empty":
            obj = ps.EmptySignal(tin, vt_build(spec.get("vt")))
            return self.admit(obj, Sh("empty", arr, np.zeros(n), vt), 0.0, cls,
                              what="EmptySignal(...)")
        if cls == "Gauss":
            np.random.seed(spec["seed"])
            obj = ps.GaussianNoise(tin, spec["sigma"])
            pred = Sh("sampled", arr, np.zeros(n), "voltage")
            pred.values = None
            return self.admit(obj, pred, 0.0, cls, what="GaussianNoise(...)")
        if cls == "Function":
            comp = make_component(spec["fn"], arr)
            obj = ps.FunctionSignal(tin, comp["f"], vt_build(spec.get("vt")))
            self.klass("vectorised" if comp["vec"] else "scalar_only")
            pred = Sh("function", arr, np.zeros(n), vt, [comp])
            pred.values = None
            mem = self.admit(obj, pred, 0.0, cls, what="FunctionSignal(...)")
            if n and not bool(np.all(mem.sh.values == mem.sh.values[0])):
                self.flags.add("nonconstant_function")
            return mem
        np.random.seed(spec["seed"])
        if cls in ("FullNoise", "FFTNoise"):
            klass = ps.FullThermalNoise if cls == "FullNoise" else ps.FFTThermalNoise
            obj = klass(tin, tuple(spec["band"]), rms_voltage=spec["rms"])
            mode, vt = "opaque", "voltage"
        else:
            from pyrex.particle import Particle
            from pyrex.askaryan import ZHSAskaryanSignal
            p = Particle("nu_e", vertex=(0.0, 0.0, -500.0), direction=(0.0, 0.0, 1.0),
                         energy=spec["energy"], interaction_type="cc")
            obj = ZHSAskaryanSignal(tin, p, spec["angle"], spec["dist"],
                                    t0=float(arr[0]) + spec["mu"] * float(arr[-1] - arr[0]))
            mode, vt = "nonlocal", "field"
        v0 = np.array(fresh_values(obj))
        # FFTThermalNoise is periodic with period (n-1) dt: its last sample sits on the wrap-around
        # point, so "values move with the times" is not asserted across a rounding of t - t0
        comp = {"smooth": cls == "FullNoise", "f": obj._functions[0], "vec": True, "t0": 0.0, "F": 1.0,
                "amp": 4 * float(np.max(np.abs(v0))) if len(v0) else 0.0, "lip": 0.0,
                "nops": 0, "nflt": 0, "mode": mode, "const": False}
        pred = Sh("function", arr, v0, vt, [comp])
        pred.values = None
        return self.admit(obj, pred, 0.0, cls, what=cls + "(...)")

    # -- ops ----------------------------------------------------------------

    def run(self, op):
        self.step = "%s" % (op,)
        name = op["op"]
        if name == "new":
            self.new(op["spec"])
        elif not self.members:
            self.klass("skipped")
            return
        else:
            getattr(self, "op_" + name)(op)
        self.klass("op:" + name)
        self.check_all()

    def op_copy(self, op):
        m = self.pick(op["i"])
        res = m.obj.copy()
        self.klass("copy:" + m.cls, "copy_kind:" + m.sh.kind)
        self.admit(res, m.sh.derive(), 0.0, m.cls + ".copy", parents=[self.index(m)],
                   what="copy of member #%d (%s)" % (self.index(m), m.cls))

    def model_add(self, a, b):
        """(prediction, tolerance) or the string naming why the sum must be refused."""
        if not same_times(a.times, b.times):
            return "grid"
        if a.vt != "undefined" and b.vt != "undefined" and a.vt != b.vt:
            return "type"
        vt = b.vt if a.vt == "undefined" else a.vt
        values = pw(operator.add, a.values, b.values)
        # documented classes: an EmptySignal on the left returns a copy of the other operand;
        # two function-backed signals (or function + empty) stay function-backed;
        # everything else is evaluated into a plain Signal
        if a.kind == "function" and b.kind in ("function", "empty"):
            kind, comps = "function", a.comps + (b.comps if b.kind == "function" else [])
        elif a.kind == "empty":
            kind, comps = b.kind, b.comps
        else:
            kind, comps = "sampled", []
        tol = 0.0
        if kind == "function":
            bound = bound_of(a) + bound_of(b)
            tol = (16 * EPS * bound * len(comps) + 1e-12 * bound * sum(c["nflt"] for c in comps)
                   + TINY)
        return Sh(kind, a.times, values, vt, comps), tol

    def op_add(self, op):
        a, b = self.pick(op["i"]), self.pick(op["j"])
        self.klass("A:" + a.cls.split(".")[0], "B:" + b.cls.split(".")[0],
                   "pair:%s+%s" % (a.sh.kind, b.sh.kind))
        out = self.model_add(a.sh, b.sh)
        if isinstance(out, str):
            try:
                res = a.obj + b.obj
            except ValueError:
                self.klass("refused_" + out)
                return
            raise Violation("sum of member #%d (%s, %s) and #%d (%s, %s) was accepted although "
                            "the %s differ: times %r vs %r" %
                            (self.index(a), a.cls, a.sh.vt, self.index(b), b.cls, b.sh.vt,
                             "time grids" if out == "grid" else "value types",
                             a.sh.times.tolist()[:5], b.sh.times.tolist()[:5]))
        pred, tol = out
        res = a.obj + b.obj
        self.klass("accepted")
        if (a.sh.vt == "undefined") != (b.sh.vt == "undefined"):
            self.klass("coerced")
        if a.sh.kind != b.sh.kind or a.cls != b.cls:
            self.klass("mixed_class")
            self.flags.add("mixed_add")
        if len(pred.values) and bool(np.any(a.sh.values != 0)) and bool(np.any(b.sh.values != 0)):
            self.flags.add("nonzero_add")
        self.admit(res, pred, tol, "sum", parents=[self.index(a), self.index(b)],
                   what="member #%d (%s) + member #%d (%s)" % (self.index(a), a.cls,
                                                              self.index(b), b.cls))

    def op_sum(self, op):
        mems = [self.pick(i) for i in op["idx"]]
        acc, tol, why = mems[0].sh, 0.0, None
        for m in mems[1:]:
            out = self.model_add(acc, m.sh)
            if isinstance(out, str):
                why = out
                break
            acc, t = out
            tol += t
        if why is not None:
            try:
                sum(m.obj for m in mems)
            except ValueError:
                self.klass("sum_refused")
                return
            raise Violation("sum() over members %r accepted although the %s differ" %
                            ([self.index(m) for m in mems], why))
        res = sum(m.obj for m in mems)
        if len(mems) == 1:
            require(res is mems[0].obj, "sum([a]) did not return a itself")
            self.klass("sum_single")
            return
        self.klass("sum_many")
        self.admit(res, acc, tol, "sum", parents=[self.index(m) for m in mems],
                   what="sum() over members %r" % ([self.index(m) for m in mems],))

    def op_radd0(self, op):
        m = self.pick(op["i"])
        zero = {"int": 0, "float": 0.0, "bool": False}[op["zero"]]
        res = zero + m.obj
        require(res is m.obj, "%r + signal returned %r, not the signal itself", zero, res)

    def op_addbad(self, op):
        """Only the additive identity 0 may stand in for a signal."""
        m = self.pick(op["i"])
        other = op["other"]
        for left in (True, False):
            try:
                res = (other + m.obj) if left else (m.obj + other)
            except TypeError:
                continue
            raise Violation("%s with the non-signal %r returned %r instead of being a TypeError"
                            % ("radd" if left else "add", other, res))

    def scale_values(self, sh, c, div):
        return pw(operator.truediv if div else operator.mul, sh.values, c)

    def scaled(self, sh, c, div):
        comps = [dict(k) for k in sh.comps]
        for k in comps:
            k["F"] = k["F"] / float(c) if div else k["F"] * float(c)
            k["nops"] += 1
        pred = sh.derive(values=self.scale_values(sh, c, div), comps=comps)
        tol = 0.0
        if sh.kind == "function":
            bound = bound_of(sh) / abs(float(c)) if div else bound_of(sh) * abs(float(c))
            tol = (16 * EPS * bound * (len(comps) + 1)
                   + 1e-12 * bound * sum(k["nflt"] for k in comps) + TINY)
        else:
            pred.kind = "sampled"
        if any(k["mode"] == "nonlocal" and k["nflt"] for k in comps):
            # a filtered Askaryan pulse is evaluated over its buffer, where it can be orders of
            # magnitude larger than inside the window: FFT rounding is not bounded by the
            # observed values, so only alignment / independence are decided here
            pred.values = None
        return pred, tol

    def op_scale(self, op):
        m = self.pick(op["i"])
        how = op["how"]
        div = how in ("div", "idiv")
        c = scalar(op["c"], op["ct"], for_div=div)
        self.klass("scale:" + how, "ct:" + op["ct"], "scale_kind:" + m.sh.kind)
        if c == 0:
            self.klass("c=0")
        elif c < 0:
            self.klass("c<0")
        if len(m.sh.values) and bool(np.any(m.sh.values != 0)) and c not in (0, 1):
            self.flags.add("real_scaling")
        pred, tol = self.scaled(m.sh, c, div)
        what = "member #%d (%s) %s %r" % (self.index(m), m.cls, how, c)
        if how in ("imul", "idiv"):
            res = operator.itruediv(m.obj, c) if div else operator.imul(m.obj, c)
            if res is m.obj:
                self.klass("inplace")
                t, v, vt = self.observe(m.obj, what)
                if pred.values is not None:
                    self.compare(v, pred.values, tol, what)
                if m.sh.kind == "function":
                    self.check_function_values(t, v, pred.comps, what)
                m.sh.comps = pred.comps
                self.resync(m, what)
                self.touched(m)
                return
            self.klass("rebound")
        elif how == "rmul":
            res = c * m.obj
        elif how == "mul":
            res = m.obj * c
        else:
            res = m.obj / c
        self.admit(res, pred, tol, m.cls + ".scaled", parents=[self.index(m)], what=what)

    def op_shift(self, op):
        m = self.pick(op["i"])
        T = m.sh.times
        unit = (T[1] - T[0]) if len(T) >= 2 else 1
        if T.dtype.kind == "i":
            d = int(round(op["d"])) * int(unit)
        else:
            d = float(op["d"]) * float(unit)
        what = "member #%d (%s) shifted by %r" % (self.index(m), m.cls, d)
        m.obj.shift(d)
        t, v, vt = self.observe(m.obj, what)
        require(same_times(t, pw(operator.add, T, d)), "%s: times %r, expected %r", what,
                t.tolist()[:6], pw(operator.add, T, d).tolist()[:6])
        if m.sh.kind == "function":
            comps = [dict(k) for k in m.sh.comps]
            tol = TINY
            for k in comps:
                k["t0"] = k["t0"] + d
                tol += k["lip"] * abs(k["F"]) * 8 * math.ulp(max(float(np.max(np.abs(t))), abs(k["t0"]), 1e-300))
                tol += 16 * EPS * k["amp"] * abs(k["F"])
            if any(k["mode"] != "local" for k in comps):
                tol += 1e-9 * bound_of(m.sh)
            if all(k.get("smooth", True) for k in comps):
                self.compare(v, m.sh.values, tol, what + " [values move with the times]")
            self.check_function_values(t, v, comps, what)
            m.sh.comps = comps
        else:
            self.compare(v, m.sh.values, 0.0, what)
        self.klass("shift_kind:" + m.sh.kind)
        self.resync(m, what)
        self.touched(m)

    def op_filter(self, op):
        m = self.pick(op["i"])
        if m.sh.kind != "function" or len(m.sh.times) < 2:
            # a filter needs a sampling rate (fftfreq of a 1-sample signal is undefined: C05)
            self.klass("skipped")
            return
        g = float(op["g"])
        what = "member #%d (%s) filtered with constant gain %r" % (self.index(m), m.cls, g)
        if op.get("scalar"):
            m.obj.filter_frequencies(lambda f: g)
        else:
            m.obj.filter_frequencies(lambda f: g + 0.0 * f)
        comps = [dict(k) for k in m.sh.comps]
        for k in comps:
            k["F"] = k["F"] * g
            k["nflt"] += 1
        t, v, vt = self.observe(m.obj, what)
        bound = bound_of(m.sh) * abs(g)
        if all(k["mode"] != "nonlocal" for k in comps):      # see `scaled` for the exception
            self.compare(v, pw(operator.mul, m.sh.values, g),
                         (16 * EPS * len(comps) + 1e-12 * sum(k["nflt"] for k in comps)) * bound
                         + 1e-9 * bound * any(k["mode"] != "local" for k in comps) + TINY, what)
        self.check_function_values(t, v, comps, what)
        m.sh.comps = comps
        self.klass("filtered")
        self.resync(m, what)
        self.touched(m)

    def target(self, T, how, kind):
        """New time array for a re-gridding op, from the member's current times."""
        n = len(T)
        is_int = T.dtype.kind == "i"
        unit = (T[1] - T[0]) if n >= 2 else (1 if is_int else 1.0)
        k = how["k"]
        min_n = 2 if kind == "function" else 1
        if kind == "function" and k in ("mix", "empty"):
            how = {"k": "sub", "lo": how.get("lo", 1), "len": how.get("len", 5), "step": 1,
                   "frac": how.get("frac", 0.5)}
            k = "sub"
        if k == "empty":
            return np.zeros(0), "empty_target"
        if k == "same":
            return T.copy(), "same_grid"
        if k == "sub":
            lo = how["lo"] % n
            if n - lo < min_n:
                lo = max(0, n - min_n)
            idx = list(range(lo, n, how["step"]))
            if len(idx) < min_n:
                idx = list(range(lo, n))
            idx = idx[:max(min_n, 1 + how["len"] % len(idx))]
            frac = how["frac"]
            if frac and idx[-1] == n - 1:
                if len(idx) > min_n:
                    idx = idx[:-1]
                else:
                    frac = 0.0
            if frac:
                return np.array([T[i] + frac * (T[i + 1] - T[i]) for i in idx]), "sub_between"
            return T[idx].copy(), "sub_shared"
        if k == "super":
            left = [T[0] - unit * j for j in range(how["l"], 0, -1)]
            right = [T[-1] + unit * j for j in range(1, how["r"] + 1)]
            return np.concatenate((left, T, right)).astype(T.dtype), "super"
        if k == "disjoint":
            mm = max(how["m"], min_n)
            gap = how["gap"] if not is_int else max(1, int(round(how["gap"])))
            if how["side"] == "r":
                start = T[-1] + gap * unit
            else:
                start = T[0] - gap * unit - (mm - 1) * unit
            return np.array([start + j * unit for j in range(mm)]), "disjoint"
        if k == "fracshift":
            return np.array([t + how["frac"] * unit for t in T.tolist()]), "fracshift"
        if k == "mix":
            pts = []
            for p in how["pts"]:
                i, w = p["i"], p["w"]
                if w < 0:
                    pts.append(float(T[0]) - (i % 5 + 1) * 0.7 * float(unit))
                elif w > 1:
                    pts.append(float(T[-1]) + (i % 5 + 1) * 0.7 * float(unit))
                elif n == 1 or w == 0:
                    pts.append(float(T[i % n]))
                else:
                    j = i % (n - 1)
                    pts.append(float(T[j]) + w * float(T[j + 1] - T[j]))
            return np.array(sorted(set(pts))), "mix"
        raise ValueError(k)

    def op_regrid(self, op):
        m = self.pick(op["i"])
        sh = m.sh
        if len(sh.times) < (2 if sh.kind == "function" else 1):
            self.klass("skipped")
            return
        new, label = self.target(sh.times, op["how"], sh.kind)
        how_in = op["as"]
        private = sh.kind == "function" and self.case.get("fs_private_arg", False)
        arg = container(new, "array" if private else how_in)
        if not private:
            self.register_arg(arg, "new_times(%s)" % how_in)
        what = "member #%d (%s).with_times(%s %s)" % (self.index(m), m.cls, label, how_in)
        res = m.obj.with_times(arg)
        if not private:
            require(res.times is not arg,
                    "[alias-arg] %s: the result's times IS the caller's %s object", what,
                    type(arg).__name__)
        self.klass("regrid:" + label, "regrid_kind:" + sh.kind, "arg_" + how_in,
                   "regrid_cls:" + m.cls.split(".")[0])
        if len(sh.times) <= 2:
            self.klass("short_source")
        if sh.kind == "function":
            model, tol = eval_comps(sh.comps, new)
            pred = sh.derive(times=new, values=model)
            lo, hi = sh.times[0], sh.times[-1]
            if len(new):
                inside = bool(new[0] >= lo and new[-1] <= hi)
                self.klass("contained" if inside else "not_contained")
                if model is not None:
                    out = (new < lo) | (new > hi)
                    if bool(np.any(model[out] != 0)):
                        self.flags.add("nonzero_outside")
                    lin, _, cl = ref_interp(sh.times, sh.values, new)
                    btw = np.array([c.startswith("between") for c in cl])
                    if bool(np.any(np.abs(model - lin)[btw] > 1e3 * (tol + 1e-300))):
                        self.flags.add("differs_from_interpolation")
            if len(sh.comps) > 1:
                self.klass("multi_component")
            if any(k["t0"] != 0 for k in sh.comps):
                self.klass("shifted_before")
            if any(k["F"] != 1 for k in sh.comps):
                self.klass("scaled_before")
            if any(not k["vec"] for k in sh.comps):
                self.klass("regrid_scalar_only")
            if any(k["mode"] == "opaque" for k in sh.comps):
                self.klass("regrid_noise")
            self.admit(res, pred, tol if model is not None else 0.0, m.cls + ".regrid",
                       parents=[self.index(m)], what=what)
            return
        values, tol, cl = ref_interp(sh.times, sh.values, new) if len(new) else \
            (np.zeros(0), np.zeros(0), [])
        self.klass(*set(cl))
        if sh.times.dtype.kind == "f" and len(sh.times) > 2:
            d = np.diff(sh.times)
            if float(np.max(d)) > 1.5 * float(np.min(d)):
                self.klass("nonuniform_source")
        if {"shared", "between", "outside"} <= set(cl):
            self.flags.add("all_three_regions")
        pred = sh.derive(times=new, values=values)
        self.admit(res, pred, tol, m.cls + ".regrid", parents=[self.index(m)], what=what)

    def op_mut(self, op):
        m = self.pick(op["i"])
        sh = m.sh
        what = op["what"]
        if what == "vtype":
            m.obj.value_type = vt_build(op["vt"])
            sh.vt = vt_canon(op["vt"])
            require(m.obj.value_type.name == sh.vt, "value_type setter gave %r for %r",
                    m.obj.value_type, op["vt"])
            self.klass("mut:vtype")
            self.touched(m)
            return
        if sh.kind == "function" or len(sh.times) == 0 or (sh.kind == "empty" and what == "values"):
            self.klass("skipped")
            return
        if what == "values":
            arr = m.obj.values
            x = int(round(op["x"])) if arr.dtype.kind == "i" else op["x"]
            arr[op["pos"] % len(arr)] = x
            sh.values[op["pos"] % len(arr)] = x
        else:
            arr = m.obj.times
            unit = (sh.times[1] - sh.times[0]) if len(sh.times) > 1 else 1
            d = int(round(op["x"])) % 7 + 1 if arr.dtype.kind == "i" else float(op["x"]) * float(unit)
            arr += d
            sh.times += d
        self.klass("mut:" + what)
        self.touched(m)
        if m.relatives:
            self.klass("mut_after_derive:" + sh.kind)

    def op_mutarg(self, op):
        arrs = [a for a in self.args]
        if not arrs:
            self.klass("skipped")
            return
        entry = arrs[op["k"] % len(arrs)]          # k = -1: the most recent argument
        obj = entry[0]
        if len(obj) == 0:
            self.klass("skipped")
            return
        p = op["pos"] % len(obj)
        if isinstance(obj, np.ndarray) and obj.dtype.kind == "i":
            obj[p] += int(round(op["x"])) % 9 + 1
        else:
            obj[p] = obj[p] + (abs(float(op["x"])) + 1.0) * max(1.0, abs(float(obj[p])))
        entry[1] = np.asarray(obj).tolist()
        self.klass("mutarg:" + entry[2].split("(")[0])
        self.flags.add("mutarg")


# ---------------------------------------------------------------------------
# the check


RULES = {
    "construct": lambda w: bool({"pad", "truncate"} & w.classes) or "mutarg" in w.flags,
    "function_values": lambda w: "nonconstant_function" in w.flags,
    "copy": lambda w: "mutate_after_derive" in w.flags,
    "add": lambda w: bool({"accepted", "refused_grid", "refused_type"} & w.classes)
    and ("mixed_add" in w.flags or "nonzero_add" in w.flags or "refused_grid" in w.classes
         or "refused_type" in w.classes),
    "scale": lambda w: "real_scaling" in w.flags,
    "regrid_sampled": lambda w: "all_three_regions" in w.flags,
    "regrid_function": lambda w: "nonzero_outside" in w.flags
    or "differs_from_interpolation" in w.flags,
    "regrid_arg": lambda w: "mutarg:new_times" in w.classes,
    "history": lambda w: "mutate_after_derive" in w.flags or "mixed_add" in w.flags,
}


def make_check(mode):
    def check(case, rec):
        w = World(case)
        for spec in case["init"]:
            w.run({"op": "new", "spec": spec})
        for op in case["ops"]:
            w.run(op)
        if len(case["ops"]) >= 10:
            w.klass("len>=10")
        for f in w.flags:
            w.klass("flag:" + f)
        rec.case(case, nontrivial=bool(RULES[mode](w)), classes=sorted(w.classes))
    check.__name__ = "check_" + mode
    return check


# ---------------------------------------------------------------------------
# strategies


SEL = st.integers(0, 11)
CONT = st.sampled_from(["list", "array", "tuple"])
SCALARS = st.one_of(st.sampled_from([0.0, 1.0, -1.0, 2.0, 0.5, -3.0]),
                    st.builds(operator.mul, st.sampled_from([1.0, -1.0]), log_floats(1e-6, 1e6)))
CT = st.sampled_from(["float", "float", "int", "np", "npint"])


def eligible(cls, g, n, fn_min_n=2):
    if cls in SAMPLED_CLASSES:
        return True
    if cls == "Function":
        return n >= fn_min_n and is_uniform_grid(g)
    return bool(g.get("phys"))


@st.composite
def sig_specs(draw, gi, g, classes, fn_min_n=2, fn_kinds=FN_KINDS):
    n = grid_len(g)
    allowed = [c for c in classes if eligible(c, g, n, fn_min_n)] or ["Signal"]
    cls = draw(st.sampled_from(allowed))
    spec = {"cls": cls, "g": gi, "tas": draw(CONT), "vt": draw(vt_specs())}
    if cls == "Signal":
        m = draw(st.one_of(st.just(n), st.just(n), st.integers(0, n + 3),
                           st.sampled_from([max(0, n - 1), n + 1, 0])))
        is_int = draw(st.sampled_from([False, False, True]))
        elem = st.integers(-1000, 1000) if is_int else \
            st.one_of(floats(-1e6, 1e6), st.sampled_from([0.0, 1.0, -1.0]))
        spec["vals"] = {"data": draw(st.lists(elem, min_size=m, max_size=m)), "int": is_int,
                        "as": draw(CONT)}
    elif cls == "Gauss":
        spec["seed"] = draw(seeds32)
        spec["sigma"] = draw(log_floats(1e-6, 10.0))
    elif cls == "Function":
        spec["fn"] = draw(fn_specs(fn_kinds))
    elif cls in ("FullNoise", "FFTNoise"):
        spec["seed"] = draw(seeds32)
        f1 = draw(floats(50e6, 300e6))
        spec["band"] = [f1, f1 + draw(floats(100e6, 500e6))]
        spec["rms"] = draw(log_floats(1e-6, 1.0))
    elif cls == "ZHS":
        spec["seed"] = draw(seeds32)
        spec["energy"] = draw(log_floats(1e3, 1e9))
        spec["angle"] = draw(floats(0.3, 1.4))
        spec["dist"] = draw(log_floats(1.0, 1e3))
        spec["mu"] = draw(floats(0.2, 0.8))
    return spec


def op_scale(hows=("mul", "rmul", "div", "imul", "idiv")):
    return st.fixed_dictionaries({"op": st.just("scale"), "i": SEL, "c": SCALARS, "ct": CT,
                                  "how": st.sampled_from(list(hows))})


OP_COPY = st.fixed_dictionaries({"op": st.just("copy"), "i": SEL})
OP_ADD = st.fixed_dictionaries({"op": st.just("add"), "i": SEL, "j": SEL})
OP_SUM = st.fixed_dictionaries({"op": st.just("sum"), "idx": st.lists(SEL, min_size=1, max_size=4)})
OP_RADD0 = st.fixed_dictionaries({"op": st.just("radd0"), "i": SEL,
                                  "zero": st.sampled_from(["int", "int", "float", "bool"])})
OP_ADDBAD = st.fixed_dictionaries({"op": st.just("addbad"), "i": SEL,
                                   "other": st.sampled_from([1, 2.5, -1, "0"])})
OP_SHIFT = st.fixed_dictionaries({"op": st.just("shift"), "i": SEL,
                                  "d": st.one_of(st.sampled_from([1.0, -2.0, 0.0, 3.0]),
                                                 floats(-10.0, 10.0))})
OP_FILTER = st.fixed_dictionaries({"op": st.just("filter"), "i": SEL,
                                   "g": st.one_of(st.sampled_from([2.0, -1.0, 0.5]),
                                                  st.builds(operator.mul,
                                                            st.sampled_from([1.0, -1.0]),
                                                            log_floats(0.1, 4.0))),
                                   "scalar": st.booleans()})
OP_MUT = st.fixed_dictionaries({"op": st.just("mut"), "i": SEL,
                                "what": st.sampled_from(["values", "values", "times", "vtype"]),
                                "pos": st.integers(0, 40), "x": floats(-1e3, 1e3),
                                "vt": vt_specs()})
OP_MUTARG = st.fixed_dictionaries({"op": st.just("mutarg"), "k": st.integers(0, 30),
                                   "pos": st.integers(0, 40), "x": floats(-1e3, 1e3)})
FRAC = st.one_of(st.just(0.0), st.just(0.5), floats(0.05, 0.95))


@st.composite
def hows(draw, kinds):
    k = draw(st.sampled_from(kinds))
    if k == "sub":
        return {"k": "sub", "lo": draw(st.integers(0, 30)), "len": draw(st.integers(0, 30)),
                "step": draw(st.integers(1, 3)), "frac": draw(FRAC)}
    if k == "super":
        return {"k": "super", "l": draw(st.integers(0, 5)), "r": draw(st.integers(0, 5))}
    if k == "disjoint":
        return {"k": "disjoint", "side": draw(st.sampled_from(["l", "r"])),
                "gap": draw(floats(0.5, 5.0)), "m": draw(st.integers(1, 8))}
    if k == "fracshift":
        return {"k": "fracshift", "frac": draw(floats(0.05, 0.95))}
    if k == "mix":
        pt = st.fixed_dictionaries({"i": st.integers(0, 40),
                                    "w": st.one_of(st.sampled_from([0.0, 0.0, 0.5, -1.0, 2.0]),
                                                   floats(0.05, 0.95))})
        # by construction: one shared sample time, one strictly between, one outside, then more
        head = [{"i": draw(st.integers(0, 40)), "w": 0.0},
                {"i": draw(st.integers(0, 40)), "w": draw(floats(0.05, 0.95))},
                {"i": draw(st.integers(0, 40)), "w": draw(st.sampled_from([-1.0, 2.0]))}]
        head = head[:draw(st.sampled_from([0, 3, 3, 3]))]
        return {"k": "mix", "pts": head + draw(st.lists(pt, min_size=1, max_size=8)),
                "lo": draw(st.integers(0, 30)), "len": draw(st.integers(0, 30)),
                "frac": draw(FRAC)}
    return {"k": k}


def op_regrid(kinds):
    return st.fixed_dictionaries({"op": st.just("regrid"), "i": SEL, "how": hows(kinds),
                                  "as": st.sampled_from(["list", "array"])})


SAMPLED_GRIDS = ["uni", "uni", "dy", "dyhuge", "inc", "inc", "int", "iuni"]
FUNCTION_GRIDS = ["uni", "uni", "dy", "dymid", "iuni", "phys", "phys"]
REGRID_ALL = ["same", "sub", "sub", "super", "disjoint", "fracshift", "mix", "mix", "empty"]


@st.composite
def construct_cases(draw):
    grids = [draw(grid_specs(SAMPLED_GRIDS, 0, 16)) for _ in range(draw(st.integers(1, 2)))]
    init = [draw(sig_specs(gi % len(grids), grids[gi % len(grids)], SAMPLED_CLASSES))
            for gi in range(draw(st.integers(1, 3)))]
    ops = draw(st.lists(st.one_of(OP_MUT, OP_MUTARG, OP_MUTARG), min_size=0, max_size=6))
    return {"grids": grids, "init": init, "ops": ops}


@st.composite
def function_values_cases(draw):
    grids = [draw(grid_specs(["uni", "dy", "dymid", "iuni"], 1, 24))]
    init = [draw(sig_specs(0, grids[0], ["Function"], fn_min_n=1))
            for _ in range(draw(st.integers(1, 2)))]
    ops = draw(st.lists(st.one_of(OP_SHIFT, op_scale(("imul", "idiv", "mul")), OP_MUTARG,
                                  OP_FILTER), min_size=0, max_size=5))
    return {"grids": grids, "init": init, "ops": ops}


def _mixed_grids(draw, lo=2, hi=24):
    kinds = draw(st.sampled_from([FUNCTION_GRIDS, FUNCTION_GRIDS, SAMPLED_GRIDS]))
    return [draw(grid_specs(kinds, lo, hi))]


@st.composite
def copy_cases(draw):
    grids = _mixed_grids(draw, 1)
    init = [draw(sig_specs(0, grids[0], ALL_CLASSES)) for _ in range(draw(st.integers(1, 2)))]
    pre = draw(st.lists(st.one_of(OP_SHIFT, op_scale(), OP_FILTER, OP_ADD), max_size=3))
    post = draw(st.lists(st.one_of(OP_MUT, OP_MUT, OP_SHIFT, op_scale(("imul", "idiv")),
                                   OP_FILTER, OP_COPY, OP_MUTARG), min_size=1, max_size=6))
    return {"grids": grids, "init": init, "ops": pre + [draw(OP_COPY)] + post}


@st.composite
def add_cases(draw):
    g0 = _mixed_grids(draw, 0)[0]
    var = draw(st.sampled_from(["same", "same", "same", "asfloat", "ulp", "drop", "extra",
                                "shift"]))
    grids = [g0, {"k": "var", "of": 0, "var": var, "pos": draw(st.integers(0, 40))}]
    n = grid_len(g0)
    a = draw(sig_specs(0, g0, ALL_CLASSES))
    # the second operand lives on the variant grid: only classes that can be built on it
    b_classes = ALL_CLASSES if var in ("same", "asfloat") else SAMPLED_CLASSES + ["Function"]
    gb = dict(g0)
    if var in ("drop",):
        b_classes = SAMPLED_CLASSES + (["Function"] if n >= 3 else [])
    b = draw(sig_specs(1, gb, b_classes))
    extra = [draw(sig_specs(0, g0, SAMPLED_CLASSES + ["Function"]))
             for _ in range(draw(st.integers(0, 1)))]
    first = draw(st.sampled_from([[{"op": "add", "i": 0, "j": 1}],
                                  [{"op": "add", "i": 1, "j": 0}],
                                  [{"op": "add", "i": 0, "j": 1}, {"op": "add", "i": 1, "j": 0}]]))
    ops = draw(st.lists(st.one_of(OP_ADD, OP_ADD, OP_SUM, OP_RADD0, OP_ADDBAD, OP_MUT, OP_SHIFT,
                                  op_scale(("imul",)), OP_MUTARG), max_size=6))
    return {"grids": grids, "init": [a, b] + extra, "ops": first + ops}


@st.composite
def scale_cases(draw):
    grids = _mixed_grids(draw, 0)
    init = [draw(sig_specs(0, grids[0], ALL_CLASSES)) for _ in range(draw(st.integers(1, 2)))]
    ops = draw(st.lists(st.one_of(op_scale(), op_scale(), op_scale(), OP_MUT, OP_SHIFT, OP_FILTER),
                        min_size=1, max_size=8))
    return {"grids": grids, "init": init, "ops": [draw(op_scale())] + ops}


@st.composite
def regrid_sampled_cases(draw):
    grids = [draw(grid_specs(SAMPLED_GRIDS, 1, 20))]
    init = [draw(sig_specs(0, grids[0], SAMPLED_CLASSES)) for _ in range(draw(st.integers(1, 2)))]
    ops = draw(st.lists(st.one_of(op_regrid(REGRID_ALL), op_regrid(["mix"]), OP_MUT, OP_MUTARG,
                                  OP_SHIFT), min_size=0, max_size=6))
    return {"grids": grids, "init": init, "ops": [draw(op_regrid(REGRID_ALL))] + ops}


FN_REGRID = ["same", "sub", "sub", "super", "super", "disjoint", "fracshift"]


@st.composite
def regrid_function_cases(draw, private=True):
    grids = [draw(grid_specs(FUNCTION_GRIDS, 2, 24))]
    classes = ["Function", "Function", "Function", "FullNoise", "FFTNoise", "ZHS"]
    init = [draw(sig_specs(0, grids[0], classes, fn_kinds=["lorentz", "tri", "rat", "lin",
                                                           "lorentz", "const"]))
            for _ in range(draw(st.integers(1, 2)))]
    pre = draw(st.lists(st.one_of(OP_SHIFT, op_scale(("mul", "imul", "div")), OP_ADD, OP_FILTER),
                        max_size=3))
    post = draw(st.lists(st.one_of(op_regrid(FN_REGRID), OP_MUTARG, OP_MUTARG, OP_SHIFT,
                                   op_scale(("imul",))), max_size=5))
    return {"grids": grids, "init": init, "fs_private_arg": private,
            "ops": pre + [draw(op_regrid(FN_REGRID))] + post}


@st.composite
def regrid_arg_cases(draw):
    """Every class re-gridded with a caller-owned list / array that is overwritten afterwards."""
    grids = _mixed_grids(draw, 2, 16)
    init = [draw(sig_specs(0, grids[0], ALL_CLASSES + ["Function"]))
            for _ in range(draw(st.integers(1, 2)))]
    pre = draw(st.lists(st.one_of(OP_SHIFT, op_scale(("mul", "imul"))), max_size=2))
    last = st.fixed_dictionaries({"op": st.just("mutarg"), "k": st.just(-1),
                                  "pos": st.integers(0, 40), "x": floats(-1e3, 1e3)})
    post = draw(st.lists(st.one_of(last, last, OP_MUTARG, OP_MUT, OP_SHIFT, op_regrid(FN_REGRID)),
                         min_size=1, max_size=5))
    return {"grids": grids, "init": init, "fs_private_arg": False,
            "ops": pre + [draw(op_regrid(FN_REGRID + ["mix"]))] + post}


@st.composite
def history_cases(draw):
    g0 = _mixed_grids(draw, 1)[0]
    grids = [g0]
    if draw(st.booleans()):
        grids.append(draw(grid_specs(SAMPLED_GRIDS + ["phys"], 1, 16)))
    init = []
    for _ in range(draw(st.integers(2, 4))):
        gi = draw(st.sampled_from([0, 0, 0, len(grids) - 1]))
        init.append(draw(sig_specs(gi, grids[gi], ALL_CLASSES)))
    new_specs = [draw(sig_specs(0, g0, ALL_CLASSES)) for _ in range(draw(st.integers(0, 2)))]
    op = st.one_of(OP_COPY, OP_COPY, OP_ADD, OP_ADD, OP_ADD, OP_SUM, OP_RADD0, OP_ADDBAD,
                   op_scale(), op_scale(), OP_SHIFT, OP_FILTER, op_regrid(REGRID_ALL),
                   op_regrid(REGRID_ALL), OP_MUT, OP_MUT, OP_MUT, OP_MUTARG,
                   *[st.just({"op": "new", "spec": s}) for s in new_specs])
    n_ops = draw(st.one_of(st.integers(3, 12), st.integers(10, 30)))
    ops = draw(st.lists(op, min_size=n_ops, max_size=n_ops))
    return {"grids": grids, "init": init, "fs_private_arg": True, "ops": ops}


# ---------------------------------------------------------------------------
# classifiers of the genuine defects found with these checks


def classify_regrid_arg(case, exc):
    """F4: with_times of a function-backed signal stores the caller's object as `times`."""
    msg = str(exc)
    if ".with_times(" in msg and ("[alias-arg]" in msg or "[times-not-ndarray]" in msg):
        return F4_KEY
    return None


def classify_function_values(case, exc):
    if (isinstance(exc, TypeError) and "NoneType" in str(exc)
            and any(grid_len(g) == 1 for g in case["grids"])):
        return N1_KEY
    return None


# ---------------------------------------------------------------------------
# copies of thermal-noise objects versus later assignments to the original


NOISE_ALIAS_KEY = "noise copy follows a later assignment to the original's basis"


@st.composite
def noise_derived_cases(draw):
    n = draw(st.integers(8, 48))
    return {"cls": draw(st.sampled_from(["FullNoise", "FFTNoise"])), "n": n,
            "dt": 2.0 ** draw(st.integers(-31, -27)), "i0": draw(st.integers(-50, 50)),
            "band": [draw(floats(0.02, 0.2)), draw(floats(0.25, 0.45))],      # in units of 1/dt
            "rms": draw(log_floats(1e-6, 10.0)), "seed": draw(seeds32),
            "derive": draw(st.sampled_from(["copy", "with_times", "with_times_sub", "mul", "rmul", "div",
                                            "add_empty", "radd_empty"])),
            "read_first": draw(st.booleans()),
            "assign": draw(st.sampled_from(["rms", "amps", "phases", "rms", "amps_scaled"])),
            "factor": draw(st.sampled_from([2.0, -1.0, 0.5, 3.0]))}


def _noise_object(case):
    from pyrex.signals import FullThermalNoise, FFTThermalNoise
    cls = FullThermalNoise if case["cls"] == "FullNoise" else FFTThermalNoise
    t = case["dt"] * (case["i0"] + np.arange(case["n"]))
    band = (case["band"][0] / case["dt"], case["band"][1] / case["dt"])
    np.random.seed(case["seed"])
    return cls(t, band, rms_voltage=case["rms"]), t


def _noise_derive(obj, t, how):
    from pyrex.signals import EmptySignal, Signal
    if how == "copy":
        return obj.copy()
    if how == "with_times":
        return obj.with_times(t + 0.5 * (t[1] - t[0]))
    if how == "with_times_sub":
        return obj.with_times(t[1:max(3, len(t) // 2)])
    if how == "mul":
        return obj * 2.0
    if how == "rmul":
        return 0.5 * obj
    if how == "div":
        return obj / 4.0
    e = EmptySignal(t.copy(), value_type=Signal.Type.voltage)
    return obj + e if how == "add_empty" else e + obj


def check_noise_derived(case, rec):
    """A copy / re-gridded copy / scaled or summed result of a thermal-noise object shares no mutable
    state with it: assigning the original's published rms, amplitudes or phases afterwards does not
    change the derived signal (oracle: a twin built from the same seed, derived and evaluated before
    anything is assigned)."""
    a, t = _noise_object(case)
    b, _ = _noise_object(case)
    want = np.array(_noise_derive(b, t, case["derive"]).values, dtype=float)
    d = _noise_derive(a, t, case["derive"])
    if case["read_first"]:
        got0 = np.array(d.values, dtype=float)
        require(np.array_equal(got0, want), "twin built from the same seed differs before any assignment")
    before = np.array(a.values, dtype=float)
    f = case["factor"]
    if case["assign"] == "rms":
        a.rms = a.rms * f
    elif case["assign"] == "amps":
        a.amps = np.array(a.amps)[::-1].copy()
    elif case["assign"] == "amps_scaled":
        a.amps = np.array(a.amps) * f
    else:
        a.phases = np.array(a.phases) + 1.0
    after = np.array(a.values, dtype=float)
    scale = float(np.max(np.abs(want))) if want.size else 0.0
    changed = bool(np.max(np.abs(after - before)) > 1e-9 * max(float(np.max(np.abs(before))), 1e-300))
    got = np.array(d.values, dtype=float)
    err = float(np.max(np.abs(got - want))) if want.size else 0.0
    require(err <= 1e-12 * scale,
            "%s: the result of %s (values %s before) changed by %.3g (scale %.3g) when %s of the ORIGINAL "
            "noise object was assigned afterwards: they share state",
            case["cls"], case["derive"], "read" if case["read_first"] else "not read", err, scale,
            case["assign"])
    rec.case(case, nontrivial=changed and scale > 0,
             classes=[case["cls"], "derive:" + case["derive"], "assign:" + case["assign"],
                      "read_first" if case["read_first"] else "unread"])


def classify_noise_derived(case, exc):
    if isinstance(exc, Violation) and "they share state" in str(exc):
        return NOISE_ALIAS_KEY
    return None


PROPERTY = Property(
    "C04", "Signals keep times and values aligned, copy independently and combine pointwise",
    [
        SubCheck("construct", construct_cases(), make_check("construct"), quick=1600,
                 thorough=80000, quick_shards=4,
                 rule="1-3 Signal/EmptySignal/GaussianNoise built from list/array/tuple times "
                      "(length 0-16, float/int, negative, 2^45 dt) and 0..n+3 values, then in-place "
                      "writes into the arguments and the signals; non-trivial = padding or "
                      "truncation happened, or an argument array was overwritten afterwards",
                 floors={"pad": 0.06, "truncate": 0.04, "n=0": 0.04, "n=1": 0.12, "int_times": 0.1, "huge_times": 0.12, "flag:mutarg": 0.15, "times_array": 0.2, "values_array": 0.08, "int_values": 0.08, "mut:values": 0.08}),
        SubCheck("function_values", function_values_cases(), make_check("function_values"),
                 quick=1600, thorough=80000, quick_shards=4,
                 rule="FunctionSignal over 1-24 samples with vectorised / scalar-only bounded "
                      "functions, then shifts, scalings, constant filters; values must equal "
                      "sum F f(t-t0); non-trivial = function not constant over the grid",
                 floors={"scalar_only": 0.15, "n=2": 0.08, "op:shift": 0.12, "filtered": 0.1, "inplace": 0.08, "flag:nonconstant_function": 0.25, "int_times": 0.1},
                 classify=classify_function_values),
        SubCheck("copy", copy_cases(), make_check("copy"), quick=1600, thorough=80000, quick_shards=4,
                 rule="every class (incl. noise, Askaryan) after 0-3 ops, copied, then the source or "
                      "the copy is modified (array writes, shift, *=, filter); non-trivial = a "
                      "modification of an object that has a copy / is a copy",
                 floors={"copy_kind:function": 0.1, "copy_kind:sampled": 0.25, "copy_kind:empty": 0.1, "flag:mutate_after_derive": 0.3, "filtered": 0.05, "mut_after_derive:sampled": 0.07, "shift_kind:function": 0.05}),
        SubCheck("add", add_cases(), make_check("add"), quick=2400, thorough=120000, quick_shards=5,
                 rule="ordered operand pair from the 7x7 class product x value types x grid relation "
                      "(same, int-vs-float, 1 ulp, shorter, longer, shifted), then more sums, sum(), "
                      "0+a, non-signal operands, modifications; non-trivial = an addition decided "
                      "(accepted with non-zero operands or mixed classes, or refused)",
                 floors={"accepted": 0.25, "refused_grid": 0.2, "refused_type": 0.04, "coerced": 0.06, "mixed_class": 0.1, "pair:function+function": 0.04, "pair:empty+function": 0.015, "pair:sampled+function": 0.03, "pair:function+sampled": 0.04, "pair:function+empty": 0.02, "pair:empty+empty": 0.04, "pair:empty+sampled": 0.06, "pair:sampled+empty": 0.06, "sum_many": 0.03, "op:radd0": 0.1, "op:addbad": 0.08}),
        SubCheck("scale", scale_cases(), make_check("scale"), quick=1600, thorough=80000, quick_shards=4,
                 rule="a*c, c*a, a/c, a*=c, a/=c with python/numpy int/float scalars (0, negative, "
                      "1e-6..1e6) on every class; non-trivial = non-zero values scaled by c not in {0,1}",
                 floors={"scale:rmul": 0.2, "scale:idiv": 0.17, "scale:imul": 0.15, "scale:div": 0.15, "scale:mul": 0.25, "inplace": 0.27, "rebound": 0.01, "scale_kind:function": 0.1, "scale_kind:empty": 0.1, "c=0": 0.15, "c<0": 0.25, "ct:np": 0.15, "ct:npint": 0.15}),
        SubCheck("regrid_sampled", regrid_sampled_cases(), make_check("regrid_sampled"),
                 quick=1600, thorough=80000, quick_shards=4,
                 rule="Signal/EmptySignal/GaussianNoise on uniform, non-uniform, int, huge grids (1-20 "
                      "samples) re-gridded to sub / super / disjoint / mixed / empty grids given as list "
                      "or array; non-trivial = one target holds shared, strictly-between (values "
                      "differ) and outside times",
                 floors={"shared": 0.35, "between": 0.13, "outside": 0.25, "short_source": 0.2, "nonuniform_source": 0.08, "flag:all_three_regions": 0.08, "arg_array": 0.25, "arg_list": 0.35, "regrid_kind:empty": 0.12, "huge_times": 0.1, "int_times": 0.12}),
        SubCheck("regrid_function", regrid_function_cases(), make_check("regrid_function"),
                 quick=1600, thorough=80000, quick_shards=4,
                 rule="FunctionSignal / thermal noise / Askaryan after shifts, scalings, sums, filters, "
                      "re-gridded (contained, super, disjoint, between samples) and compared with "
                      "sum F f(t-t0) on the new times; non-trivial = function non-zero "
                      "outside the old span or different from linear interpolation between samples",
                 floors={"contained": 0.3, "not_contained": 0.22, "regrid:sub_between": 0.05, "regrid:super": 0.15, "regrid:disjoint": 0.06, "multi_component": 0.05, "shifted_before": 0.09, "scaled_before": 0.1, "regrid_scalar_only": 0.12, "regrid_noise": 0.04, "filtered": 0.1, "flag:nonzero_outside": 0.2, "flag:differs_from_interpolation": 0.05}),
        SubCheck("regrid_arg", regrid_arg_cases(), make_check("regrid_arg"),
                 quick=1200, thorough=60000, quick_shards=3,
                 rule="every class re-gridded with a caller-owned list or array, which is then "
                      "overwritten (and the result shifted / written); the result must hold its own "
                      "ndarray; non-trivial = the new_times argument was overwritten after the call",
                 floors={"arg_array": 0.2, "arg_list": 0.3, "mutarg:new_times": 0.2},
                 classify=classify_regrid_arg),
        SubCheck("history", history_cases(), make_check("history"), quick=800, thorough=40000, quick_shards=5,
                 rule="2-4 initial signals of any class + 3-30 ops (new, copy, add, sum, 0+a, scale, "
                      "shift, filter, with_times, in-place writes into signals and arguments); "
                      "non-trivial = a modification after a derivation of the modified object, "
                      "or a mixed-class addition",
                 floors={"len>=10": 0.25, "flag:mutate_after_derive": 0.22, "accepted": 0.2, "op:regrid": 0.3, "flag:mixed_add": 0.1, "regrid_kind:function": 0.06, "copy_kind:function": 0.07, "refused_grid": 0.08, "sum_many": 0.06}),
        SubCheck("noise_derived", noise_derived_cases(), check_noise_derived, quick=400, thorough=20000,
                 rule="FullThermalNoise / FFTThermalNoise (8-48 samples, random band and rms) x derivation "
                      "(copy, with_times shifted / sub-window, * / scalar, + EmptySignal either side), read or "
                      "not read x later assignment of rms / amps / phases on the ORIGINAL; the derived signal "
                      "must keep the values a twin from the same seed gave before the assignment; "
                      "non-trivial = the assignment changed the original's own values",
                 floors={"FullNoise": 0.2, "FFTNoise": 0.2},
                 classify=classify_noise_derived),
    ],
    assumptions=[
        "time arrays are strictly increasing (re-gridding by interpolation is only defined then); "
        "function-backed signals live on uniform grids with >= 2 samples outside `function_values`",
        "length-0 grids are exercised for construction, copy, addition and scaling only (the "
        "statement quantifies over lengths >= 1; np.interp refuses an empty source)",
        "shifts of integer time arrays use integer offsets (numpy refuses `int_array += float`)",
        "scalars are real python / numpy numbers, division by zero excluded; values are real",
        "a function-backed signal's values are defined as sum_k F_k f_k(t - t0_k) with t0_k the "
        "float sum of the shifts applied; Askaryan signals (function of the whole grid) are "
        "only checked for alignment / independence / pointwise arithmetic, not re-evaluation",
        "in the `history` sub-check FunctionSignal.with_times receives a private array (the listed "
        "finding F4 is reproduced by `regrid_function` instead)",
    ],
    design_ref="3/C04",
)
