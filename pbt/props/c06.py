"""C06 - lazily evaluated signals and ray objects never serve stale values (DESIGN 3/C06)."""

import math
import types

import numpy as np
from hypothesis import strategies as st

from ..core import Property, SubCheck, Violation, require
from .. import gens
from ..gens import floats

# ---------------------------------------------------------------------------
# (A) function-backed signals
#
# Grids are dyadic (dt = 2^-k, N = 2^m + 1 samples, offsets multiples of dt) and
# buffers / shifts are multiples of dt/2, so that every grid and every
# "ceil(buffer/dt)" is exact in floating point and the eager evaluator written
# from the statement cannot differ from the code by rounding of the grid.


def _func(spec, scalar_only=False):
    kind = spec["kind"]
    if kind == "gauss":
        mu, sg, amp = spec["mu"], spec["sigma"], spec["amp"]
        f = lambda t: amp * np.exp(-0.5 * ((np.asarray(t, dtype=float) - mu) / sg) ** 2)
    elif kind == "step":
        ts, amp = spec["mu"], spec["amp"]
        f = lambda t: amp * (np.asarray(t, dtype=float) >= ts).astype(float)
    elif kind == "sin":
        fr, amp = spec["freq"], spec["amp"]
        f = lambda t: amp * np.sin(2 * np.pi * fr * np.asarray(t, dtype=float))
    else:
        raise ValueError(kind)
    if spec.get("scalar_only"):
        def g(t):
            if np.ndim(t) != 0:
                raise TypeError("only scalars")
            return float(f(t))
        return g
    return f


def _resp(spec):
    kind = spec["kind"]
    if kind == "lowpass":
        fc = spec["fc"]
        return lambda f: 1.0 / (1.0 + 1j * np.asarray(f, dtype=float) / fc)
    if kind == "delay":
        tau = spec["tau"]
        return lambda f: np.exp(-2j * np.pi * np.asarray(f, dtype=float) * tau)
    if kind == "gain":
        g = spec["g"]
        return lambda f: g + 0 * np.asarray(f, dtype=float)
    if kind == "highpass":
        fc = spec["fc"]
        return lambda f: (1j * np.asarray(f, dtype=float) / fc) / (1.0 + 1j * np.asarray(f, dtype=float) / fc)
    # responses that are NOT Hermitian by themselves: force_real changes what they do
    if kind == "cgain":
        g = complex(spec["g"], spec["fc_rel"])
        return lambda f: g + 0 * np.asarray(f, dtype=float)
    if kind == "onesided":
        fc = spec["fc"]
        return lambda f: np.where(np.asarray(f, dtype=float) >= 0,
                                  1.0 / (1.0 + 1j * np.abs(np.asarray(f, dtype=float)) / fc), 0.25)
    raise ValueError(kind)


@st.composite
def func_specs(draw, span):
    """Function with support inside, at the edges of, or outside the time window."""
    t_lo, t_hi = span
    w = t_hi - t_lo
    where = draw(st.sampled_from(["inside", "before", "after", "edge"]))
    mu = {"inside": t_lo + w * draw(floats(0.1, 0.9)),
          "before": t_lo - w * draw(floats(0.05, 0.6)),
          "after": t_hi + w * draw(floats(0.05, 0.6)),
          "edge": draw(st.sampled_from([t_lo, t_hi]))}[where]
    kind = draw(st.sampled_from(["gauss", "gauss", "step", "sin"]))
    spec = dict(kind=kind, mu=mu, sigma=w * draw(floats(0.02, 0.3)), amp=draw(floats(0.1, 10.0)),
                freq=draw(floats(0.5, 4.0)) / w, where=where,
                scalar_only=draw(st.integers(0, 5)) == 0)
    return spec


@st.composite
def resp_specs(draw, dt):
    kind = draw(st.sampled_from(["lowpass", "delay", "gain", "highpass", "delay", "cgain", "onesided"]))
    fnyq = 0.5 / dt
    return dict(kind=kind, fc=fnyq * draw(floats(0.02, 0.8)), g=draw(floats(-2.0, 2.0)),
                fc_rel=draw(floats(-1.5, 1.5)), tau=dt * draw(st.integers(-6, 12)) / 2.0)


@st.composite
def signal_histories(draw):
    m = draw(st.integers(3, 6))
    n = 2 ** m + 1
    dt = 2.0 ** draw(st.integers(-32, -3))
    t0 = dt * draw(st.integers(-1000, 1000))
    span = (t0, t0 + dt * (n - 1))
    base = []
    for _ in range(draw(st.integers(1, 2))):
        kind = draw(st.sampled_from(["function", "function", "function", "thermal_full", "thermal_fft"]))
        base.append(dict(kind=kind, func=draw(func_specs(span)), seed=draw(gens.seeds32),
                         vtype=draw(st.sampled_from([None, "voltage", "field"]))))
    ops = []
    for _ in range(draw(st.integers(2, 22))):
        op = draw(st.sampled_from(["read", "read", "read", "shift", "imul", "idiv", "mul", "filter", "filter",
                                   "buffers", "buffers", "resample", "with_times", "add", "copy",
                                   "set_times", "times_iadd"]))
        d = dict(op=op, i=draw(st.sampled_from([0, 0, 0, 1, 1, 2, 3, 5])))
        if op == "shift":
            d["k"] = draw(st.integers(-8, 8))           # units of dt/2
        elif op in ("imul", "idiv", "mul"):
            d["c"] = draw(st.sampled_from([2.0, -0.5, 3.0, 0.25, 1.5]))
        elif op == "filter":
            d["resp"] = draw(resp_specs(dt))
            d["force_real"] = draw(st.booleans())
        elif op == "buffers":
            # units of dt/2; "given but not larger than the current buffer" (0) must be common
            d["lead"] = draw(st.one_of(st.none(), st.just("same"), st.integers(0, 40), st.integers(0, 40)))
            d["trail"] = draw(st.one_of(st.none(), st.just("same"), st.integers(0, 40), st.integers(0, 40)))
            d["force"] = draw(st.booleans())
        elif op == "resample":
            d["factor"] = draw(st.sampled_from([0.5, 2.0, 1.0]))
        elif op == "with_times":
            d["mode"] = draw(st.sampled_from(["sub", "sub", "super", "disjoint"]))
            d["a"] = draw(st.integers(0, 8))
            d["b"] = draw(st.integers(1, 8))
            d["as_list"] = draw(st.booleans())
        elif op == "add":
            d["j"] = draw(st.integers(0, 7))
        elif op == "set_times":
            d["k"] = draw(st.integers(-6, 6))
            d["grow"] = draw(st.integers(-4, 4))
        elif op == "times_iadd":
            d["k"] = draw(st.integers(-8, 8))
        ops.append(d)
        # reads right after a mutation (and therefore right before the next one) are what
        # exposes a cache that was not invalidated
        if op not in ("read", "mul", "copy", "add", "with_times") and draw(st.booleans()):
            ops.append(dict(op="read", i=d["i"]))
    return dict(m=m, dt=dt, t0=t0, base=base, ops=ops)


class _Model:
    """Eager definition of a function-backed signal (written from the statement)."""

    def __init__(self, times, comps):
        self.times = np.array(times, dtype=float)
        self.comps = comps      # list of dict(func, t0, lead, trail, factor, filters)

    def copy(self):
        return _Model(self.times.copy(),
                      [dict(c, filters=list(c["filters"])) for c in self.comps])

    def values(self):
        n = len(self.times)
        if n < 2:
            return None
        dt = self.times[1] - self.times[0]
        out = np.zeros(n)
        for c in self.comps:
            nb = int(math.ceil(c["lead"] / dt - 1e-9))
            na = int(math.ceil(c["trail"] / dt - 1e-9))
            full = self.times[0] + dt * np.arange(-nb, n + na)
            f = _func(c["func"])
            arg = full - c["t0"]
            try:
                v = np.asarray(f(arg), dtype=float)
            except TypeError:
                v = np.array([f(x) for x in arg], dtype=float)
            v = v * c["factor"]
            if c["filters"]:
                N = len(v)
                freqs = np.fft.fftfreq(2 * N, d=dt)
                H = np.ones(2 * N, dtype=complex)
                for rs, force_real in c["filters"]:
                    r = _resp(rs)
                    if force_real:
                        h = np.asarray(r(np.abs(freqs)), dtype=complex)
                        h = np.where(freqs < 0, np.conj(h), h)
                    else:
                        h = np.asarray(r(freqs), dtype=complex)
                    H *= h
                v = np.real(np.fft.ifft(H * np.fft.fft(np.concatenate([v, np.zeros(N)]))))[:N]
            out += v[nb:nb + n]
        return out


def _build_base(b, times):
    from pyrex.signals import FunctionSignal, FullThermalNoise, FFTThermalNoise, Signal
    vt = None if b["vtype"] is None else getattr(Signal.Type, b["vtype"])
    if b["kind"] == "function":
        sig = FunctionSignal(times.copy(), _func(b["func"]), value_type=vt)
        model = _Model(times, [dict(func=b["func"], t0=0.0, lead=0.0, trail=0.0, factor=1.0, filters=[])])
        return sig, model
    dt = times[1] - times[0]
    band = (0.1 / dt * 0.5, 0.4 / dt)
    np.random.seed(b["seed"])
    cls = FullThermalNoise if b["kind"] == "thermal_full" else FFTThermalNoise
    sig = cls(times.copy(), band, rms_voltage=1.0)
    return sig, None


def _run_signal_history(case, upto, reads, rec=None):
    """Interpret ops[:upto]; with `reads`, compare .values with the eager model at
    every read op.  Returns the pool [(signal, model_or_None)]."""
    n = 2 ** case["m"] + 1
    dt = case["dt"]
    times = case["t0"] + dt * np.arange(n)
    pool = [_build_base(b, times) for b in case["base"]]
    classes = set()
    state = {}      # resolved pool index -> "read" | "mutated_after_read"
    for k, op in enumerate(case["ops"][:upto]):
        i = op["i"] % len(pool)
        sig, model = pool[i]
        name = op["op"]
        if name == "read":
            if state.get(i) == "mutated_after_read":
                classes.add("read_mutate_read")
            state[i] = "read"
            if reads:
                got = np.array(sig.values, dtype=float)
                require(len(got) == len(sig.times), "values has %d entries for %d times (step %d)",
                        len(got), len(sig.times), k)
                if model is not None:
                    want = model.values()
                    if want is not None:
                        scale = max(1.0, float(np.max(np.abs(want))))
                        err = float(np.max(np.abs(got - want))) if len(want) else 0.0
                        require(err <= 1e-9 * scale,
                                "step %d: values of signal %d differ from the eager evaluation of its "
                                "definition by %.3g (scale %.3g); components %r", k, i, err, scale,
                                [(c["func"]["kind"], c["t0"], c["lead"], c["trail"], c["factor"],
                                  len(c["filters"])) for c in model.comps])
                # fresh twin: same operations, no intermediate reads
                twin = _run_signal_history(case, k, reads=False)[i][0]
                tv = np.array(twin.values, dtype=float)
                require(tv.shape == got.shape and float(np.max(np.abs(tv - got), initial=0.0)) <=
                        1e-12 * max(1.0, float(np.max(np.abs(tv), initial=0.0))),
                        "step %d: values of signal %d differ from a twin built by the same operations "
                        "without intermediate reads (max diff %.3g)", k, i,
                        float(np.max(np.abs(tv - got), initial=0.0)) if tv.shape == got.shape else -1)
            continue
        if state.get(i) == "read" and name not in ("mul", "copy", "with_times", "add"):
            state[i] = "mutated_after_read"
        if name == "shift":
            d = op["k"] * dt / 2
            sig.shift(d)
            if model is not None:
                model.times = model.times + d
                for c in model.comps:
                    c["t0"] += d
        elif name in ("imul", "idiv"):
            if name == "imul":
                sig *= op["c"]
            else:
                sig /= op["c"]
            pool[i] = (sig, model)
            if model is not None:
                for c in model.comps:
                    c["factor"] = c["factor"] * op["c"] if name == "imul" else c["factor"] / op["c"]
        elif name == "mul":
            new = sig * op["c"]
            nm = None
            if model is not None:
                nm = model.copy()
                for c in nm.comps:
                    c["factor"] *= op["c"]
            pool.append((new, nm))
        elif name == "filter":
            sig.filter_frequencies(_resp(op["resp"]), force_real=op["force_real"])
            classes.add("filter")
            if model is not None:
                for c in model.comps:
                    c["filters"].append((op["resp"], op["force_real"]))
        elif name == "buffers":
            def _buf(v, k):
                if v is None:
                    return None
                if v == "same":
                    # given, but leaving the (last component's) buffer as it is
                    if op["force"] and model is not None:
                        return model.comps[-1][k]
                    return 0.0
                return v * dt / 2
            lead = _buf(op["lead"], "lead")
            trail = _buf(op["trail"], "trail")
            sig.set_buffers(leading=lead, trailing=trail, force=op["force"])
            classes.add("buffers")
            if model is not None:
                for c in model.comps:
                    if lead is not None:
                        c["lead"] = lead if op["force"] else max(lead, c["lead"])
                    if trail is not None:
                        c["trail"] = trail if op["force"] else max(trail, c["trail"])
        elif name == "resample":
            cur = len(sig.times)
            new_n = int(round((cur - 1) * op["factor"])) + 1
            if new_n < 3 or new_n > 257 or (cur - 1) * op["factor"] != new_n - 1:
                continue
            sig.resample(new_n)
            classes.add("resample")
            if model is not None:
                model.times = np.linspace(model.times[0], model.times[-1], new_n)
        elif name == "with_times":
            cur = np.array(sig.times, dtype=float)
            cdt = cur[1] - cur[0]
            if op["mode"] == "sub":
                a = op["a"] % (len(cur) - 2)
                b = min(len(cur), a + 2 + op["b"])
                new_t = cur[a:b].copy()
            elif op["mode"] == "super":
                new_t = cur[0] + cdt * np.arange(-op["a"], len(cur) + op["b"])
            else:
                new_t = cur[-1] + cdt * (op["a"] + 1) + cdt * np.arange(len(cur))
            arg = new_t.tolist() if op["as_list"] else new_t.copy()
            new = sig.with_times(arg)
            classes.add("with_times_" + op["mode"])
            nm = None
            if model is not None:
                nm = model.copy()
                nm.times = new_t.copy()
                if new_t[0] >= cur[0] and new_t[-1] <= cur[-1]:
                    for c in nm.comps:
                        c["lead"] = max(c["lead"], new_t[0] - cur[0])
                        c["trail"] = max(c["trail"], cur[-1] - new_t[-1])
            pool.append((new, nm))
        elif name == "add":
            j = op["j"] % len(pool)
            other, omodel = pool[j]
            same = np.array_equal(np.asarray(sig.times), np.asarray(other.times))
            compatible = (sig.value_type == sig.Type.undefined or other.value_type == sig.Type.undefined
                          or sig.value_type == other.value_type)
            if not (same and compatible):
                try:
                    sig + other
                except ValueError:
                    continue
                raise Violation("step %d: adding signals with %s was not refused" %
                                (k, "different time grids" if not same else "different value types"))
            new = sig + other
            classes.add("add")
            nm = None
            if model is not None and omodel is not None:
                nm = model.copy()
                nm.comps += omodel.copy().comps
            pool.append((new, nm))
        elif name == "copy":
            pool.append((sig.copy(), None if model is None else model.copy()))
        elif name == "times_iadd":
            # attribute assignment through an in-place operator: the same array object is
            # assigned back; only the grid moves, the function offsets stay
            d = op["k"] * dt / 2
            sig.times += d
            classes.add("times_iadd")
            if model is not None:
                model.times = model.times + d
        elif name == "set_times":
            cur = np.array(sig.times, dtype=float)
            cdt = cur[1] - cur[0]
            new_n = max(3, len(cur) + op["grow"])
            new_t = cur[0] + op["k"] * cdt + cdt * np.arange(new_n)
            sig.times = new_t.copy()
            classes.add("set_times")
            if model is not None:
                model.times = new_t.copy()
    if rec is not None:
        rec["classes"] = classes
    return pool


def check_signal_history(case, rec):
    ops = case["ops"]
    info = {}
    _run_signal_history(case, len(ops), reads=True, rec=info)
    cl = sorted(info["classes"])
    if any(b["kind"].startswith("thermal") for b in case["base"]):
        cl.append("thermal")
    if any(b["func"]["where"] != "inside" for b in case["base"]):
        cl.append("support_outside_window")
    rec.case(case, nontrivial="read_mutate_read" in info["classes"], classes=cl)


def _classify_signal(case, exc):
    return None


# ---------------------------------------------------------------------------
# (B) ray tracers and ray paths: fresh-twin differential


ICE_A = dict(cls="AntarcticIce", n0=1.78, k=0.43, a=0.0132, range=[-2850.0, 0.0], above=1.0, below=None)
ICE_G = dict(cls="GreenlandIce", n0=1.775, k=0.448, a=0.0247, range=[-3000.0, 0.0], above=1.0, below=None)
ICE_U1 = dict(cls="UniformIce", n=1.5, range=[-1000.0, 0.0], above=1.0, below=2.0)
ICE_U2 = dict(cls="UniformIce", n=1.7, range=[-800.0, 0.0], above=1.0, below=1.2)


@st.composite
def _points(draw, lo=-700.0):
    return [draw(floats(-800, 800)), draw(floats(-800, 800)), draw(floats(lo, -2.0))]


@st.composite
def ray_histories(draw):
    family = draw(st.sampled_from(["specialized", "specialized", "basic", "uniform", "uniform", "layered"]))
    obj = draw(st.sampled_from(["tracer", "path", "path"]))
    if family == "layered":
        obj = "tracer"
    attrs = dict(from_point=draw(_points()), to_point=draw(_points()))
    ices = [ICE_A, ICE_G] if family in ("specialized", "basic") else [ICE_U1, ICE_U2]
    attrs["ice"] = draw(st.integers(0, 1))
    cur_ice = attrs["ice"]
    if family in ("specialized", "basic"):
        attrs["dz"] = draw(st.sampled_from([1.0, 2.0, 0.5]))
    if family in ("uniform", "layered"):
        attrs["max_reflections"] = draw(st.integers(0, 2))
    ops = []
    settable = ["from_point", "to_point", "ice"]
    if family in ("specialized", "basic"):
        settable.append("dz")
    if obj == "tracer" and family in ("uniform", "layered"):
        settable.append("max_reflections")
    if obj == "path":
        settable += ["theta0"]
        if family in ("specialized", "basic"):
            settable.append("direct")
        if family == "specialized":
            settable += ["uniformity_factor", "beta_tolerance"]
    for _ in range(draw(st.integers(2, 10))):
        if draw(st.integers(0, 2)) == 0:
            ops.append(dict(op="read"))
            continue
        if draw(st.integers(0, 4)) == 0:
            # in-place edit of an endpoint: `obj.to_point += d` or edit-and-reassign
            ops.append(dict(op="inplace", attr=draw(st.sampled_from(["from_point", "to_point"])),
                            how=draw(st.sampled_from(["iadd", "edit_reassign"])),
                            d=[draw(floats(-300, 300)), draw(floats(-300, 300)), draw(floats(-100, 0))]))
            continue
        a = draw(st.sampled_from(settable))
        if a in ("from_point", "to_point"):
            v = draw(_points())
        elif a == "ice":
            # (mostly the *other* ice model: re-assigning the current one decides nothing)
            v = draw(st.integers(0, 1))
            if v == cur_ice and draw(st.integers(0, 3)) != 0:
                v = 1 - v
            cur_ice = v
        elif a == "dz":
            v = draw(st.sampled_from([1.0, 2.0, 0.5, 0.25]))
        elif a == "max_reflections":
            v = draw(st.integers(0, 2))
        elif a == "theta0":
            v = draw(floats(0.05, 3.0))
        elif a == "direct":
            v = draw(st.booleans())
        elif a == "uniformity_factor":
            v = draw(st.sampled_from([0.99999, 0.9999, 0.999]))
        else:
            v = draw(st.sampled_from([0.005, 0.02, 0.001]))
        ops.append(dict(op="set", attr=a, value=v))
    ops.append(dict(op="read"))
    return dict(family=family, obj=obj, attrs=attrs, ops=ops, sol=draw(st.integers(0, 1)))


def _ice_of(family, idx):
    if family in ("specialized", "basic"):
        return gens.build_ice([ICE_A, ICE_G][idx])
    if family == "uniform":
        return gens.build_ice([ICE_U1, ICE_U2][idx])
    from pyrex.custom.layered_ice import LayeredIce
    import pyrex.ice_model as im
    if idx == 0:
        layers = [im.UniformIce(1.4, valid_range=(-200, 0), index_above=1, index_below=None),
                  im.UniformIce(1.7, valid_range=(-900, -200), index_above=None, index_below=None)]
    else:
        layers = [im.UniformIce(1.5, valid_range=(-300, 0), index_above=1, index_below=None),
                  im.UniformIce(1.6, valid_range=(-900, -300), index_above=None, index_below=None)]
    return LayeredIce(layers)


def _make(family, obj, attrs, theta0=None, direct=None, extra=None):
    """A freshly constructed object with the given defining attributes."""
    from pyrex.ray_tracing import (SpecializedRayTracer, BasicRayTracer, UniformRayTracer,
                                   SpecializedRayTracePath, BasicRayTracePath, UniformRayTracePath)
    ice = _ice_of(family, attrs["ice"])
    f, t = np.array(attrs["from_point"]), np.array(attrs["to_point"])
    if obj == "tracer":
        if family == "specialized":
            o = SpecializedRayTracer(f, t, ice_model=ice, dz=attrs["dz"])
        elif family == "basic":
            o = BasicRayTracer(f, t, ice_model=ice, dz=attrs["dz"])
        elif family == "uniform":
            o = UniformRayTracer(f, t, ice_model=ice)
        else:
            from pyrex.custom.layered_ice import LayeredRayTracer
            o = LayeredRayTracer(f, t, ice_model=ice)
        if "max_reflections" in attrs and family in ("uniform", "layered"):
            o.max_reflections = attrs["max_reflections"]
        return o
    parent = types.SimpleNamespace(from_point=f, to_point=t, ice=ice, dz=attrs.get("dz", 1.0))
    if family == "specialized":
        o = SpecializedRayTracePath(parent, theta0, direct)
    elif family == "basic":
        o = BasicRayTracePath(parent, theta0, direct)
    else:
        o = UniformRayTracePath(parent, theta0, attrs.get("reflections", 1))
    for k, v in (extra or {}).items():
        setattr(o, k, v)
    return o


def _observe(family, obj, o):
    """Derived quantities as a flat list of (name, value-or-exception-name)."""
    out = []

    def grab(name, fn):
        try:
            v = fn()
            if isinstance(v, (tuple, list)):
                v = np.array([complex(x) for x in v])
            out.append((name, np.asarray(v)))
        except Exception as e:  # noqa
            out.append((name, "EXC:" + type(e).__name__))

    if obj == "tracer":
        grab("exists", lambda: bool(o.exists))
        try:
            sols = list(o.solutions)
        except Exception as e:  # noqa
            out.append(("solutions", "EXC:" + type(e).__name__))
            return out
        out.append(("n_solutions", np.asarray(len(sols))))
        for j, p in enumerate(sols[:4]):
            grab("sol%d.path_length" % j, lambda p=p: p.path_length)
            grab("sol%d.tof" % j, lambda p=p: p.tof)
            grab("sol%d.emitted" % j, lambda p=p: p.emitted_direction)
            grab("sol%d.received" % j, lambda p=p: p.received_direction)
        return out
    grab("path_length", lambda: o.path_length)
    grab("tof", lambda: o.tof)
    grab("emitted_direction", lambda: o.emitted_direction)
    grab("received_direction", lambda: o.received_direction)
    grab("fresnel", lambda: o.fresnel)
    grab("attenuation", lambda: o.attenuation(np.array([1e8, 5e8])))
    if family in ("specialized", "basic"):
        grab("z_turn", lambda: o.z_turn)
        grab("beta", lambda: o.beta)
    if family == "specialized":
        grab("z_uniform", lambda: o.z_uniform)
    return out


def _same(a, b):
    if isinstance(a, str) or isinstance(b, str):
        return isinstance(a, str) and isinstance(b, str) and a == b
    if a.shape != b.shape:
        return False
    a = a.astype(complex)
    b = b.astype(complex)
    with np.errstate(all="ignore"):
        return bool(np.all((a == b) | (np.isnan(a.astype(complex)) & np.isnan(b.astype(complex))) |
                           (np.abs(a - b) <= 1e-12 * np.maximum(np.abs(a), np.abs(b)))))


def check_ray_history(case, rec):
    family, obj = case["family"], case["obj"]
    attrs = dict(case["attrs"])
    theta0 = direct = None
    extra = {}
    if obj == "path":
        # start from a real solution of the tracer when there is one
        tr = _make(family, "tracer", dict(attrs, max_reflections=1) if family == "uniform" else attrs)
        try:
            sols = list(tr.solutions)
        except Exception:  # noqa
            sols = []
        if sols:
            p0 = sols[case["sol"] % len(sols)]
            theta0 = float(p0.theta0)
            direct = bool(p0.direct)
            if family == "uniform":
                attrs["reflections"] = int(getattr(p0, "_reflections", 0))
        else:
            theta0, direct = 0.7, True
            if family == "uniform":
                attrs["reflections"] = 1
    live = _make(family, obj, attrs, theta0, direct)
    reads = 0
    rmr = False
    dirty = False
    kinds = set()
    for k, op in enumerate(case["ops"]):
        if op["op"] == "inplace":
            a = op["attr"]
            cur = np.array(attrs[a], dtype=float)
            new_v = cur + np.array(op["d"])
            new_v[2] = min(new_v[2], -1.0)
            if op["how"] == "iadd":
                arr = getattr(live, a)
                if arr.dtype.kind != "f":
                    setattr(live, a, arr.astype(float))
                    arr = getattr(live, a)
                delta = new_v - np.asarray(arr, dtype=float)
                if a == "from_point":
                    live.from_point += delta
                else:
                    live.to_point += delta
            else:
                pnt = getattr(live, a)
                if pnt.dtype.kind != "f":
                    pnt = pnt.astype(float)
                pnt[:] = new_v
                setattr(live, a, pnt)
            attrs[a] = [float(x) for x in np.asarray(getattr(live, a), dtype=float)]
            kinds.add("inplace_" + op["how"])
            if reads:
                dirty = True
            continue
        if op["op"] == "set":
            a, v = op["attr"], op["value"]
            kinds.add("set_" + a)
            if a in ("from_point", "to_point"):
                setattr(live, a, np.array(v))
                attrs[a] = v
            elif a == "ice":
                live.ice = _ice_of(family, v)
                attrs["ice"] = v
            elif a in ("dz", "max_reflections"):
                setattr(live, a, v)
                attrs[a] = v
            elif a == "theta0":
                live.theta0 = v
                theta0 = v
            elif a == "direct":
                live.direct = v
                direct = v
            else:
                setattr(live, a, v)
                extra[a] = v
            if reads:
                dirty = True
            continue
        got = _observe(family, obj, live)
        twin = _make(family, obj, attrs, theta0, direct, extra)
        want = _observe(family, obj, twin)
        require(len(got) == len(want), "step %d: %d observed quantities vs %d on a fresh object", k,
                len(got), len(want))
        for (n1, v1), (n2, v2) in zip(got, want):
            require(n1 == n2 and _same(v1, v2),
                    "step %d: %s of the %s %s is %r after the history %r, a freshly constructed object "
                    "with the same attributes reports %r", k, n1, family, obj,
                    v1 if isinstance(v1, str) else v1.tolist(),
                    [(o["attr"], o.get("value", o.get("d"))) if o["op"] != "read" else "read"
                     for o in case["ops"][:k]],
                    v2 if isinstance(v2, str) else v2.tolist())
        if dirty:
            rmr = True
        reads += 1
        dirty = False
    rec.case(case, nontrivial=rmr, classes=[family, obj] + sorted(kinds) + (["read_mutate_read"] if rmr else []))


def _classify_ray(case, exc):
    msg = str(exc)
    for a in ("uniformity_factor", "beta_tolerance", "max_reflections"):
        sets = [o for o in case["ops"] if o["op"] == "set"]
        if sets and all(o["attr"] == a for o in sets if o["attr"] in
                        ("uniformity_factor", "beta_tolerance", "max_reflections")) and \
                any(o["attr"] == a for o in sets):
            pass
    return None


PROPERTY = Property(
    "C06", "Lazily evaluated signals and ray objects never serve stale values",
    [
        SubCheck("signal_history", signal_histories(), check_signal_history, quick=700, thorough=30000,
                 rule="dyadic grid (2^m+1 samples) x 1-2 base signals (FunctionSignal with Gaussian/step/sine "
                      "functions whose support may lie outside the window, scalar-only variants, both thermal "
                      "noise classes) x 2-22 operations (read, shift, *=, /=, *, filter with memory, set_buffers, "
                      "resample, with_times sub/super/disjoint, add, copy, times assignment); every read is "
                      "compared with the eager evaluation of the definition and with a twin built by the same "
                      "operations without reads; non-trivial = history contains read -> mutate -> read",
                 floors={"read_mutate_read": 0.25, "filter": 0.3, "buffers": 0.25, "support_outside_window": 0.4},
                 classify=_classify_signal),
        SubCheck("ray_history", ray_histories(), check_ray_history, quick=500, thorough=20000,
                 rule="tracer or path object of the specialized/basic/uniform/layered family x history of reads "
                      "(exists, solutions, lengths, times, directions, fresnel, attenuation, z_turn, z_uniform) and "
                      "assignments of every documented attribute (from_point, to_point, ice, dz, theta0, direct, "
                      "max_reflections, uniformity_factor, beta_tolerance); each read is compared with a freshly "
                      "constructed object with the same attribute values; non-trivial = read -> assign -> read",
                 floors={"read_mutate_read": 0.3, "uniform": 0.06, "set_ice": 0.12}, classify=_classify_ray),
    ],
    assumptions=[
        "the eager evaluator samples on exactly representable (dyadic) grids so that the number of buffer "
        "samples ceil(buffer/dt) is unambiguous",
        "thermal-noise subclasses are compared with the no-intermediate-read twin only (their component function "
        "is a closure over random phases)",
        "Askaryan subclasses are exercised by C07; ray attenuation is read at two frequencies",
    ],
    design_ref="3/C06",
)
