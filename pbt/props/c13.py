"""C13 - generators: uniform, isotropic, weighted, counted (DESIGN 3/C13).

Oracles (nothing here shares the generators' algebra):

* distributions: analytic uniform CDFs with the Dvoretzky-Kiefer-Wolfowitz bound
  (rigorous for every n), chi-square on a 3-d / 2-d grid for independence, exact
  binomial tails for the six particle types; every test rejects at p < 1e-9
  (DESIGN 2.6).  The numpy seed of each block is part of the case.
* exit points: slab method for the box, quadratic-in-t (cancellation-free root
  pair) and z-slab for the cylinder, in the line parameter t of  v + t u;  plus
  the predicate form (on the boundary, on the line, vertex between, entry before
  exit) that does not use the reference points at all.
* weights: column density from the C15 reference integrator (pbt/ref_earth.py,
  adaptive quadrature over the shell pieces, impact-parameter chord geometry),
  total interaction length from the *published* cross-section fits (CTW 2011
  Table III, GQRS 1998 power laws), chord lengths from the reference intersection.
* shadowing: sum over throws of (accepted - survival weight) is a martingale;
  Bernstein's inequality gives a rigorous p < 1e-9 bound for any number of throws.
  Throws are observed through a recording *subclass* of the generator (overriding
  get_vertex / get_direction / get_particle_type / get_weights is the documented
  extension point), so rejected throws are visible.
* ListGenerator: Python model (number of successful throws, loop flag, count offset).
"""

import math

import numpy as np
from hypothesis import strategies as st

from ..core import HarnessError, Property, SubCheck, Violation, require
from .. import gens
from .. import ref_earth as ref
from ..gens import floats, log_floats

EPS = 2.220446049250313e-16
P_REJECT = 1e-9              # DESIGN 2.6
BLOCK = 40000                # draws per statistical block (DESIGN 2.6 quick size)
N_A = 6.02214076e23          # exact SI value
PT_TOL = 1e-9                # exit points: tolerance relative to the volume size (DESIGN 3/C13)
NEAR_AXIS = 1e-6             # a direction component below this (relative) but not 0: "near axis"
SLACK = 1.05                 # as in C15: 5 % on the bounded-variation trapezoid bound
RND = 1e-9                   # relative rounding allowance on a column density (C15)

NU_TYPES = ["electron_neutrino", "electron_antineutrino", "muon_neutrino",
            "muon_antineutrino", "tau_neutrino", "tau_antineutrino"]
PDG = {"electron_neutrino": 12, "electron_antineutrino": -12, "muon_neutrino": 14,
       "muon_antineutrino": -14, "tau_neutrino": 16, "tau_antineutrino": -16}
# neutrino fraction per flavour (Bhattacharya et al. 2011 sec. 3, as documented in
# Generator.get_particle_type): p-gamma (cosmogenic) and pp (astrophysical) sources
NU_FRACTION = {"cosmogenic": (0.78, 0.61, 0.61), "pgamma": (0.78, 0.61, 0.61),
               "astrophysical": (0.5, 0.5, 0.5), "pp": (0.5, 0.5, 0.5)}
MODELS = ["CTW", "GQRS"]
EARTHS = ["PREM", "CoreMantleCrustModel"]

# CTW 2011 Table III: log10(sigma/cm^2) = C1 + C2 L + C3 L^2 + C4 / L, L = ln(log10 E - C0)
CTW_SIGMA = {
    ("nu", "nc"): (-1.826, -17.31, -6.448, 1.431, -18.61),
    ("nu", "cc"): (-1.826, -17.31, -6.406, 1.431, -17.91),
    ("nubar", "nc"): (-1.033, -15.95, -7.296, 1.569, -18.30),
    ("nubar", "cc"): (-1.033, -15.95, -7.247, 1.569, -17.72),
}
GQRS_TOTAL = {"nu": 7.84e-36, "nubar": 7.80e-36}      # sigma_tot = c E^0.363 cm^2


def ref_total_length(model, type_name, energy):
    """Total interaction length in cm water equivalent: 1 / (N_A sigma_tot)."""
    sign = "nu" if PDG[type_name] > 0 else "nubar"
    if model == "GQRS":
        sigma = GQRS_TOTAL[sign] * energy ** 0.363
    else:
        sigma = 0.0
        for kind in ("cc", "nc"):
            c0, c1, c2, c3, c4 = CTW_SIGMA[(sign, kind)]
            lg = math.log(math.log10(energy) - c0)
            sigma += 10.0 ** (c1 + c2 * lg + c3 * lg * lg + c4 / lg)
    return 1.0 / (N_A * sigma)


# ---------------------------------------------------------------------------
# building pyrex objects from specs


def _model_class(name):
    import pyrex.particle as pp
    return {"CTW": pp.CTWInteraction, "GQRS": pp.GQRSInteraction}[name]


def _earth(name):
    import pyrex.earth_model as em
    return em.earth if name == "PREM_default" else getattr(em, name)()


def _gen_class(vol):
    import pyrex.generation as pg
    return pg.CylindricalGenerator if vol["kind"] == "cyl" else pg.RectangularGenerator


def build_generator(vol, energy=1e9, cls=None, **kw):
    cls = cls or _gen_class(vol)
    if vol["kind"] == "cyl":
        return cls(vol["dr"], vol["dz"], energy, **kw)
    return cls(vol["dx"], vol["dy"], vol["dz"], energy, **kw)


def vol_size(vol):
    if vol["kind"] == "cyl":
        return max(2.0 * vol["dr"], vol["dz"])
    return max(vol["dx"], vol["dy"], vol["dz"])


_REC_CACHE = {}


def recording_class(base):
    """Subclass that logs every throw (the documented way to customise a generator)."""
    if base in _REC_CACHE:
        return _REC_CACHE[base]

    class Recording(base):
        def __init__(self, *a, **k):
            self.log = []
            super().__init__(*a, **k)

        def get_vertex(self):
            v = super().get_vertex()
            self.log.append({"vertex": np.array(v, dtype=float, copy=True)})
            return v

        def get_direction(self):
            d = super().get_direction()
            self.log[-1]["direction"] = np.array(d, dtype=float, copy=True)
            return d

        def get_particle_type(self):
            t = super().get_particle_type()
            self.log[-1]["type"] = t
            return t

        def get_weights(self, particle):
            w = super().get_weights(particle)
            self.log[-1]["weights"] = (float(w[0]), float(w[1]))
            self.log[-1]["particle"] = particle
            return w

    _REC_CACHE[base] = Recording
    return Recording


class EnergySource:
    """Deterministic callable energy: cycles through the listed values, counts calls."""

    def __init__(self, values):
        self.values = list(values)
        self.calls = 0

    def __call__(self):
        v = self.values[self.calls % len(self.values)]
        self.calls += 1
        return v


# ---------------------------------------------------------------------------
# statistics (harness side)


def dkw_crit(n, p=P_REJECT):
    """P(sup|F_n - F| > d) <= 2 exp(-2 n d^2) for every n (Massart 1990)."""
    return math.sqrt(math.log(2.0 / p) / (2.0 * n))


def ks_uniform(u):
    """Kolmogorov distance of the sample from U(0,1)."""
    u = np.sort(np.asarray(u, dtype=float))
    n = len(u)
    i = np.arange(1, n + 1)
    return float(max(np.max(i / n - u), np.max(u - (i - 1) / n)))


_CHI2 = {}


def chi2_crit(df, p=P_REJECT):
    if df not in _CHI2:
        from scipy.stats import chi2
        _CHI2[df] = float(chi2.isf(p, df))
    return _CHI2[df]


def grid_chi2(cols, bins):
    """Pearson statistic of the joint histogram of uniform columns on a bins^k grid."""
    n = len(cols[0])
    idx = np.zeros(n, dtype=np.int64)
    for c in cols:
        b = np.minimum((np.asarray(c) * bins).astype(np.int64), bins - 1)
        b = np.maximum(b, 0)
        idx = idx * bins + b
    cells = bins ** len(cols)
    counts = np.bincount(idx, minlength=cells).astype(float)
    expect = n / float(cells)
    return float(np.sum((counts - expect) ** 2) / expect), cells - 1


def check_uniform_block(cols, names, what, bins):
    n = len(cols[0])
    crit = dkw_crit(n)
    for c, name in zip(cols, names):
        d = ks_uniform(c)
        require(d <= crit, "%s: %s is not uniform: Kolmogorov distance %.5f > %.5f "
                "(n=%d, DKW bound at p=1e-9)", what, name, d, crit, n)
    x2, df = grid_chi2(cols, bins)
    require(x2 <= chi2_crit(df), "%s: (%s) are not jointly uniform / independent: chi2 = %.1f > %.1f "
            "(df=%d, p=1e-9)", what, ", ".join(names), x2, chi2_crit(df), df)


def bernstein_bound(var, p=P_REJECT):
    """t with P(|S| >= t) <= p for a sum of independent/martingale terms |X_i - E X_i| <= 1."""
    lam = math.log(2.0 / p)
    return lam / 3.0 + math.sqrt((lam / 3.0) ** 2 + 2.0 * lam * var)


# ---------------------------------------------------------------------------
# reference geometry


def unit(d):
    s = max(abs(c) for c in d)
    w = [c / s for c in d]
    n = math.sqrt(math.fsum(c * c for c in w))
    return [c / n for c in w]


def _slab(t_in, t_out, lo, hi, vi, ui):
    """Intersect [t_in, t_out] with lo <= vi + t ui <= hi; None when empty."""
    if ui == 0.0:
        return (t_in, t_out) if lo <= vi <= hi else None
    t1, t2 = (lo - vi) / ui, (hi - vi) / ui
    return max(t_in, min(t1, t2)), min(t_out, max(t1, t2))


def ref_box_t(vol, v, u, grow=0.0):
    """Slab method: (t_in, t_out) of the line v + t u through the box grown by `grow` on every side."""
    lo = [-vol["dx"] / 2.0 - grow, -vol["dy"] / 2.0 - grow, -vol["dz"] - grow]
    hi = [vol["dx"] / 2.0 + grow, vol["dy"] / 2.0 + grow, grow]
    t = (-math.inf, math.inf)
    for i in range(3):
        t = _slab(t[0], t[1], lo[i], hi[i], v[i], u[i])
        if t is None:
            return None
    return t if t[0] <= t[1] else None


def ref_cyl_t(vol, v, u, grow=0.0):
    """Quadratic in t for the side (stable root pair), slab for top and bottom."""
    R, dz = vol["dr"] + grow, vol["dz"]
    t = (-math.inf, math.inf)
    a = u[0] * u[0] + u[1] * u[1]
    rho = math.hypot(v[0], v[1])
    c = (rho - R) * (rho + R)                 # <= 0 inside
    if a > 0.0:
        hb = v[0] * u[0] + v[1] * u[1]
        disc = hb * hb - a * c
        if disc < 0.0:
            return None
        sq = math.sqrt(disc)
        # roots q/a and c/q with q = -(hb + sign(hb) sq): no cancellation
        q = -(hb + sq) if hb >= 0.0 else -(hb - sq)
        roots = [q / a, c / q] if q != 0.0 else [0.0, 0.0]
        t = (min(roots), max(roots))
    elif c > 0.0:
        return None
    t = _slab(t[0], t[1], -dz - grow, grow, v[2], u[2])
    if t is None or not t[0] <= t[1]:
        return None
    return t


def ref_t(vol, v, u, grow=0.0):
    return ref_cyl_t(vol, v, u, grow) if vol["kind"] == "cyl" else ref_box_t(vol, v, u, grow)


def boundary_distance(vol, p):
    """(signed) how far p is outside the closed volume (<=0 inside), and its distance to the surface."""
    if vol["kind"] == "cyl":
        gaps = [math.hypot(p[0], p[1]) - vol["dr"], p[2], -vol["dz"] - p[2]]
    else:
        gaps = [abs(p[0]) - vol["dx"] / 2.0, abs(p[1]) - vol["dy"] / 2.0, p[2], -vol["dz"] - p[2]]
    outside = max(gaps)
    return outside, abs(outside)


def n_faces_near(vol, p, tol):
    if vol["kind"] == "cyl":
        gaps = [math.hypot(p[0], p[1]) - vol["dr"], p[2], -vol["dz"] - p[2]]
    else:
        gaps = [p[0] - vol["dx"] / 2.0, -p[0] - vol["dx"] / 2.0, p[1] - vol["dy"] / 2.0,
                -p[1] - vol["dy"] / 2.0, p[2], -vol["dz"] - p[2]]
    return sum(1 for g in gaps if abs(g) <= tol)


def direction_classes(u):
    cl = set()
    nz = [abs(c) for c in u if c != 0.0]
    if len(nz) == 1:
        cl.add("axis_parallel")
    elif len(nz) == 2:
        cl.add("zero_component")
    if min(nz) < NEAR_AXIS * max(nz):
        cl.add("near_axis")
    if u[0] == 0.0 and u[1] == 0.0:
        cl.add("vertical")
    if not cl:
        cl.add("generic")
    return cl


# ---------------------------------------------------------------------------
# generators of specs


@st.composite
def volumes(draw, kind=None):
    """Cylinder or box, dimensions 10 .. 1e5 m, aspect ratios up to 1:1000."""
    kind = kind or draw(st.sampled_from(["cyl", "box"]))

    def ratio():
        if draw(st.integers(0, 3)) == 0:
            return draw(st.sampled_from([1.0, 0.5, 2.0, 1e-3, 1e3, 0.1, 10.0]))
        return math.exp(draw(floats(-math.log(1000.0), math.log(1000.0))))
    rs = [ratio()] if kind == "cyl" else [ratio(), ratio()]
    if max(rs + [1.0]) / min(rs + [1.0]) > 1e4:
        rs[1] = 1.0
    lo = 10.0 / min(rs + [1.0])
    hi = 1e5 / max(rs + [1.0])
    base = draw(log_floats(lo, hi)) if hi > lo else lo
    if draw(st.integers(0, 5)) == 0:
        nice = [b for b in (10.0, 100.0, 1000.0, 5000.0, 10000.0, 100000.0) if lo <= b <= hi]
        if nice:
            base = draw(st.sampled_from(nice))
    others = [min(1e5, max(10.0, base * r)) for r in rs]
    if kind == "cyl":
        return dict(kind="cyl", dr=base, dz=others[0])
    return dict(kind="box", dx=base, dy=others[0], dz=others[1])


@st.composite
def flavor_ratios(draw):
    kind = draw(st.sampled_from(["default", "ints", "floats", "one_zero", "two_zero", "tiny"]))
    if kind == "default":
        return [1, 1, 1]
    if kind == "ints":
        return [draw(st.integers(1, 9)) for _ in range(3)]
    if kind == "floats":
        return [draw(floats(0.05, 5.0)) for _ in range(3)]
    if kind == "tiny":
        r = [draw(floats(0.2, 2.0)) for _ in range(3)]
        r[draw(st.integers(0, 2))] = draw(log_floats(1e-4, 1e-2))
        return r
    r = [draw(st.one_of(st.integers(1, 5), floats(0.1, 3.0))) for _ in range(3)]
    zeros = draw(st.permutations([0, 1, 2]))[:1 if kind == "one_zero" else 2]
    for i in zeros:
        r[i] = draw(st.sampled_from([0, 0.0]))
    return r


energies = st.one_of(log_floats(1e3, 1e12),
                     st.sampled_from([1e3, 1e4, 1e5, 1e6, 1e7, 1e8, 1e9, 1e10, 1e11, 1e12]))


@st.composite
def energy_specs(draw):
    """Constant (float / int) or callable (successive values)."""
    kind = draw(st.sampled_from(["const", "const_int", "callable", "callable"]))
    if kind == "const":
        return dict(kind="const", value=draw(energies))
    if kind == "const_int":
        return dict(kind="const", value=int(10 ** draw(st.integers(3, 12))))
    return dict(kind="callable", values=draw(st.lists(energies, min_size=1, max_size=5)))


def build_energy(spec):
    if spec["kind"] == "const":
        return spec["value"], None
    src = EnergySource(spec["values"])
    return src, src


# ---------------------------------------------------------------------------
# 1-3  distribution of vertices and directions


@st.composite
def vertex_block_cases(draw, kind):
    return dict(vol=draw(volumes(kind)), seed=draw(gens.seeds32), n=BLOCK)


def check_vertex_cylinder(case, rec):
    vol = case["vol"]
    gen = build_generator(vol)
    np.random.seed(case["seed"])
    pts = np.array([gen.get_vertex() for _ in range(case["n"])], dtype=float)
    require(pts.shape == (case["n"], 3), "get_vertex does not return 3-vectors: %r", pts.shape)
    R, dz = vol["dr"], vol["dz"]
    r2 = (pts[:, 0] ** 2 + pts[:, 1] ** 2) / R ** 2
    w = -pts[:, 2] / dz
    # inside the declared cylinder (4 ulp for the squares)
    require(float(np.max(r2)) <= 1.0 + 8 * EPS, "vertex outside the cylinder radius: r^2/R^2 = %r "
            "(dr=%r)", float(np.max(r2)), R)
    require(float(np.min(w)) >= 0.0 and float(np.max(w)) <= 1.0,
            "vertex outside -dz <= z <= 0: z/dz range [%r, %r]", -float(np.max(w)), -float(np.min(w)))
    phi = np.mod(np.arctan2(pts[:, 1], pts[:, 0]), 2 * math.pi) / (2 * math.pi)
    check_uniform_block([r2, phi, w], ["r^2/R^2", "phi/2pi", "-z/dz"],
                        "CylindricalGenerator(dr=%r, dz=%r).get_vertex, seed %d" % (R, dz, case["seed"]),
                        bins=4)
    aspect = max(2 * R / dz, dz / (2 * R))
    rec.case(case, nontrivial=True,
             classes=["aspect>=100"] if aspect >= 100 else ["aspect<100"])


def check_vertex_box(case, rec):
    vol = case["vol"]
    gen = build_generator(vol)
    np.random.seed(case["seed"])
    pts = np.array([gen.get_vertex() for _ in range(case["n"])], dtype=float)
    require(pts.shape == (case["n"], 3), "get_vertex does not return 3-vectors: %r", pts.shape)
    a = pts[:, 0] / vol["dx"] + 0.5
    b = pts[:, 1] / vol["dy"] + 0.5
    c = -pts[:, 2] / vol["dz"]
    for col, name in ((a, "x"), (b, "y"), (c, "z")):
        require(float(np.min(col)) >= 0.0 and float(np.max(col)) <= 1.0,
                "vertex outside the declared box along %s: normalised range [%r, %r] (%r)",
                name, float(np.min(col)), float(np.max(col)), vol)
    check_uniform_block([a, b, c], ["x/dx+1/2", "y/dy+1/2", "-z/dz"],
                        "RectangularGenerator(%r, %r, %r).get_vertex, seed %d"
                        % (vol["dx"], vol["dy"], vol["dz"], case["seed"]), bins=4)
    d = sorted([vol["dx"], vol["dy"], vol["dz"]])
    rec.case(case, nontrivial=True,
             classes=["aspect>=100"] if d[2] / d[0] >= 100 else ["aspect<100"])


def check_direction(case, rec):
    vol = case["vol"]
    gen = build_generator(vol)
    np.random.seed(case["seed"])
    ds = np.array([gen.get_direction() for _ in range(case["n"])], dtype=float)
    require(ds.shape == (case["n"], 3), "get_direction does not return 3-vectors: %r", ds.shape)
    norm = np.sqrt(np.sum(ds ** 2, axis=1))
    # sin^2+cos^2 products: a few roundings
    require(float(np.max(np.abs(norm - 1.0))) <= 8 * EPS,
            "direction is not a unit vector: | |u| - 1 | = %r", float(np.max(np.abs(norm - 1.0))))
    cz = (ds[:, 2] + 1.0) / 2.0
    phi = np.mod(np.arctan2(ds[:, 1], ds[:, 0]), 2 * math.pi) / (2 * math.pi)
    what = "%s.get_direction, seed %d" % (vol["kind"], case["seed"])
    check_uniform_block([cz, phi], ["(cos(theta)+1)/2", "phi/2pi"], what, bins=8)
    # isotropy seen along the other two axes as well (each Cartesian component of an
    # isotropic unit vector is uniform on [-1, 1]: Archimedes)
    crit = dkw_crit(case["n"])
    for k, name in ((0, "u_x"), (1, "u_y")):
        d = ks_uniform((ds[:, k] + 1.0) / 2.0)
        require(d <= crit, "%s: %s is not uniform on [-1,1]: Kolmogorov distance %.5f > %.5f",
                what, name, d, crit)
    rec.case(case, nontrivial=True, classes=[vol["kind"]])


# ---------------------------------------------------------------------------
# 4  particle types


@st.composite
def type_block_cases(draw):
    src = draw(st.sampled_from(["cosmogenic", "cosmogenic", "astrophysical", "pgamma", "pp",
                                "enum:cosmogenic", "enum:astrophysical", "int:1", "int:2",
                                "unsupported"]))
    if src == "unsupported":
        src = draw(st.sampled_from(["none", "unknown", "undefined", "int:0"]))
    return dict(vol=draw(volumes()), ratio=draw(flavor_ratios()), source=src,
                seed=draw(gens.seeds32), n=BLOCK)


def _source_arg(src):
    import pyrex.generation as pg
    if src == "none":
        return None, None
    if src.startswith("enum:"):
        return getattr(pg.Generator.SourceType, src[5:]), src[5:]
    if src.startswith("int:"):
        v = int(src[4:])
        return v, {0: None, 1: "cosmogenic", 2: "astrophysical"}[v]
    canon = {"pgamma": "cosmogenic", "pp": "astrophysical"}
    return src, (canon.get(src, src) if src in NU_FRACTION else None)


def ref_type_probabilities(ratio, source_name):
    tot = math.fsum(float(r) for r in ratio)
    fr = NU_FRACTION[source_name]
    p = {}
    for k, flav in enumerate(["electron", "muon", "tau"]):
        pf = float(ratio[k]) / tot
        p[flav + "_neutrino"] = pf * fr[k]
        p[flav + "_antineutrino"] = pf * (1.0 - fr[k])
    return p


def binomial_two_sided(k, n, p):
    from scipy.stats import binom
    return float(min(1.0, 2.0 * min(binom.cdf(k, n, p), binom.sf(k - 1, n, p))))


def check_type_counts(counts, n, probs, what):
    for name in NU_TYPES:
        k = counts.get(name, 0)
        p = probs[name]
        if p == 0.0:
            require(k == 0, "%s: %d draws of %s although its probability is 0", what, k, name)
            continue
        pv = binomial_two_sided(k, n, p)
        require(pv >= P_REJECT / 6.0,
                "%s: %d of %d draws are %s, configured probability %.6f (expected %.1f); "
                "exact binomial p = %.3g", what, k, n, name, p, n * p, pv)
    extra = set(counts) - set(NU_TYPES)
    require(not extra, "%s: produced particle types %r", what, sorted(extra))


def check_particle_type(case, rec):
    import pyrex.particle as pp
    arg, name = _source_arg(case["source"])
    ratio = case["ratio"]
    gen = build_generator(case["vol"], flavor_ratio=tuple(ratio), source=arg)
    tot = math.fsum(float(r) for r in ratio)
    got = [float(x) for x in gen.ratio]
    require(all(abs(g - float(r) / tot) <= 4 * EPS for g, r in zip(got, ratio)),
            "ratio attribute %r is not the normalised flavor_ratio %r", got, ratio)
    np.random.seed(case["seed"])
    if name is None:
        try:
            t = gen.get_particle_type()
        except ValueError:
            rec.case(case, nontrivial=False, classes=["unsupported_source"])
            return
        raise Violation("source %r is neither cosmogenic nor astrophysical but get_particle_type "
                        "returned %r" % (case["source"], t))
    counts = {}
    for _ in range(case["n"]):
        t = gen.get_particle_type()
        require(isinstance(t, pp.Particle.Type), "get_particle_type returned %r", t)
        counts[t.name] = counts.get(t.name, 0) + 1
    probs = ref_type_probabilities(ratio, name)
    check_type_counts(counts, case["n"], probs,
                      "flavor_ratio=%r source=%r seed=%d" % (ratio, case["source"], case["seed"]))
    classes = ["source=" + name]
    if any(float(r) == 0.0 for r in ratio):
        classes.append("zero_flavour")
    if abs(tot - 1.0) > 1e-9:
        classes.append("unnormalised")
    if len(set(float(r) for r in ratio)) > 1:
        classes.append("unequal")
    rec.case(case, nontrivial=True, classes=classes)


# ---------------------------------------------------------------------------
# 5-6  exit points


def _sph(theta, phi):
    return [math.cos(phi) * math.sin(theta), math.sin(phi) * math.sin(theta), math.cos(theta)]


@st.composite
def inside_vertices(draw, vol, boundary=False):
    """
    Vertex spec -> (vertex, kind).  boundary=False: strictly inside with a 1e-6 relative
    margin from every face; boundary=True: exactly on a face / edge / corner / the side.
    """
    m = 1e-6
    kinds = ["boundary"] if boundary else ["inside", "inside", "inside", "centre", "near_face"]
    kind = draw(st.sampled_from(kinds))
    dz = vol["dz"]
    if kind == "boundary":
        wz = draw(st.sampled_from([0.0, 1.0, None, None]))
    else:
        wz = None
    if wz is None:
        w = draw(floats(m, 1.0 - m))
        if kind == "near_face" and draw(st.booleans()):
            w = draw(st.sampled_from([m, 1.0 - m, 1e-4, 1 - 1e-4]))
        z = -dz * w
    else:
        z = -dz * wz if wz else 0.0
    if vol["kind"] == "cyl":
        R = vol["dr"]
        if kind == "centre":
            return [0.0, 0.0, z], kind
        if kind == "boundary" and (wz is None or draw(st.booleans())):
            # exactly representable points of the side surface
            x, y = draw(st.sampled_from([(R, 0.0), (-R, 0.0), (0.0, R), (0.0, -R)]))
            return [x, y, z], kind
        f = math.sqrt(draw(floats(0.0, 1.0))) * (1.0 - m)
        if kind == "near_face":
            f = 1.0 - draw(log_floats(m, 1e-3))
        ph = draw(floats(0.0, 2 * math.pi))
        return [R * f * math.cos(ph), R * f * math.sin(ph), z], kind
    hx, hy = vol["dx"] / 2.0, vol["dy"] / 2.0
    if kind == "centre":
        return [0.0, 0.0, z], kind
    fx = draw(floats(-1.0 + m, 1.0 - m))
    fy = draw(floats(-1.0 + m, 1.0 - m))
    if kind == "near_face":
        if draw(st.booleans()):
            fx = draw(st.sampled_from([-1.0, 1.0])) * (1.0 - draw(log_floats(m, 1e-3)))
        else:
            fy = draw(st.sampled_from([-1.0, 1.0])) * (1.0 - draw(log_floats(m, 1e-3)))
    if kind == "boundary":
        which = draw(st.sampled_from(["x", "y", "xy", "none"] if wz is not None else ["x", "y", "xy"]))
        if "x" in which:
            fx = draw(st.sampled_from([-1.0, 1.0]))
        if "y" in which:
            fy = draw(st.sampled_from([-1.0, 1.0]))
    return [hx * fx, hy * fy, z], kind


@st.composite
def exit_directions(draw, vol, vertex):
    """Direction (not necessarily normalised) and the name of the construction."""
    kind = draw(st.sampled_from(["mix", "mix", "mix", "angles", "edge", "edge", "horizontal",
                                 "tilt", "scaled"]))
    if kind == "mix":
        return draw(gens.unit_vectors()), kind
    if kind == "angles":
        # directions as users write them: spherical angles at multiples of pi/2 leave
        # components of size 1e-16 instead of exact zeros
        th = draw(st.one_of(st.sampled_from([0.0, math.pi / 2, math.pi, math.pi / 4]),
                            floats(0.0, math.pi)))
        ph = draw(st.one_of(st.sampled_from([0.0, math.pi / 2, math.pi, 1.5 * math.pi, 2 * math.pi]),
                            floats(0.0, 2 * math.pi)))
        return _sph(th, ph), kind
    if kind == "horizontal":
        ph = draw(floats(0.0, 2 * math.pi))
        return [math.cos(ph), math.sin(ph), 0.0], kind
    if kind == "tilt":
        # a tiny tilt away from an axis, down to the resolution of floats
        ax = draw(st.integers(0, 2))
        u = [0.0, 0.0, 0.0]
        u[ax] = draw(st.sampled_from([1.0, -1.0]))
        other = [i for i in range(3) if i != ax]
        e = draw(st.sampled_from([1e-17, 1e-15, 1e-13, 1e-11, 1e-9, 1e-7]))
        u[other[0]] = e * draw(st.sampled_from([1.0, -1.0]))
        u[other[1]] = draw(st.sampled_from([0.0, e, -e, 0.3, -0.7]))
        return u, kind
    if kind == "scaled":
        u = draw(gens.unit_vectors())
        k = draw(st.sampled_from([2.0, 1e-6, 1e6, 0.5, 3.0]))
        return [k * c for c in u], kind
    # aimed at a point of an edge / the rim / a corner of the volume (grazing it)
    dz = vol["dz"]
    if vol["kind"] == "cyl":
        ph = draw(st.one_of(floats(0.0, 2 * math.pi),
                            st.sampled_from([0.0, math.pi / 2, math.pi])))
        tgt = [vol["dr"] * math.cos(ph), vol["dr"] * math.sin(ph),
               draw(st.sampled_from([0.0, -dz]))]
    else:
        hx, hy = vol["dx"] / 2.0, vol["dy"] / 2.0
        sx, sy = draw(st.sampled_from([-1.0, 1.0])), draw(st.sampled_from([-1.0, 1.0]))
        sz = draw(st.sampled_from([0.0, -dz]))
        free = draw(st.sampled_from(["x", "y", "z", "corner"]))
        tgt = [hx * sx, hy * sy, sz]
        if free == "x":
            tgt[0] = hx * draw(floats(-1.0, 1.0))
        elif free == "y":
            tgt[1] = hy * draw(floats(-1.0, 1.0))
        elif free == "z":
            tgt[2] = -dz * draw(floats(0.0, 1.0))
    d = [tgt[i] - vertex[i] for i in range(3)]
    if max(abs(c) for c in d) < 1e-3 * vol_size(vol):
        # the target (nearly) coincides with a boundary vertex: no direction is defined
        # (a vector of length 1e-196 cannot even be normalised: its square underflows)
        d = [0.3, 0.4, -0.5]
    if draw(st.booleans()):
        d = [-c for c in d]
    return d, kind


@st.composite
def exit_cases(draw, kind, boundary=False):
    vol = draw(volumes(kind))
    v, vkind = draw(inside_vertices(vol, boundary))
    d, dkind = draw(exit_directions(vol, v))
    return dict(vol=vol, vertex=v, direction=d, vkind=vkind, dkind=dkind,
                ptype=draw(st.sampled_from(NU_TYPES)), energy=draw(energies))


def check_exit(case, rec):
    from pyrex.particle import Particle
    vol, v, d = case["vol"], case["vertex"], case["direction"]
    u = unit(d)
    size = vol_size(vol)
    tol = PT_TOL * size
    gen = build_generator(vol)
    st0 = np.random.get_state()
    p = Particle(particle_id=case["ptype"], vertex=tuple(v), direction=tuple(d), energy=case["energy"])
    np.random.set_state(st0)
    res = gen.get_exit_points(p)
    require(isinstance(res, tuple) and len(res) == 2, "get_exit_points returned %r", res)
    pts = []
    for name, q in zip(("entry", "exit"), res):
        q = np.asarray(q, dtype=float)
        require(q.shape == (3,) and bool(np.all(np.isfinite(q))),
                "exit-points: %s point %r is not a finite 3-vector (vertex %r, direction %r, %r)",
                name, q, v, d, vol)
        pts.append([float(c) for c in q])
    nominal = ref_t(vol, v, u)
    outer = ref_t(vol, v, u, tol)
    inner = ref_t(vol, v, u, -tol)
    if nominal is None or outer is None or not all(math.isfinite(x) for x in nominal + outer):
        raise HarnessError("reference intersection not finite for %r" % case)
    t_in, t_out = nominal
    refs = [[v[i] + t_in * u[i] for i in range(3)], [v[i] + t_out * u[i] for i in range(3)]]
    # A point is a correct entry (exit) point when it is one for some volume whose faces are
    # moved by at most tol: between the crossings of the grown and of the shrunk volume.  For a
    # line that runs inside a face within tol (it never enters the shrunk volume) every
    # boundary point of the line qualifies - the answer is not determined more sharply.
    if inner is None:
        classes_cond = {"line_in_face"}
        win = {"entry": (outer[0], outer[1]), "exit": (outer[0], outer[1])}
    else:
        classes_cond = set()
        win = {"entry": (outer[0], inner[0]), "exit": (inner[1], outer[1])}
    for name, q, r, t_ref in zip(("entry", "exit"), pts, refs, (t_in, t_out)):
        # predicate form
        outside, dist = boundary_distance(vol, q)
        require(dist <= tol, "exit-points: %s point %r is %.3g m away from the volume boundary "
                "(vertex %r, direction %r, %r; reference %r)", name, q, dist, v, u, vol, r)
        w = [q[i] - v[i] for i in range(3)]
        t = math.fsum(w[i] * u[i] for i in range(3))
        off = math.sqrt(math.fsum((w[i] - t * u[i]) ** 2 for i in range(3)))
        require(off <= tol, "exit-points: %s point %r is %.3g m off the line of flight "
                "(vertex %r, direction %r, %r; reference %r)", name, q, off, v, u, vol, r)
        if name == "entry":
            require(t <= tol, "exit-points: entry point %r lies %.3g m *ahead* of the vertex %r "
                    "(direction %r, %r)", q, t, v, u, vol)
        else:
            require(t >= -tol, "exit-points: exit point %r lies %.3g m *behind* the vertex %r "
                    "(direction %r, %r)", q, -t, v, u, vol)
        # reference form
        a, b = win[name]
        require(a - tol <= t <= b + tol,
                "exit-points: %s point %r at t = %r, reference intersection %r at t = %r "
                "(allowed t in [%r, %r] +- %.3g; vertex %r, direction %r, %r)",
                name, q, t, r, t_ref, a, b, tol, v, u, vol)
    t_e = math.fsum((pts[0][i] - v[i]) * u[i] for i in range(3))
    t_x = math.fsum((pts[1][i] - v[i]) * u[i] for i in range(3))
    require(t_e <= t_x + tol, "exit-points: entry %r is not before exit %r along %r", pts[0], pts[1], u)
    classes = direction_classes(u) | classes_cond
    classes.add("vertex=" + case["vkind"])
    classes.add(vol["kind"])
    if case["dkind"] == "edge":
        classes.add("aimed_at_edge")
    if n_faces_near(vol, refs[0], tol) >= 2 or n_faces_near(vol, refs[1], tol) >= 2:
        classes.add("through_edge")
    if abs(float(np.linalg.norm(d)) - 1.0) > 1e-6:
        classes.add("not_normalised")
    rec.case(case, nontrivial="axis_parallel" not in classes, classes=classes)


def classify_exit(case, exc):
    """Keys of the two exit-point defects (near-axis directions; lines through a box edge)."""
    msg = str(exc)
    is_exit = (isinstance(exc, ValueError) and "Could not determine exit points" in msg) or \
        (isinstance(exc, Violation) and msg.startswith("exit-points:"))
    if not is_exit:
        return None
    vol = case["vol"]
    u = unit(case["direction"])
    if vol["kind"] == "cyl":
        if "near_axis" in direction_classes(u):
            return "cylinder-exit-points-near-axis-direction"
        if math.hypot(case["vertex"][0], case["vertex"][1]) == vol["dr"]:
            return "cylinder-exit-points-vertex-on-side"
        return None
    if isinstance(exc, ValueError):
        t_in, t_out = ref_t(vol, case["vertex"], u)
        tol = PT_TOL * vol_size(vol)
        for t in (t_in, t_out):
            q = [case["vertex"][i] + t * u[i] for i in range(3)]
            if n_faces_near(vol, q, tol) >= 2:
                return "box-exit-points-line-through-edge"
    return None


# ---------------------------------------------------------------------------
# 7  weights


def snap(d):
    """Direction without tiny non-zero components (they are the business of exit_*)."""
    m = max(abs(c) for c in d)
    out = [0.0 if abs(c) < 1e-5 * m else c for c in d]
    return out


@st.composite
def weight_cases(draw):
    vol = draw(volumes())
    v, vkind = draw(inside_vertices(vol))
    kind = draw(st.sampled_from(["iso", "iso", "iso", "axis", "horizontal", "up", "down"]))
    if kind == "iso":
        d = _sph(math.acos(draw(floats(-1.0, 1.0))), draw(floats(0.0, 2 * math.pi)))
    elif kind == "axis":
        d = [0.0, 0.0, 0.0]
        d[draw(st.integers(0, 2))] = draw(st.sampled_from([1.0, -1.0]))
    elif kind == "horizontal":
        ph = draw(floats(0.0, 2 * math.pi))
        d = [math.cos(ph), math.sin(ph), 0.0]
    else:
        # steep: the Earth chord behind an up-going particle is long
        th = draw(log_floats(1e-4, 0.6))
        ph = draw(floats(0.0, 2 * math.pi))
        d = _sph(th if kind == "up" else math.pi - th, ph)
    d = snap(d)
    k = draw(st.sampled_from([1.0, 1.0, 1.0, 2.0, 1e-3, 50.0]))
    return dict(vol=vol, vertex=v, direction=[k * c for c in d], dkind=kind,
                ptype=draw(st.sampled_from(NU_TYPES)), energy=draw(energies),
                model=draw(st.sampled_from(MODELS)), earth=draw(st.sampled_from(EARTHS + ["PREM_default"])),
                shadow=draw(st.booleans()))


def disc_bound(g, V, rho_max, step, x_ref):
    """C15's bound on |slant_depth - integral| for the trapezoid with `step` (see c15.py)."""
    L = g["L"]
    q = L / step
    ks = {math.ceil(q * (1 - 1e-9)), math.ceil(q * (1 + 1e-9))}
    b = 0.0
    for k in ks:
        if k <= 1:
            b = max(b, 100.0 * rho_max * step)
        else:
            b = max(b, 100.0 * (L / (k - 1)) * V / 2.0 * SLACK)
    return b + RND * x_ref


def ref_survival(earth_name, v, u, L_tot):
    """
    (lo, hi, x_ref, classes): allowed interval of exp(-X/L_tot) for the chord that
    starts at the vertex and runs against the direction of flight.  None when the line
    touches the surface within rounding (C15 'ambiguous').
    """
    model = "PREM" if earth_name.startswith("PREM") else earth_name
    back = [-c for c in u]
    g = ref.chord(model, v, back)
    if g["tc"] > 0.0 and abs(g["b"] - g["R"]) < 1e-5:
        return None
    if not g["enters"]:
        return 1.0, 1.0, 0.0, {"no_earth_behind"}
    xq, _ = ref.column_quad(model, g)
    xc = ref.column_closed_form(model, g)
    if abs(xq - xc) > 1e-9 * max(xq, xc) + 1e-6:
        raise HarnessError("reference integrals disagree: %r %r" % (xq, xc))
    V, rho_max = ref.variation(model, g)
    b = disc_bound(g, V, rho_max, 500.0, xq)
    lo = math.exp(-(xq + b) / L_tot) * (1 - 1e-12)
    hi = math.exp(-max(0.0, xq - b) / L_tot) * (1 + 1e-12)
    cl = set()
    if g["L"] <= 500.0:
        cl.add("chord<step")
    if len(set(i for _, _, i in ref.pieces(model, g))) >= 2:
        cl.add("crosses_shell")
    mid = math.exp(-xq / L_tot)
    if 0.01 < mid < 0.99:
        cl.add("survival_intermediate")
    elif mid <= 0.01:
        cl.add("survival_small")
    return lo, min(hi, 1.0), xq, cl


def ref_interaction(vol, v, u, L_tot, tol):
    """Allowed interval of (l / L) exp(-d / L), L = L_tot / 0.92 / 100 (cm w.e. -> m of ice)."""
    t_in, t_out = ref_t(vol, v, u)
    L = L_tot / 0.92 / 100.0
    ell = t_out - t_in
    dist = -t_in
    mid = ell / L * math.exp(-dist / L)
    lo = max(0.0, ell - 2 * tol) / L * math.exp(-(dist + tol) / L) * (1 - 1e-12)
    hi = (ell + 2 * tol) / L * math.exp(-max(0.0, dist - tol) / L) * (1 + 1e-12)
    return lo, hi, mid, ell, dist, L


def assert_weights(sw, iw, vol, v, u, ptype, energy, model, earth_name, shadowed=False):
    """Compare a (survival, interaction) pair with the reference; returns classes."""
    L_tot = ref_total_length(model, ptype, float(energy))
    tol = PT_TOL * vol_size(vol)
    classes = set()
    require(math.isfinite(sw) and math.isfinite(iw), "weights not finite: %r %r", sw, iw)
    s = ref_survival(earth_name, v, u, L_tot)
    if shadowed:
        require(sw == 1, "with shadow=True the accepted particle must carry survival weight 1, got %r", sw)
    elif s is None:
        classes.add("ambiguous_surface_graze")
        require(0.0 <= sw <= 1.0, "survival weight %r outside [0,1]", sw)
    else:
        lo, hi, xq, cl = s
        classes |= cl
        require(lo <= sw <= hi,
                "survival weight %r but exp(-X/L) must lie in [%r, %r]: column depth X = %r g/cm^2 "
                "behind vertex %r against direction %r (%s), total interaction length %r cm w.e. "
                "(%s %s at %r GeV)", sw, lo, hi, xq, v, u, earth_name, L_tot, model, ptype, energy)
    lo, hi, mid, ell, dist, L = ref_interaction(vol, v, u, L_tot, tol)
    require(lo <= iw <= hi,
            "interaction weight %r but (l/L) exp(-d/L) = %r (allowed [%r, %r]): in-ice chord l = %r m, "
            "distance travelled in ice d = %r m, L = %r m of ice (%s %s at %r GeV; vertex %r "
            "direction %r, %r)", iw, mid, lo, hi, ell, dist, L, model, ptype, energy, v, u, vol)
    if dist / L > 1e-3:
        classes.add("attenuated_in_ice")
    return classes


def check_weights(case, rec):
    from pyrex.particle import Particle
    vol, v, d = case["vol"], case["vertex"], case["direction"]
    u = unit(d)
    gen = build_generator(vol, energy=case["energy"], shadow=case["shadow"],
                          interaction_model=_model_class(case["model"]),
                          earth_model=_earth(case["earth"]))
    np.random.seed(0)
    p = Particle(particle_id=case["ptype"], vertex=tuple(v), direction=tuple(d),
                 energy=case["energy"], interaction_model=_model_class(case["model"]))
    res = gen.get_weights(p)
    require(len(res) == 2, "get_weights returned %r", res)
    sw, iw = float(res[0]), float(res[1])
    classes = assert_weights(sw, iw, vol, v, u, case["ptype"], case["energy"], case["model"],
                             case["earth"])
    require(gen.count == 0, "get_weights changed count to %r", gen.count)
    classes |= {"dir=" + case["dkind"], case["model"], case["earth"]}
    classes.add("E>=1e9" if case["energy"] >= 1e9 else "E<1e9")
    rec.case(case, nontrivial=bool(classes & {"crosses_shell", "chord<step"}), classes=classes)


# ---------------------------------------------------------------------------
# 8  create_event histories


@st.composite
def event_cases(draw):
    return dict(vol=draw(volumes()), energy=draw(energy_specs()), shadow=draw(st.booleans()),
                ratio=draw(flavor_ratios()),
                source=draw(st.sampled_from(["cosmogenic", "astrophysical", "pgamma", "pp"])),
                model=draw(st.sampled_from(MODELS)), earth=draw(st.sampled_from(EARTHS + ["PREM_default"])),
                seed=draw(gens.seeds32), n=draw(st.integers(1, 10)),
                preset_count=draw(st.sampled_from([None, None, 0, 7, 1000])))


def _inside(vol, v, slack):
    outside, _ = boundary_distance(vol, v)
    return outside <= slack


def check_events(case, rec):
    import pyrex.particle as pp
    vol = case["vol"]
    energy, src = build_energy(case["energy"])
    cls = recording_class(_gen_class(vol))
    gen = build_generator(vol, energy=energy, cls=cls, shadow=case["shadow"],
                          flavor_ratio=tuple(case["ratio"]), source=case["source"],
                          interaction_model=_model_class(case["model"]),
                          earth_model=_earth(case["earth"]))
    require(gen.count == 0, "a new generator has count %r", gen.count)
    if case["preset_count"] is not None:
        gen.count = case["preset_count"]
    base = gen.count
    np.random.seed(case["seed"])
    probs = ref_type_probabilities(case["ratio"], case["source"])
    classes = set()
    throws_seen = 0
    for k in range(case["n"]):
        before = gen.count
        ev = gen.create_event()
        state = np.random.get_state()
        throws = len(gen.log) - throws_seen
        throws_seen = len(gen.log)
        require(throws >= 1, "create_event made no throw")
        require(gen.count == before + throws,
                "count went from %r to %r during a create_event call that made %d throw(s) "
                "(shadow=%r)", before, gen.count, throws, case["shadow"])
        if not case["shadow"]:
            require(throws == 1, "shadow=False but create_event made %d throws", throws)
        elif throws > 1:
            classes.add("rejected_throws")
        if src is not None:
            require(src.calls == throws_seen,
                    "energy source called %d times for %d throws", src.calls, throws_seen)
        require(isinstance(ev, pp.Event), "create_event returned %r", type(ev))
        require(len(ev.roots) == 1 and len(ev) == 1, "event has %d roots / %d particles",
                len(ev.roots), len(ev))
        p = ev.roots[0]
        last = gen.log[-1]
        require(last.get("particle") is p, "returned particle is not the last one thrown")
        vtx = [float(c) for c in p.vertex]
        u = [float(c) for c in p.direction]
        require(np.array_equal(p.vertex, last["vertex"]),
                "event vertex %r is not the vertex drawn by get_vertex %r", vtx, last["vertex"])
        du = unit([float(c) for c in last["direction"]])
        require(max(abs(a - b) for a, b in zip(u, du)) <= 4 * EPS,
                "event direction %r is not the direction drawn by get_direction %r", u, du)
        require(p.id is last["type"], "event particle id %r, get_particle_type drew %r", p.id, last["type"])
        require(p.id.name in probs and probs[p.id.name] > 0.0,
                "particle type %r has probability 0 for ratio %r", p.id, case["ratio"])
        want_e = (case["energy"]["value"] if src is None
                  else src.values[(throws_seen - 1) % len(src.values)])
        require(p.energy == want_e, "event energy %r, the source supplied %r for throw %d",
                p.energy, want_e, throws_seen)
        require(isinstance(p.interaction, _model_class(case["model"])) and
                type(p.interaction) is _model_class(case["model"]),
                "interaction model %r, configured %s", type(p.interaction), case["model"])
        require(_inside(vol, vtx, 4 * EPS * vol_size(vol)), "vertex %r outside the volume %r", vtx, vol)
        sw, iw = p.survival_weight, p.interaction_weight
        require(sw is not None and iw is not None, "weights not set: %r %r", sw, iw)
        classes |= assert_weights(float(sw), float(iw), vol, vtx, u, p.id.name, float(p.energy),
                                  case["model"], case["earth"], shadowed=case["shadow"])
        require(abs(float(p.weight) - float(sw) * float(iw)) <= 4 * EPS * float(p.weight),
                "particle.weight %r != survival * interaction = %r", p.weight, float(sw) * float(iw))
        if not case["shadow"]:
            require((float(sw), float(iw)) == last["weights"],
                    "event weights %r differ from get_weights %r", (sw, iw), last["weights"])
        np.random.set_state(state)
    require(gen.count == base + len(gen.log), "count %r after %d throws from %r", gen.count,
            len(gen.log), base)
    classes.add("shadow" if case["shadow"] else "no_shadow")
    classes.add("energy=" + case["energy"]["kind"])
    rec.case(case, nontrivial=case["n"] >= 2, classes=classes)


# ---------------------------------------------------------------------------
# 9  shadowing


@st.composite
def shadow_cases(draw):
    # energies where a sizeable part of the sky has an intermediate survival probability
    e = draw(st.one_of(log_floats(1e4, 1e9), energies))
    return dict(vol=draw(volumes()), energy=e, model=draw(st.sampled_from(MODELS)),
                earth=draw(st.sampled_from(EARTHS)), seed=draw(gens.seeds32),
                n=draw(st.integers(150, 300)))


def check_shadow(case, rec):
    vol = case["vol"]
    cls = recording_class(_gen_class(vol))
    gen = build_generator(vol, energy=case["energy"], cls=cls, shadow=True,
                          interaction_model=_model_class(case["model"]),
                          earth_model=_earth(case["earth"]))
    np.random.seed(case["seed"])
    accepted = []          # per throw
    ws = []
    for k in range(case["n"]):
        n0 = len(gen.log)
        before = gen.count
        ev = gen.create_event()
        n1 = len(gen.log)
        require(gen.count - before == n1 - n0,
                "count increased by %d during a create_event call that made %d throws "
                "(%d rejected)", gen.count - before, n1 - n0, n1 - n0 - 1)
        for j in range(n0, n1):
            ws.append(gen.log[j]["weights"][0])
            accepted.append(1.0 if j == n1 - 1 else 0.0)
        p = ev.roots[0]
        require(p.survival_weight == 1, "accepted particle has survival weight %r", p.survival_weight)
        require(p is gen.log[-1]["particle"], "returned particle is not the accepted throw")
        require(float(p.interaction_weight) == gen.log[-1]["weights"][1],
                "accepted particle has interaction weight %r, get_weights gave %r",
                p.interaction_weight, gen.log[-1]["weights"][1])
    ws = np.array(ws)
    acc = np.array(accepted)
    require(bool(np.all((ws >= 0.0) & (ws <= 1.0))), "survival weights outside [0,1]")
    # probability 1 - w of rejection: w = 1 is never rejected, w = 0 always
    require(bool(np.all(acc[ws >= 1.0] == 1.0)), "a throw with survival weight 1 was rejected")
    require(bool(np.all(acc[ws <= 0.0] == 0.0)), "a throw with survival weight 0 was accepted")
    S = float(np.sum(acc - ws))
    V = float(np.sum(ws * (1.0 - ws)))
    bound = bernstein_bound(V)
    require(abs(S) <= bound,
            "acceptance does not follow the survival weight: sum(accepted - w) = %.2f over %d throws "
            "(%d accepted), variance %.2f, |sum| must be <= %.2f at p=1e-9 (E=%r, %s)",
            S, len(ws), int(acc.sum()), V, bound, case["energy"], case["model"])
    # directions of the throws: accepted ones are biased down-going, all throws are not
    classes = set()
    if len(ws) > case["n"]:
        classes.add("rejections")
    if V >= 5.0:
        classes.add("variance>=5")
    if len(ws) >= 2 * case["n"]:
        classes.add("mostly_rejected")
    rec.case(case, nontrivial=V >= 5.0 and len(ws) > case["n"], classes=classes)


# ---------------------------------------------------------------------------
# 10  ListGenerator


@st.composite
def list_cases(draw):
    k = draw(st.integers(1, 5))
    items = [draw(st.sampled_from(["event", "event", "particle", "event2"])) for _ in range(k)]
    container = draw(st.sampled_from(["list", "list", "single"])) if k == 1 else "list"
    ops = []
    for _ in range(draw(st.integers(1, 24))):
        o = draw(st.sampled_from(["create", "create", "create", "create", "read", "set_count",
                                  "set_loop"]))
        if o == "set_count":
            ops.append({"op": o, "value": draw(st.integers(0, 50))})
        elif o == "set_loop":
            ops.append({"op": o, "value": draw(st.booleans())})
        else:
            ops.append({"op": o})
    return dict(items=items, container=container, loop=draw(st.sampled_from([True, False, None])),
                ops=ops)


def check_list(case, rec):
    import pyrex.particle as pp
    from pyrex.generation import ListGenerator
    np.random.seed(0)
    parts, given = [], []
    for i, kind in enumerate(case["items"]):
        p = pp.Particle("nu_e", (0.0, 0.0, -100.0 - i), (0.0, 0.0, 1.0), 1e9)
        if kind == "particle":
            parts.append([p])
            given.append(p)
        elif kind == "event2":
            q = pp.Particle("nu_mu", (1.0, 0.0, -100.0 - i), (0.0, 1.0, 0.0), 1e8)
            parts.append([p, q])
            given.append(pp.Event([p, q]))
        else:
            parts.append([p])
            given.append(pp.Event(p))
    originals = list(given)
    arg = given[0] if case["container"] == "single" else given
    if case["loop"] is None:
        gen = ListGenerator(arg)
        loop = True
    else:
        gen = ListGenerator(arg, loop=case["loop"])
        loop = case["loop"]
    k = len(parts)
    thrown = 0          # successful throws
    count = 0           # model of `count`
    classes = set()
    require(gen.count == 0, "new ListGenerator has count %r", gen.count)
    for step, op in enumerate(case["ops"]):
        if op["op"] == "read":
            require(gen.count == count, "step %d: count %r, model %r", step, gen.count, count)
        elif op["op"] == "set_count":
            gen.count = op["value"]
            count = op["value"]
            require(gen.count == count, "step %d: count reads %r after being set to %r",
                    step, gen.count, count)
            classes.add("count_set")
        elif op["op"] == "set_loop":
            gen.loop = op["value"]
            loop = op["value"]
        else:
            stop = (not loop) and thrown >= k
            try:
                ev = gen.create_event()
            except StopIteration:
                require(stop, "step %d: StopIteration after %d throws from a list of %d with loop=%r",
                        step, thrown, k, loop)
                require(gen.count == count, "step %d: a refused throw changed count %r -> %r",
                        step, count, gen.count)
                classes.add("stopped")
                continue
            require(not stop, "step %d: throw %d from a list of %d events with loop=False "
                    "returned an event instead of raising StopIteration", step, thrown + 1, k)
            i = thrown % k
            if thrown >= k:
                classes.add("cycled")
            thrown += 1
            count += 1
            require(isinstance(ev, pp.Event), "step %d: create_event returned %r", step, type(ev))
            if case["items"][i] != "particle":
                require(ev is originals[i], "step %d: throw %d returned a different object than "
                        "list entry %d", step, thrown, i)
            require(len(ev.roots) == len(parts[i]) and
                    all(a is b for a, b in zip(ev.roots, parts[i])),
                    "step %d: throw %d does not carry the particles of list entry %d", step, thrown, i)
            require(gen.count == count, "step %d: count %r after the throw, model %r",
                    step, gen.count, count)
    require(gen.count == count, "final count %r, model %r", gen.count, count)
    rec.case(case, nontrivial=bool(classes & {"cycled", "stopped"}), classes=classes)


# ---------------------------------------------------------------------------

PROPERTY = Property(
    "C13", "Generators throw uniform, isotropic, correctly weighted neutrinos; count throws",
    [
        SubCheck("vertex_cylinder", vertex_block_cases("cyl"), check_vertex_cylinder,
                 quick=48, thorough=1600, quick_shards=12,
                 rule="one block = 40000 get_vertex calls of a CylindricalGenerator with generated "
                      "dr, dz (10..1e5 m, aspect to 1:1000) and numpy seed; every block is non-trivial",
                 floors={"aspect>=100": 0.04}),
        SubCheck("vertex_box", vertex_block_cases("box"), check_vertex_box,
                 quick=48, thorough=1600, quick_shards=12,
                 rule="one block = 40000 get_vertex calls of a RectangularGenerator with generated "
                      "dx, dy, dz and numpy seed; every block is non-trivial",
                 floors={"aspect>=100": 0.1}),
        SubCheck("direction", vertex_block_cases(None), check_direction,
                 quick=32, thorough=1200, quick_shards=8,
                 rule="one block = 40000 get_direction calls (either generator class) with numpy seed",
                 floors={"cyl": 0.15, "box": 0.15}),
        SubCheck("particle_type", type_block_cases(), check_particle_type,
                 quick=64, thorough=2400, quick_shards=12,
                 rule="one block = 40000 get_particle_type calls for a generated flavour ratio "
                      "(zeros, unnormalised, 1e-4 fractions) and source (names, enum members, ints); "
                      "non-trivial = supported source (unsupported ones must raise ValueError)",
                 floors={"zero_flavour": 0.03, "unnormalised": 0.3, "source=cosmogenic": 0.2,
                         "source=astrophysical": 0.08, "unsupported_source": 0.02}),
        SubCheck("exit_cylinder", exit_cases("cyl"), check_exit, quick=3000, thorough=300000,
                 rule="cylinder x vertex (inside with 1e-6 margin, centre, near a face, exactly on a "
                      "face / the side) x direction (isotropic, axis, near-axis tilts down to 1e-17, "
                      "spherical angles at multiples of pi/2, aimed at the rim, unnormalised); "
                      "non-trivial = not parallel to an axis",
                 floors={"near_axis": 0.1, "generic": 0.15, "axis_parallel": 0.08,
                         "through_edge": 0.1},
                 classify=classify_exit),
        SubCheck("exit_box", exit_cases("box"), check_exit, quick=3000, thorough=300000,
                 rule="box x vertex (inside, centre, near a face, on faces / edges / corners) x "
                      "direction (as exit_cylinder; aimed at edges and corners); non-trivial = not "
                      "parallel to an axis",
                 floors={"near_axis": 0.15, "generic": 0.15, "axis_parallel": 0.08,
                         "through_edge": 0.08},
                 classify=classify_exit),
        SubCheck("exit_boundary", exit_cases(None, boundary=True), check_exit, quick=2400,
                 thorough=200000,
                 rule="either volume x vertex exactly on a face, edge, corner or (cylinder) on the four "
                      "exactly representable lines of the side x the same directions; non-trivial = "
                      "not parallel to an axis",
                 floors={"cyl": 0.15, "box": 0.25, "line_in_face": 0.2},
                 classify=classify_exit),
        SubCheck("weights", weight_cases(), check_weights, quick=1200, thorough=120000,
                 rule="volume x interior vertex x direction (isotropic, axes, horizontal, steep up/down; "
                      "no tiny non-zero components) x 6 neutrino types x energy 1e3..1e12 x {CTW, GQRS} x "
                      "{PREM, CoreMantleCrust}; get_weights vs reference integrals; non-trivial = the "
                      "Earth chord crosses a shell or is shorter than one integration step",
                 floors={"crosses_shell": 0.15, "survival_intermediate": 0.12, "chord<step": 0.1,
                         "attenuated_in_ice": 0.05, "GQRS": 0.2, "CoreMantleCrustModel": 0.12}),
        SubCheck("events", event_cases(), check_events, quick=600, thorough=60000,
                 rule="generator configuration (volume, constant / callable energy, shadow, flavour "
                      "ratio, source, interaction and earth model, preset count) x numpy seed x 1-10 "
                      "create_event calls observed through a recording subclass; non-trivial = >= 2 calls",
                 floors={"shadow": 0.2, "no_shadow": 0.25, "rejected_throws": 0.1,
                         "energy=callable": 0.2}),
        SubCheck("shadow", shadow_cases(), check_shadow, quick=160, thorough=6000, quick_shards=16,
                 rule="shadow=True generator x energy x numpy seed, 150-300 create_event calls; "
                      "non-trivial = at least one rejection and variance sum w(1-w) >= 5",
                 floors={"rejections": 0.4, "variance>=5": 0.3}),
        SubCheck("list_generator", list_cases(), check_list, quick=1600, thorough=150000,
                 rule="ListGenerator over 1-5 events / particles (list or single object), loop "
                      "True/False/default, history of <= 24 create / read count / set count / set loop "
                      "ops against a Python model; non-trivial = the list was exhausted (cycled or stopped)",
                 floors={"cycled": 0.2, "stopped": 0.15, "count_set": 0.3}),
    ],
    assumptions=[
        "distributional clauses are decided at p < 1e-9 per test on blocks of 40000 draws "
        "(detectable CDF shift about 1.6 %); smaller biases are invisible",
        "the neutrino fractions 0.78/0.61/0.61 (p-gamma) and 0.5 (pp) documented in "
        "get_particle_type are taken as 'the configured ratios'",
        "exit points are compared at 1e-9 x (largest dimension of the volume); vertices are inside "
        "the closed volume; the cylinder's curved side is only sampled for vertices that are exactly "
        "representable on it or at least 1e-6 (relative) inside",
        "survival weights are compared with the reference column density within C15's "
        "discretisation bound of the documented 500 m trapezoid step, propagated through exp",
        "the total interaction length is taken from the published cross-section fits "
        "(C14 checks pyrex's lengths against the same tables)",
        "FileGenerator (replay of files) is covered by C12, not here",
    ],
    design_ref="3/C13",
)
