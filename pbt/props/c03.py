"""C03 - ray propagation is passive, delays by the time of flight, polarization transverse
(DESIGN 3/C03).

Observed through ``path.propagate(signal, polarization[, attenuation_interpolation])``,
``path.attenuation(f)``, ``path.fresnel`` and the reported directions of the ray solutions of
``SpecializedRayTracer``, ``BasicRayTracer``, ``UniformRayTracer`` and ``LayeredRayTracer``.

Oracles (none of them uses pyrex's route: full ``fft`` of the padded signal times an
``np.interp`` table mirrored through ``abs(freqs)``, trapezoids in ``dz``, ``cos`` ratios):

* the time grid: ``out.times == in.times + path.tof`` element by element (one float add);
* the *definition* of the propagated signal, ``irfft(H * rfft(pad_2N(x)))[:N]`` with
  ``H(f >= 0) = attenuation(f) * fresnel * (polarization . u)``, pushed through numpy's real
  transforms (which cannot represent a non-Hermitian spectrum at all);
* attenuation: ``exp(-int ds / L_att(z, |f|))`` by Gauss-Legendre quadrature along the same ray
  (``ds = n dz / sqrt(n^2 - beta^2)``, the turning-point singularity removed by
  ``z = z_top - u^2``; straight mirrored legs in uniform ice), self-validated by doubling the
  number of panels;
* Fresnel: the sine / tangent laws and, beyond the critical angle, the phase angles
  ``tan(delta_s) = sqrt(sin^2 t1 - n^2) / cos t1``, ``tan(delta_p) = .. / (n^2 cos t1)``;
* Parseval's bound for the energy; plain vector algebra for the polarization basis.

The frequency dependence of the attenuation *length* is the ice model's (C16); it is only
meaningful for ice below 0 C, so the generated ice is at most 2800 m deep (assumption).
"""

import math

import numpy as np
from hypothesis import strategies as st

from ..core import Property, SubCheck, Violation, require
from .. import gens, ref_rays as R
from ..gens import floats, log_floats
from . import c01

C = 299792458.0
EPS = 2.220446049250313e-16
MAX_DEPTH = 2800.0
TOL = 1e-9           # relative to the input scale: FFT round-off is ~1e-15 sqrt(N)

NYQ_MARK = "[nyquist bin uses the attenuation of the next lower frequency]"
F13_MARK = "[vertical ray: zero polarization basis]"
GAIN_MARK = "[layered transmission coefficient above 1]"
NAN_MARK = "[numeric tracer: NaN launch angle]"


# ---------------------------------------------------------------------------
# generators: ray paths


@st.composite
def grad_ice(draw):
    ice = dict(draw(gens.exp_ice_specs(boundary_indices=False, max_depth=MAX_DEPTH)))
    ice["above"] = draw(st.sampled_from([1.0, 1.0, 1.0, None, 1.2, 1.6]))
    return ice


@st.composite
def grad_paths(draw, tracer):
    """Endpoint pair for a gradient-index tracer (c01.realise resolves rho).

    At least one endpoint lies where the index is distinguishable from its asymptote
    (known finding F16, `flat-index-pair`, is avoided by construction)."""
    ice = draw(grad_ice())
    lo, hi = ice["range"]
    z_ok = min(hi - 1.0, max(lo, math.log(64 * EPS * ice["n0"] / ice["k"]) / ice["a"]))
    kind = draw(st.sampled_from(["generic", "generic", "generic", "generic", "shallow", "vertical",
                                 "near_vertical", "tilt", "shadow_indirect", "surface", "steep", "tir", "tir"]))
    rho = {"mode": "abs", "value": draw(log_floats(0.1, 4000.0))}
    za, zb = draw(floats(z_ok, hi)), draw(floats(lo, hi))
    if kind == "shallow":
        za, zb = -draw(log_floats(0.01, 30.0)), -draw(log_floats(0.01, 30.0))
        rho = {"mode": "abs", "value": draw(log_floats(0.1, 300.0))}
    elif kind == "vertical":
        rho = {"mode": "abs", "value": 0.0}
    elif kind == "near_vertical":
        rho = {"mode": "abs", "value": draw(log_floats(1e-4, 1.0))}
    elif kind == "tilt":
        rho = {"mode": "abs", "value": abs(za - zb) * draw(st.sampled_from([1e-9, 1e-7, 1e-5]))}
    elif kind == "shadow_indirect":
        rho = {"mode": "rel_indirect_max", "q": 1.0 - draw(st.sampled_from([1e-1, 1e-2, 1e-3]))}
    elif kind == "surface":
        zb = hi
    elif kind == "steep":
        # steep rays reflect off the surface below the critical angle
        rho = {"mode": "abs", "value": draw(floats(0.02, 0.8)) * (abs(za) + abs(zb) + 1.0)}
    elif kind == "tir":
        # shallow pair far apart: the reflected ray meets the surface beyond the critical angle
        za = -draw(floats(5.0, min(400.0, hi - lo)))
        zb = -draw(floats(5.0, min(400.0, hi - lo)))
        rho = {"mode": "abs", "value": (abs(za) + abs(zb)) * math.tan(draw(floats(0.85, 1.35)))}
        ice["above"] = 1.0
    if abs(za - zb) < 1e-3:
        zb = za - 1.0 if za - 1.0 >= lo else za + 1.0
    if draw(st.booleans()):
        za, zb = zb, za
    phi = draw(st.one_of(floats(-math.pi, math.pi),
                         st.sampled_from([0.0, math.pi / 2, math.pi, -math.pi / 2])))
    xy = draw(st.sampled_from([[0.0, 0.0], None]))
    if xy is None:
        xy = [draw(floats(-1e4, 1e4)), draw(floats(-1e4, 1e4))]
    spec = dict(tracer=tracer, ice=ice, kind=kind, z_from=za, z_to=zb, rho=rho, phi=phi, xy=xy,
                sol=1 if kind == "tir" else draw(st.integers(0, 1)))
    if tracer == "basic":
        spec["dz"] = draw(st.sampled_from([2.0, 1.0, 1.0, 0.5]))
    return spec


@st.composite
def uniform_paths(draw):
    n = draw(floats(1.1, 2.0))
    top = draw(st.sampled_from([0.0, 0.0, -50.0, -300.0]))
    depth = draw(floats(100.0, 2400.0))
    ice = dict(cls="UniformIce", n=n, range=[top - depth, top],
               above=draw(st.sampled_from([1.0, 1.0, 1.3, None, 2.2])),
               below=draw(st.sampled_from([None, 1.5, 2.2, 1.0])))
    lo, hi = ice["range"]
    max_refl = draw(st.sampled_from([0, 1, 1, 2, 2, 3]))
    kind = draw(st.sampled_from(["generic", "generic", "generic", "vertical", "tilt", "level",
                                 "bound", "grazing", "tir", "tir"]))
    za, zb = draw(floats(lo, hi)), draw(floats(lo, hi))
    rho = draw(log_floats(0.1, 3000.0))
    if kind == "vertical":
        rho = 0.0
    elif kind == "tilt":
        rho = abs(za - zb) * draw(st.sampled_from([1e-9, 1e-6]))
    elif kind == "level":
        zb = za
    elif kind == "bound":
        zb = draw(st.sampled_from([lo, hi]))
    elif kind == "grazing":
        rho = draw(floats(3000.0, 30000.0))
    elif kind == "tir":
        # the once-reflected ray meets the upper boundary beyond the critical angle of n -> 1
        max_refl = max(1, max_refl)
        ice["above"] = 1.0
        rho = (2 * hi - za - zb + 1.0) * math.tan(draw(floats(min(1.5, math.asin(1 / n) + 0.02), 1.52)))
    if max_refl > 0:
        # an endpoint exactly on a reflecting boundary makes the reflected "solutions" degenerate
        # (zero-length first/last leg: zero direction vectors, or ValueError "Invalid initial
        # direction" when both endpoints lie on it): the tracer's business (C02/C18), not generated
        za = min(hi - 0.5, max(lo + 0.5, za))
        zb = min(hi - 0.5, max(lo + 0.5, zb))
    if abs(za - zb) < 1e-3:
        zb = za            # level ray; sub-millimetre (down to denormal) depth differences are not generated
    if za == zb and rho < 1e-3:
        rho = 1.0          # identical endpoints (zero-length path) are not generated
    phi = draw(st.one_of(floats(-math.pi, math.pi),
                         st.sampled_from([0.0, math.pi / 2, math.pi, -math.pi / 2])))
    xy = [0.0, 0.0]
    if draw(st.booleans()):
        xy = [draw(floats(-1e4, 1e4)), draw(floats(-1e4, 1e4))]
    return dict(tracer="uniform", ice=ice, kind=kind, z_from=za, z_to=zb, rho=rho, phi=phi, xy=xy,
                max_reflections=max_refl, sol=1 if kind == "tir" else draw(st.integers(0, 6)))


@st.composite
def layered_paths(draw):
    """2-3 uniform layers of different index (exponential layers: C18)."""
    n_layers = draw(st.integers(2, 3))
    top = draw(st.sampled_from([0.0, 0.0, -20.0]))
    bounds = [top]
    for _ in range(n_layers):
        bounds.append(bounds[-1] - draw(floats(20.0, 700.0)))
    layers = []
    for i in range(n_layers):
        layers.append(dict(cls="UniformIce", n=draw(floats(1.15, 1.95)),
                           range=[bounds[i + 1], bounds[i]], above=1.0, below=None))
    ice = dict(cls="LayeredIce", layers=layers,
               above=draw(st.sampled_from([1.0, 1.0, None, 1.3])),
               below=draw(st.sampled_from([None, None, 1.6, 2.4])))
    za = draw(floats(bounds[-1] + 0.5, bounds[0] - 0.5))
    zb = draw(floats(bounds[-1] + 0.5, bounds[0] - 0.5))
    rho = draw(log_floats(1.0, 1500.0))
    phi = draw(floats(-math.pi, math.pi))
    xy = draw(st.sampled_from([[0.0, 0.0], [250.0, -120.0]]))
    return dict(tracer="layered", ice=ice, bounds=bounds, kind="generic", z_from=za, z_to=zb,
                rho=rho, phi=phi, xy=xy, sol=draw(st.integers(0, 7)))


def any_path(layered=False):
    opts = [grad_paths("specialized"), grad_paths("specialized"), grad_paths("basic"),
            uniform_paths(), uniform_paths()]
    return st.one_of(*opts)


def grad_path():
    return st.one_of(grad_paths("specialized"), grad_paths("specialized"), grad_paths("basic"))


# ---------------------------------------------------------------------------
# generators: signals, polarizations, interpolation steps


@st.composite
def value_specs(draw, n, kinds=None):
    kind = draw(st.sampled_from(kinds or ["list", "list", "pulse", "pulse", "noise", "delta",
                                          "alternating", "dc"]))
    if kind == "list" and n > 40:
        kind = "noise"
    amp = draw(st.one_of(floats(-1e3, 1e3), st.sampled_from([1.0, -1.0, 1e-6, 1e6])))
    if amp == 0.0:
        amp = 1.0
    if kind == "list":
        return dict(kind=kind, v=draw(gens.sample_values(n)))
    if kind == "pulse":
        return dict(kind=kind, amp=amp, centre=draw(floats(0.0, n - 1.0)),
                    width=draw(floats(0.6, max(0.7, n / 4.0))))
    if kind == "noise":
        return dict(kind=kind, amp=amp, seed=draw(st.integers(0, 10006)))
    if kind == "delta":
        return dict(kind=kind, amp=amp, i=draw(st.integers(0, n - 1)))
    if kind == "alternating":
        return dict(kind=kind, amp=amp, offset=draw(st.sampled_from([0.0, 0.0, 0.5])))
    return dict(kind="dc", amp=amp)


def _pulse(t_idx, centre, width):
    u = (t_idx - centre) / width
    return u * np.exp(-0.5 * u * u)


def build_values(vs, n):
    i = np.arange(n, dtype=float)
    k = vs["kind"]
    if k == "list":
        return np.array(vs["v"], dtype=float)
    if k == "pulse":
        return vs["amp"] * _pulse(i, vs["centre"], vs["width"])
    if k == "noise":
        v = np.sin(i * 12.9898 + vs["seed"] * 78.233) * 43758.5453
        return vs["amp"] * (v - np.floor(v) - 0.5)
    if k == "delta":
        x = np.zeros(n)
        x[vs["i"]] = vs["amp"]
        return x
    if k == "alternating":
        return vs["amp"] * ((-1.0) ** i + vs["offset"])
    return np.full(n, vs["amp"])


@st.composite
def grid_specs(draw, max_n=160):
    n = draw(st.one_of(st.integers(2, 9), st.integers(2, 40), st.integers(2, max_n)))
    dt = draw(st.one_of(log_floats(1e-10, 2e-8), log_floats(1e-10, 2e-8), log_floats(2e-8, 1e-3)))
    t0 = draw(st.one_of(st.just(0.0), floats(-1e3, 1e3).map(lambda q: q * dt), floats(-1e-6, 1e-6)))
    return dict(n=n, dt=dt, t0=t0)


@st.composite
def signal_specs(draw, max_n=160, classes=("Signal", "Signal", "Signal", "Signal", "int",
                                           "EmptySignal", "FunctionSignal")):
    g = draw(grid_specs(max_n))
    cls = draw(st.sampled_from(list(classes)))
    if cls == "FunctionSignal":
        v = draw(value_specs(g["n"], kinds=["pulse"]))
    elif cls == "int":
        v = dict(kind="list", v=[float(q) for q in
                                 draw(st.lists(st.integers(-1000, 1000), min_size=g["n"],
                                               max_size=g["n"]))])
    else:
        v = draw(value_specs(g["n"]))
    return dict(grid=g, cls=cls, v=v,
                nyq_free=draw(st.booleans()) if cls in ("Signal", "int") else False)


def build_signal(spec, values=None):
    """-> (pyrex signal, times (own copy), sample values as float array)."""
    from pyrex.signals import Signal, EmptySignal, FunctionSignal
    g = spec["grid"]
    n = g["n"]
    times = gens.build_times(g)
    x = build_values(spec["v"], n) if values is None else np.array(values, dtype=float)
    if spec.get("nyq_free") and values is None:
        # no content in the Nyquist bin of the zero-padded spectrum: sum (-1)^k x_k = 0
        sgn = (-1.0) ** np.arange(n)
        x[-1] = -sgn[-1] * float(np.sum(sgn[:-1] * x[:-1]))
        if spec["cls"] == "int":
            x = np.round(x)
    cls = spec["cls"]
    if cls == "EmptySignal":
        return EmptySignal(times.copy(), value_type=Signal.Type.field), times, np.zeros(n)
    if cls == "FunctionSignal":
        v = spec["v"]
        t0, dt = float(times[0]), float(times[1] - times[0])

        def func(t, v=v, t0=t0, dt=dt):
            return v["amp"] * _pulse((np.asarray(t, dtype=float) - t0) / dt, v["centre"], v["width"])
        x = func(times)
        return FunctionSignal(times.copy(), func, value_type=Signal.Type.field), times, x
    if cls == "int":
        return Signal(times.copy(), x.astype(int), value_type=Signal.Type.voltage), times, x
    return Signal(times.copy(), x.copy(), value_type=Signal.Type.field), times, x


@st.composite
def pol_specs(draw):
    kind = draw(st.sampled_from(["arbitrary", "arbitrary", "arbitrary", "unit", "parallel", "zero",
                                 "s", "p"]))
    scale = draw(st.sampled_from([1.0, 1.0, -1.0, 0.3, 7.5]))
    if kind == "arbitrary":
        return dict(kind=kind, v=[draw(floats(-2, 2)) for _ in range(3)])
    if kind == "unit":
        return dict(kind=kind, v=draw(gens.unit_vectors()))
    return dict(kind=kind, scale=scale)


def _shift_rounding_slack(spec, times, tof):
    """A FunctionSignal delayed by tof is re-evaluated at (t + tof) - tof, which differs from t by
    rounding of the sum (a few ulp of |t| + tof: 2e-19 s for a millisecond path) - visible at the
    1e-9 level on a 0.1 ns grid.  Returns max |x(t +- 4 ulp) - x(t)| of the generated function."""
    if spec["cls"] != "FunctionSignal":
        return 0.0
    v = spec["v"]
    t0, dt = float(times[0]), float(times[1] - times[0])
    d = 4 * math.ulp(float(np.max(np.abs(times))) + abs(float(tof)))
    f = lambda t: v["amp"] * _pulse((np.asarray(t, dtype=float) - t0) / dt, v["centre"], v["width"])
    x0 = f(times)
    return float(max(np.max(np.abs(f(times + d) - x0)), np.max(np.abs(f(times - d) - x0))))


def _norm(v):
    """Euclidean norm that does not underflow for tiny components."""
    v = np.asarray(v, dtype=float)
    m = float(np.max(np.abs(v))) if v.size else 0.0
    return m * float(np.sqrt(np.sum((v / m) ** 2))) if m > 0 else 0.0


# products of sample values and gains below this size are denormal: no relative accuracy
FLOOR = 1e-280


def _unit(v):
    v = np.asarray(v, dtype=float)
    m = float(np.linalg.norm(v))
    return v / m if m > 0 else v


def resolve_pol(ps, path):
    """Polarization vector of a case; the ray-relative kinds use harness algebra only."""
    if ps["kind"] in ("arbitrary", "unit"):
        return np.array(ps["v"], dtype=float)
    if ps["kind"] == "zero":
        return np.zeros(3)
    e = np.asarray(path.emitted_direction, dtype=float)
    if ps["kind"] == "parallel":
        return ps["scale"] * e
    s = _unit(np.cross(e, [0.0, 0.0, 1.0]))
    if ps["kind"] == "s":
        return ps["scale"] * s
    return ps["scale"] * np.cross(s, e)


IJ = 7    # bracket positions sampled for the interpolation-error bound
CHORD_SAFETY = 2.0   # measured on 1500 cases: no violation with 1.0, 3 with 0.7, 69 with 0.4


interp_specs = st.one_of(st.none(), st.none(),
                         st.sampled_from([0.02, 0.05, 0.1, 0.25, 0.5, 1.0, 3.0]),
                         log_floats(0.02, 1.0))
interp_steps = st.one_of(st.sampled_from([0.02, 0.05, 0.1, 0.25, 0.5, 1.0, 3.0]),
                         log_floats(0.02, 1.0))


# ---------------------------------------------------------------------------
# building the path under test


class Built:
    pass


def build_path(pc):
    """-> Built(path, sols, ...) ; path is None when the tracer finds no ray."""
    b = Built()
    b.kind = pc["tracer"]
    b.spec = pc["ice"]
    if b.kind in ("specialized", "basic"):
        from pyrex.ray_tracing import SpecializedRayTracer, BasicRayTracer
        b.ice = gens.build_ice(pc["ice"])
        cls = SpecializedRayTracer if b.kind == "specialized" else BasicRayTracer
        kw = {} if b.kind == "specialized" else {"dz": pc["dz"]}
        b.f, b.t = c01.realise(pc, cls, b.ice, **kw)
        sols = cls(b.f, b.t, ice_model=b.ice, **kw).solutions
        b.accepts_interp = True
    elif b.kind == "uniform":
        from pyrex.ray_tracing import UniformRayTracer
        b.ice = gens.build_ice(pc["ice"])
        b.f = np.array([pc["xy"][0], pc["xy"][1], pc["z_from"]])
        b.t = np.array([pc["xy"][0] + pc["rho"] * math.cos(pc["phi"]),
                        pc["xy"][1] + pc["rho"] * math.sin(pc["phi"]), pc["z_to"]])
        rt = UniformRayTracer(b.f, b.t, ice_model=b.ice)
        rt.max_reflections = pc["max_reflections"]
        sols = rt.solutions
        b.accepts_interp = False
    else:
        from pyrex.custom.layered_ice import LayeredRayTracer
        b.ice = gens.build_ice(pc["ice"])
        b.f = np.array([pc["xy"][0], pc["xy"][1], pc["z_from"]])
        b.t = np.array([pc["xy"][0] + pc["rho"] * math.cos(pc["phi"]),
                        pc["xy"][1] + pc["rho"] * math.sin(pc["phi"]), pc["z_to"]])
        sols = LayeredRayTracer(b.f, b.t, ice_model=b.ice).solutions
        b.accepts_interp = False
    b.sols = sols
    if len(sols):
        # known finding F8 (decided by C10): the uniform and layered paths do not take the
        # keyword; it is passed to whatever path class accepts it
        import inspect
        b.accepts_interp = "attenuation_interpolation" in inspect.signature(sols[0].propagate).parameters
    if b.kind == "basic":
        for q in sols:
            require(math.isfinite(float(q.theta0)), "BasicRayTracer returned a solution with launch angle %r "
                    "from %r to %r dz=%r %s", q.theta0, b.f.tolist(), b.t.tolist(), pc["dz"], NAN_MARK)
    b.path = sols[pc["sol"] % len(sols)] if len(sols) else None
    b.index = pc["sol"] % len(sols) if len(sols) else None
    return b


def propagate(b, sig, pol, interp):
    """Known finding F8 (C10): only the gradient-index paths take the keyword."""
    if interp is not None and b.accepts_interp:
        return b.path.propagate(signal=sig, polarization=pol, attenuation_interpolation=interp)
    return b.path.propagate(signal=sig, polarization=pol)


def _values(sig, n, what):
    v = np.asarray(sig.values)
    require(v.shape == (n,), "%s has %r values for a time grid of %d samples", what, v.shape, n)
    require(not np.iscomplexobj(v), "%s has complex values", what)
    v = v.astype(float)
    require(bool(np.all(np.isfinite(v))), "%s contains non-finite values", what)
    return v


def _geom(b):
    d = dict(b.spec)
    if "layers" in d:
        d = {"layers": [(l["n"], l["range"]) for l in d["layers"]], "above": d["above"], "below": d["below"]}
    return "%s solution %s from %r to %r in %r" % (b.kind, b.index, b.f.tolist(), b.t.tolist(), d)


def _path_classes(b, pc):
    cl = [b.kind, "kind=" + pc["kind"]]
    p = b.path
    if p is None:
        return cl + ["sol=0"]
    cl.append("direct" if bool(getattr(p, "direct", False)) else "turning_or_reflected")
    return cl


def _beta(b):
    """n sin(theta) of the ray, from the reported launch direction alone."""
    e = np.asarray(b.path.emitted_direction, dtype=float)
    if b.kind in ("specialized", "basic"):
        n_f = b.spec["n0"] - b.spec["k"] * math.exp(b.spec["a"] * b.f[2])
    else:
        n_f = b.spec["n"]
    return n_f * math.hypot(e[0], e[1])


def _classify_tracer(case, exc):
    """Failures of the tracers themselves belong to C01/C02 (F12, F16)."""
    pc = case["path"]
    if pc["tracer"] in ("specialized", "basic"):
        if R.flat_index_pair(pc["ice"], pc["z_from"], pc["z_to"],
                             pc["rho"].get("value") if pc["rho"]["mode"] == "abs" else None):
            return "flat-index-pair"
        msg = str(exc)
        if NAN_MARK in msg:
            return "basic-tracer-nan-solution"
        if pc["tracer"] == "basic" and isinstance(exc, ValueError) and ("NaN" in msg or "nan" in msg):
            return "basic-tracer-nan-at-max-angle"
    return None


def _classifier(*marks):
    table = {NYQ_MARK: "nyquist-bin-attenuation-clamped", F13_MARK: "vertical-ray-zero-polarization",
             GAIN_MARK: "layered-transmission-gain"}

    def classify(case, exc):
        msg = str(exc)
        for m in marks:
            if m in msg:
                return table[m]
        return _classify_tracer(case, exc)
    return classify


# ---------------------------------------------------------------------------
# reference filter


def ref_filter(x, h_pos):
    """irfft(H rfft(pad_2N x))[:N] for gains given on rfftfreq(2N) (f >= 0 only)."""
    n = len(x)
    spec = np.fft.rfft(np.concatenate((np.asarray(x, dtype=float), np.zeros(n))))
    return np.fft.irfft(np.asarray(h_pos) * spec, 2 * n)[:n]


def _bins(times):
    n = len(times)
    return np.fft.rfftfreq(2 * n, float(times[1] - times[0]))


def _attenuation(path, f):
    a = np.asarray(path.attenuation(np.asarray(f, dtype=float)), dtype=float)
    require(a.shape == np.shape(f), "attenuation(f) has shape %r for %d frequencies", a.shape, len(f))
    return a


# ---------------------------------------------------------------------------
# (a) the time grid


@st.composite
def delay_cases(draw):
    return dict(path=draw(any_path()), signal=draw(signal_specs()), pol=draw(pol_specs()),
                interp=draw(interp_specs), polarized=draw(st.sampled_from([True, True, False])))


def check_delay(case, rec):
    b = build_path(case["path"])
    cl = _path_classes(b, case["path"])
    if b.path is None:
        rec.case(case, nontrivial=False, classes=cl)
        return
    p = b.path
    sig, times, x = build_signal(case["signal"])
    n = len(times)
    pol = resolve_pol(case["pol"], p) if case["polarized"] else None
    interp = case["interp"]
    tof = float(p.tof)
    require(math.isfinite(tof) and tof >= 0, "tof = %r; %s", tof, _geom(b))
    out = propagate(b, sig, None if pol is None else pol.tolist(), interp)
    if pol is None:
        outs = [("propagated signal", out)]
    else:
        require(isinstance(out, tuple) and len(out) == 2 and len(out[0]) == 2 and len(out[1]) == 2,
                "propagate(signal, polarization) must return ((s, p), (u_s, u_p)), got %r", type(out))
        outs = [("s-polarized signal", out[0][0]), ("p-polarized signal", out[0][1])]
    expected = times + p.tof
    for what, o in outs:
        ot = np.asarray(o.times)
        require(ot.shape == (n,), "%s: %r times for %d input samples", what, ot.shape, n)
        bad = np.nonzero(ot != expected)[0]
        require(len(bad) == 0,
                "%s: times[%d] = %r but input time %r + tof %r = %r (%d of %d samples differ); %s",
                what, int(bad[0]) if len(bad) else -1, float(ot[bad[0]]) if len(bad) else 0.0,
                float(times[bad[0]]) if len(bad) else 0.0, tof,
                float(expected[bad[0]]) if len(bad) else 0.0, len(bad), n, _geom(b))
        _values(o, n, what)
    # the input is not consumed
    require(np.array_equal(np.asarray(sig.times), times),
            "propagate() moved the input signal's own time grid; %s", _geom(b))
    require(np.allclose(_values(sig, n, "input signal"), x, rtol=0, atol=1e-12 * (np.max(np.abs(x)) + 1e-300)),
            "propagate() changed the input signal's values; %s", _geom(b))
    cl += ["sig=" + case["signal"]["cls"], "polarized" if case["polarized"] else "unpolarized",
           "interp" if interp is not None and b.accepts_interp else "no_interp",
           "odd" if n % 2 else "even"]
    rec.case(case, nontrivial=tof > 0, classes=cl)


# ---------------------------------------------------------------------------
# (b) linearity in the signal and in the polarization vector


@st.composite
def linear_cases(draw):
    g = draw(grid_specs(96))
    kinds = ["list", "pulse", "noise", "delta", "alternating", "dc"]
    return dict(path=draw(any_path()), grid=g,
                v1=draw(value_specs(g["n"], kinds)), v2=draw(value_specs(g["n"], kinds)),
                alpha=draw(st.one_of(floats(-3, 3), st.sampled_from([1.0, -1.0, 0.0]))),
                beta=draw(st.one_of(floats(-3, 3), st.sampled_from([1.0, -1.0]))),
                pol1=[draw(floats(-2, 2)) for _ in range(3)],
                pol2=[draw(floats(-2, 2)) for _ in range(3)],
                what=draw(st.sampled_from(["signal", "polarization"])),
                interp=draw(interp_specs))


def check_linear(case, rec):
    b = build_path(case["path"])
    cl = _path_classes(b, case["path"])
    if b.path is None:
        rec.case(case, nontrivial=False, classes=cl)
        return
    g = case["grid"]
    n = g["n"]
    al, be = case["alpha"], case["beta"]
    x1, x2 = build_values(case["v1"], n), build_values(case["v2"], n)
    p1, p2 = np.array(case["pol1"]), np.array(case["pol2"])

    def run(x, pol):
        sig, _, _ = build_signal(dict(grid=g, cls="Signal", v=None), values=x)
        (s, p), _ = propagate(b, sig, pol.tolist(), case["interp"])
        return _values(s, n, "s signal"), _values(p, n, "p signal")

    if case["what"] == "signal":
        o1, o2, o3 = run(x1, p1), run(x2, p1), run(al * x1 + be * x2, p1)
        scale = (abs(al) * np.max(np.abs(x1)) + abs(be) * np.max(np.abs(x2))) * _norm(p1)
        independent = np.max(np.abs(x1)) > 0 and np.max(np.abs(x2)) > 0 and \
            np.linalg.norm(np.outer(x1, x2) - np.outer(x2, x1)) > 1e-9 * np.linalg.norm(x1) * np.linalg.norm(x2)
    else:
        o1, o2, o3 = run(x1, p1), run(x1, p2), run(x1, al * p1 + be * p2)
        scale = np.max(np.abs(x1)) * (abs(al) * _norm(p1) + abs(be) * _norm(p2))
        independent = np.linalg.norm(np.cross(p1, p2)) > 1e-9 and np.max(np.abs(x1)) > 0
    for k, name in ((0, "s"), (1, "p")):
        lin = al * o1[k] + be * o2[k]
        err = float(np.max(np.abs(o3[k] - lin)))
        require(err <= TOL * scale + FLOOR,
                "%s component is not linear in the %s: P(a X1 + b X2) differs from a P(X1) + b P(X2) by "
                "%.3g (scale %.3g, a=%r b=%r); %s", name, case["what"], err, scale, al, be, _geom(b))
    out_scale = max(float(np.max(np.abs(o3[0]))), float(np.max(np.abs(o3[1]))))
    cl += ["lin=" + case["what"], "interp" if case["interp"] is not None and b.accepts_interp else "no_interp"]
    rec.case(case, nontrivial=bool(independent and al != 0 and be != 0 and out_scale > 1e-6 * scale),
             classes=cl)


# ---------------------------------------------------------------------------
# (c) every frequency component is multiplied by attenuation x Fresnel x (pol . u)


@st.composite
def reference_cases(draw):
    return dict(path=draw(any_path()), signal=draw(signal_specs()), pol=draw(pol_specs()),
                polarized=draw(st.sampled_from([True, True, True, False])))


def _expected_gains(b, pol, out, freqs):
    """Gains on f >= 0 for the s and p outputs: attenuation x Fresnel x amplitude.

    The s direction is the first returned vector (it does not change along a ray that
    stays in one vertical plane); the p direction at the launch point completes the
    right-handed triad (s, p, ray) exactly like the returned p vector does at the receiver."""
    p = b.path
    u_s = np.asarray(out[1][0], dtype=float)
    e = np.asarray(p.emitted_direction, dtype=float)
    u_p0 = np.cross(u_s, e)
    r_s, r_p = p.fresnel
    att = _attenuation(p, freqs)
    return att, complex(r_s) * float(np.dot(pol, u_s)), complex(r_p) * float(np.dot(pol, u_p0))


def check_reference(case, rec):
    b = build_path(case["path"])
    cl = _path_classes(b, case["path"])
    if b.path is None:
        rec.case(case, nontrivial=False, classes=cl)
        return
    p = b.path
    sig, times, x = build_signal(case["signal"])
    n = len(times)
    freqs = _bins(times)
    xmax = float(np.max(np.abs(x)))
    spec = np.abs(np.fft.rfft(np.concatenate((x, np.zeros(n)))))
    nyq_content = bool(spec[-1] > 1e-7 * (np.sum(spec) + 1e-300))
    clamps = b.kind in ("specialized", "basic")
    if case["polarized"]:
        pol = resolve_pol(case["pol"], p)
        out = propagate(b, sig, pol.tolist(), None)
        att, g_s, g_p = _expected_gains(b, pol, out, freqs)
        jobs = [("s", _values(out[0][0], n, "s signal"), g_s), ("p", _values(out[0][1], n, "p signal"), g_p)]
        scale = xmax * _norm(pol)
        complex_gain = abs(g_s.imag) + abs(g_p.imag) > 1e-12 * (abs(g_s) + abs(g_p))
    else:
        out = propagate(b, sig, None, None)
        att = _attenuation(p, freqs)
        jobs = [("unpolarized", _values(out, n, "propagated signal"), 1.0 + 0j)]
        scale = xmax
        complex_gain = False
        clamps = False      # without force_real the table is looked up at the signed frequency
    tol = TOL * scale + FLOOR
    tol += 2 * _shift_rounding_slack(case["signal"], times, p.tof) * (scale / xmax if xmax > 0 else 0.0)
    biggest = 0.0
    for name, got, gain in jobs:
        want = ref_filter(x, att * gain)
        err = float(np.max(np.abs(got - want)))
        biggest = max(biggest, float(np.max(np.abs(want))))
        if err > tol and clamps and n >= 2:
            att2 = att.copy()
            att2[-1] = att[-2]
            err2 = float(np.max(np.abs(got - ref_filter(x, att2 * gain))))
            mark = " " + NYQ_MARK if err2 <= tol else ""
        else:
            mark = ""
        require(err <= tol,
                "%s output differs from irfft(attenuation(|f|) x fresnel x (pol.u) x rfft(padded input)) by "
                "%.3g (tolerance %.3g, %d samples, dt=%r, gain %r, attenuation at the top two bins %r); %s%s",
                name, err, tol, n, float(times[1] - times[0]), gain, att[-2:].tolist(), _geom(b), mark)
    cl += ["sig=" + case["signal"]["cls"], "polarized" if case["polarized"] else "unpolarized",
           "odd" if n % 2 else "even"]
    if complex_gain:
        cl.append("complex_fresnel")
    if nyq_content:
        cl.append("nyquist_content")
    if float(att[-1]) < 0.9:
        cl.append("attenuated")
    rec.case(case, nontrivial=biggest > 1e-6 * scale and scale > 0, classes=cl)


# ---------------------------------------------------------------------------
# (c') interpolated attenuation stays between the exact values one step away


@st.composite
def interpolation_cases(draw):
    return dict(path=draw(grad_path()), signal=draw(signal_specs(classes=("Signal", "Signal", "FunctionSignal"))),
                pol=draw(pol_specs()), step=draw(interp_steps),
                polarized=draw(st.sampled_from([True, True, False])))


def check_interpolation(case, rec):
    b = build_path(case["path"])
    cl = _path_classes(b, case["path"])
    if b.path is None:
        rec.case(case, nontrivial=False, classes=cl)
        return
    p = b.path
    step = case["step"]
    sig, times, x = build_signal(case["signal"])
    n = len(times)
    freqs = _bins(times)
    spec = np.abs(np.fft.rfft(np.concatenate((x, np.zeros(n)))))
    weights = np.full(n + 1, 2.0)
    weights[0] = weights[-1] = 1.0
    att = _attenuation(p, freqs)
    # The table is logarithmic with a step of at most `step` and contains f = 0.
    # (1) first-order bound, certain: the two table points around a frequency f lie in
    #     [f 10^-step, f 10^step], and a non-increasing attenuation interpolated between them
    #     lies between its values at those two points;
    # (2) second-order bound: the error of a straight line through two exact values `step`
    #     apart, maximised over the position g of the bracket [g, g 10^step] around f
    #     (J positions sampled, doubled for the sampling); narrower brackets err less.
    shifts = step * np.arange(IJ) / (IJ - 1)
    g_lo = freqs[None, :] * 10.0 ** (-shifts[:, None])
    g_hi = g_lo * 10.0 ** step
    table = _attenuation(p, np.concatenate((g_lo.ravel(), g_hi.ravel())))
    a_lo = table[:g_lo.size].reshape(g_lo.shape)
    a_hi = table[g_lo.size:].reshape(g_lo.shape)
    width = g_hi - g_lo
    width[:, 0] = 1.0
    line = a_lo + (a_hi - a_lo) * (freqs[None, :] - g_lo) / width
    second = np.max(np.abs(line - att[None, :]), axis=0)
    first = np.maximum(a_lo[-1], att) - np.minimum(a_hi[0], att)
    spread = np.minimum(first, CHORD_SAFETY * second + 1e-12)
    spread[0] = 0.0          # the table contains f = 0 itself
    if case["polarized"]:
        pol = resolve_pol(case["pol"], p)
        out = propagate(b, sig, pol.tolist(), step)
        _, g_s, g_p = _expected_gains(b, pol, out, freqs)
        jobs = [("s", _values(out[0][0], n, "s signal"), g_s), ("p", _values(out[0][1], n, "p signal"), g_p)]
        scale = float(np.max(np.abs(x))) * _norm(pol)
    else:
        out = propagate(b, sig, None, step)
        jobs = [("unpolarized", _values(out, n, "propagated signal"), 1.0 + 0j)]
        scale = float(np.max(np.abs(x)))
    tight = False
    for name, got, gain in jobs:
        want = ref_filter(x, att * gain)
        bound = abs(gain) * float(np.sum(weights * spread * spec)) / (2 * n)
        tol = bound + TOL * scale + FLOOR + 2 * _shift_rounding_slack(case["signal"], times, p.tof) * \
            (scale / float(np.max(np.abs(x))) if float(np.max(np.abs(x))) > 0 else 0.0)
        err = float(np.max(np.abs(got - want)))
        mark = ""
        if err > tol:
            # known finding: the table ends at the highest positive FFT frequency, the Nyquist
            # bin is served the value of the bin below it
            spread2 = spread.copy()
            spread2[-1] = max(spread[-1], abs(att[-1] - att[-2]) + spread[-2])
            bound2 = abs(gain) * float(np.sum(weights * spread2 * spec)) / (2 * n)
            if err <= bound2 + TOL * scale + FLOOR:
                mark = " " + NYQ_MARK
        require(err <= tol,
                "%s output with attenuation_interpolation=%r is %.3g away from the exactly attenuated signal; "
                "interpolation between grid points at most one step apart explains at most %.3g "
                "(%d samples, dt=%r); %s%s", name, step, err, tol, n, float(times[1] - times[0]), _geom(b), mark)
        if bound < 0.05 * float(np.max(np.abs(want))) and float(np.max(np.abs(want))) > 1e-6 * scale:
            tight = True
    cl += ["polarized" if case["polarized"] else "unpolarized", "odd" if n % 2 else "even"]
    if tight:
        cl.append("tight_bound")
    if step >= 0.25:
        cl.append("coarse_step")
    rec.case(case, nontrivial=tight and scale > 0, classes=cl)


# ---------------------------------------------------------------------------
# (d) attenuation(f) = exp(-int ds / L(z,|f|)), in (0,1], even, non-increasing

_GL_X, _GL_W = np.polynomial.legendre.leggauss(10)



def _leg(index_of, beta, z_a, z_b, inv_len, panels):
    """int_{z_a}^{z_b} n / sqrt(n^2 - beta^2) / L dz for z_a < z_b with z = z_b - u^2
    (removes an inverse-square-root singularity at z_b)."""
    umax = math.sqrt(z_b - z_a)
    edges = np.linspace(0.0, umax, panels + 1)
    half = 0.5 * (edges[1:] - edges[:-1])
    mid = 0.5 * (edges[1:] + edges[:-1])
    u = (mid[:, None] + half[:, None] * _GL_X[None, :]).ravel()
    w = (half[:, None] * _GL_W[None, :]).ravel()
    z = z_b - u * u
    n = index_of(z)
    g = np.maximum(n * n - beta * beta, 1e-300)
    return (w * 2.0 * u * n / np.sqrt(g)) @ inv_len(z)


def _converged(fn):
    """Evaluate fn(panels) with doubling until two levels agree to 1e-6 -> (value, ok)."""
    prev = fn(8)
    for panels in (16, 32, 64, 128, 256, 512):
        cur = fn(panels)
        if np.all(np.abs(cur - prev) <= 1e-6 * np.abs(cur) + 1e-12):
            return cur, True
        prev = cur
    return prev, False


def ref_exponent_gradient(b, fs):
    """int ds / L along the reported gradient-index ray (true exponential profile) or None."""
    spec = b.spec
    n0, k, a = spec["n0"], spec["k"], spec["a"]
    hi = sorted(spec["range"])[1]
    beta = _beta(b)
    zf, zt = float(b.f[2]), float(b.t[2])
    fs = np.asarray(fs, dtype=float)

    def index_of(z):
        return n0 - k * np.exp(a * z)

    def inv_len(z):
        return 1.0 / np.asarray(b.ice.attenuation_length(np.asarray(z, dtype=float), fs), dtype=float)

    if bool(b.path.direct):
        lo_z, hi_z = min(zf, zt), max(zf, zt)
        if beta > float(index_of(hi_z)) * (1 + 1e-9):
            return None
        return _converged(lambda m: _leg(index_of, beta, lo_z, hi_z, inv_len, m))
    if beta >= n0:
        return None
    z_top = min(hi, math.log((n0 - beta) / k) / a)
    if z_top < max(zf, zt) - 1e-9:
        return None
    z_top = max(z_top, zf, zt)
    return _converged(lambda m: (_leg(index_of, beta, zf, z_top, inv_len, m) if z_top > zf else 0.0)
                      + (_leg(index_of, beta, zt, z_top, inv_len, m) if z_top > zt else 0.0))


def follow_uniform(lo, hi, start, e, length):
    """Straight ray of the given length from `start` along unit `e`, mirrored at z=lo/hi.

    -> (legs [(z0, z1, leg_length)], bounces ["top"|"bottom"], end point)"""
    pos = np.array(start, dtype=float)
    d = np.array(e, dtype=float)
    remaining = float(length)
    legs, bounces = [], []
    for _ in range(64):
        if d[2] > 0:
            reach = (hi - pos[2]) / d[2]
        elif d[2] < 0:
            reach = (pos[2] - lo) / (-d[2])
        else:
            reach = math.inf
        step = min(remaining, max(reach, 0.0))
        new = pos + d * step
        legs.append((float(pos[2]), float(new[2]), step))
        pos = new
        remaining -= step
        if remaining <= 1e-9 * max(length, 1.0):
            break
        bounces.append("top" if d[2] > 0 else "bottom")
        pos[2] = hi if d[2] > 0 else lo
        d[2] = -d[2]
    return legs, bounces, pos


def _straight_exponent(legs, inv_len, n_freq):
    """sum over straight legs of (leg length) x mean of 1/L over the leg's depth span."""
    def total(m):
        out = np.zeros(n_freq)
        for z0, z1, length in legs:
            if length <= 0:
                continue
            if z0 == z1:
                out = out + length * inv_len(np.array([z0]))[0]
                continue
            edges = np.linspace(z0, z1, m + 1)
            half = 0.5 * (edges[1:] - edges[:-1])
            mid = 0.5 * (edges[1:] + edges[:-1])
            z = (mid[:, None] + half[:, None] * _GL_X[None, :]).ravel()
            w = (half[:, None] * _GL_W[None, :]).ravel() / (z1 - z0)
            out = out + length * (w @ inv_len(z))
        return out
    return _converged(total)


def ref_exponent_uniform(b, fs):
    spec = b.spec
    lo, hi = spec["range"]
    p = b.path
    fs = np.asarray(fs, dtype=float)
    legs, bounces, end = follow_uniform(lo, hi, b.f, np.asarray(p.emitted_direction, dtype=float),
                                        float(p.path_length))
    if float(np.linalg.norm(end - b.t)) > 1e-6 * max(1.0, float(p.path_length)):
        return None   # the reported direction/length do not lead to the receiver: C02/C18
    return _straight_exponent(
        legs, lambda z: 1.0 / np.asarray(b.ice.attenuation_length(np.asarray(z, dtype=float), fs), dtype=float),
        len(fs))


@st.composite
def freq_ladders(draw):
    fs = set()
    for _ in range(draw(st.integers(2, 7))):
        kind = draw(st.sampled_from(["log", "log", "log", "low", "1e9", "1e9-", "1e9+", "75e6", "0"]))
        if kind == "log":
            fs.add(draw(log_floats(1e6, 5e9)))
        elif kind == "low":
            fs.add(draw(log_floats(1.0, 1e6)))
        elif kind == "1e9":
            fs.add(1e9)
        elif kind == "1e9-":
            fs.add(math.nextafter(1e9, 0))
        elif kind == "1e9+":
            fs.add(math.nextafter(1e9, 2e9))
        elif kind == "75e6":
            fs.add(75e6)
        else:
            fs.add(0.0)
    return sorted(fs)


@st.composite
def attenuation_cases(draw):
    return dict(path=draw(any_path()), fs=draw(freq_ladders()))


def check_attenuation(case, rec):
    b = build_path(case["path"])
    cl = _path_classes(b, case["path"])
    if b.path is None:
        rec.case(case, nontrivial=False, classes=cl)
        return
    p = b.path
    fs = np.array(case["fs"], dtype=float)
    att = _attenuation(p, fs)
    require(bool(np.all(np.isfinite(att))), "attenuation(%r) = %r is not finite; %s", case["fs"], att.tolist(), _geom(b))
    require(bool(np.all(att >= 0)) and bool(np.all(att <= 1 + 1e-12)),
            "attenuation(%r) = %r leaves [0, 1]; %s", case["fs"], att.tolist(), _geom(b))
    neg = _attenuation(p, -fs)
    require(bool(np.all(np.abs(neg - att) <= 1e-14 * att)),
            "attenuation is not even in f: at %r it is %r, at the negated frequencies %r; %s",
            case["fs"], att.tolist(), neg.tolist(), _geom(b))
    for i in range(len(fs) - 1):
        require(att[i + 1] <= att[i] * (1 + 1e-12),
                "attenuation grows with |f|: %r at %r Hz but %r at %r Hz; %s",
                float(att[i]), float(fs[i]), float(att[i + 1]), float(fs[i + 1]), _geom(b))
    one = np.asarray(p.attenuation(float(fs[-1])), dtype=float)
    # compared in the exponent: exp() amplifies the rounding of an exponent of several hundred
    require(one.size == 1 and abs(float(one.reshape(-1)[0]) - att[-1])
            <= 1e-12 * att[-1] * (1.0 + abs(math.log(att[-1])) if att[-1] > 0 else 0.0) + 1e-300,
            "attenuation(scalar %r) = %r but the array call gives %r; %s", float(fs[-1]), one.tolist(),
            float(att[-1]), _geom(b))
    ref = ref_exponent_uniform(b, fs) if b.kind == "uniform" else ref_exponent_gradient(b, fs)
    decided = False
    if b.kind == "basic" and abs(b.f[2] - b.t[2]) < 5 * float(p.dz):
        # fewer than five integration steps between the depths (as in C01): a step size
        # that does not resolve the path decides nothing about the integral
        cl.append("unresolved_by_dz")
    elif ref is not None and ref[1]:
        want = np.asarray(ref[0], dtype=float)
        rel, slack = _exponent_tolerance(b, want, fs)
        if not math.isfinite(rel):
            cl.append("uniformity_ill_conditioned")
        for i in range(len(fs) if math.isfinite(rel) else 0):
            if att[i] == 0.0:
                require(want[i] > 600.0, "attenuation(%r) = 0 although the line integral of ds / L_att is "
                        "only %r; %s", float(fs[i]), float(want[i]), _geom(b))
                continue
            got = -math.log(att[i])
            require(abs(got - want[i]) <= rel * want[i] + slack[i] + 1e-12,
                    "attenuation(%r Hz) = %r = exp(-%r) but the line integral of ds / L_att(z, f) along the "
                    "ray is %r (allowed %.3g relative + %.3g); %s", float(fs[i]), float(att[i]), got,
                    float(want[i]), rel, float(slack[i]), _geom(b))
            if want[i] < 600.0:
                require(att[i] > 0, "attenuation underflow")
        decided = bool(np.max(want) > 1e-3) and math.isfinite(rel)
        cl.append("quadrature")
    else:
        cl.append("no_reference")
    if len(fs) >= 2 and fs[0] < 1e9 <= fs[-1]:
        cl.append("straddles_1GHz")
    if 0.0 in case["fs"]:
        cl.append("f=0")
    rec.case(case, nontrivial=decided and len(fs) >= 2, classes=cl)


def _exponent_tolerance(b, want, fs):
    """(relative tolerance, absolute slack per frequency) of pyrex's numerical integration.

    Specialized / uniform paths integrate a smooth integrand with steps of at most 1 m
    (trapezoid in a regularising variable resp. left Riemann sum): measured errors stay
    below 1e-3, 1 % is allowed.  The dz-stepping path (DESIGN section 5: an O(sqrt(dz))
    scheme by construction) stops dz/10 short of its highest point on both legs and applies
    a trapezoid of step dz: for a ray that turns over the omitted and the singular panels
    have lengths n sqrt(2 d / (beta |n'|)) for d = dz/10 resp. dz, otherwise the error is
    of the order of dz tan(theta) at the highest point.  Three times those lengths (measured:
    at most 0.45 times) over the shortest attenuation length on the path is allowed."""
    slack = np.zeros(len(want))
    if b.kind == "specialized":
        # below z_uniform the analytic path is the straight line of index n0 while its attenuation
        # integrand uses sec(arcsin(beta / n(z))) with the true n(z) (documented uniformity_factor
        # = 0.99999): d sec / sec = tan^2(theta) dn/n, which matters for nearly horizontal rays
        spec = b.spec
        z_u = R.z_uniform_of(spec)
        beta = _beta(b)
        if min(b.f[2], b.t[2]) < z_u and 0 < beta < spec["n0"]:
            tan2 = beta * beta / (spec["n0"] ** 2 - beta * beta)
            # (beyond 25 % the first-order bound itself is meaningless - within half a degree of
            # horizontal over tens of kilometres: nothing is decided, class `uniformity_ill_conditioned`)
            return (0.01 + 1.5e-5 * tan2 if 1.5e-5 * tan2 <= 0.25 else math.inf), slack
    if b.kind != "basic":
        return 0.01, slack
    spec = b.spec
    n0, k, a = spec["n0"], spec["k"], spec["a"]
    hi = sorted(spec["range"])[1]
    dz = float(b.path.dz)
    beta = _beta(b)
    inv_l = 1.0 / np.asarray(b.ice.attenuation_length(np.array([b.f[2], b.t[2], hi]), fs), dtype=float)
    worst = np.max(inv_l, axis=0)
    z_top = max(b.f[2], b.t[2])
    turns = False
    if not bool(b.path.direct) and 0 < beta < n0:
        z_turn = math.log((n0 - beta) / k) / a
        turns = z_turn < hi
        z_top = min(hi, z_turn)
    if turns:
        slope = k * a * math.exp(a * z_top)
        seg = lambda d: beta * math.sqrt(2 * d / (beta * slope))
        metres = 3.0 * (seg(dz / 10) + seg(dz))
    else:
        n_top = n0 - k * math.exp(a * z_top)
        g = n_top * n_top - beta * beta
        metres = 3.0 * dz * max(1.0, beta / math.sqrt(g)) if g > 0 else math.inf
    return 0.01, metres * worst


# ---------------------------------------------------------------------------
# (e) Fresnel coefficients


def textbook_reflection(n1, n2, sin1):
    """Amplitude reflection coefficients (r_s, r_p) of a plane interface.

    p basis vector = s x k for the incident and for the reflected wave (the convention of
    the returned polarization vectors): r_s = -sin(t1-t2)/sin(t1+t2),
    r_p = tan(t1-t2)/tan(t1+t2); beyond the critical angle both have modulus 1 and phases
    -2 delta with tan(delta_s) = q / cos t1, tan(delta_p) = q / (m^2 cos t1),
    q = sqrt(sin^2 t1 - m^2), m = n2/n1.  -> (r_s, r_p, regime, conditioning)"""
    sin1 = min(1.0, max(0.0, sin1))
    cos1 = math.sqrt(max(0.0, 1 - sin1 * sin1))
    if n1 == n2:
        return 0.0, 0.0, "matched", 1.0
    sin2 = n1 * sin1 / n2
    if sin2 < 1.0:
        t1, t2 = math.asin(sin1), math.asin(sin2)
        cos2 = math.sqrt(1 - sin2 * sin2)
        if t1 < 1e-7:
            r_s = (n1 - n2) / (n1 + n2)
            return r_s, -r_s, "plain", max(cos2, 1e-300)
        return (-math.sin(t1 - t2) / math.sin(t1 + t2), math.tan(t1 - t2) / math.tan(t1 + t2),
                "plain", max(cos2 * max(cos1, 1e-300), 1e-300))
    m = n2 / n1
    q = math.sqrt(max(0.0, sin1 * sin1 - m * m))
    d_s = math.atan2(q, cos1)
    d_p = math.atan2(q, m * m * cos1)
    return (complex(math.cos(2 * d_s), -math.sin(2 * d_s)), complex(math.cos(2 * d_p), -math.sin(2 * d_p)),
            "total", max(q * max(cos1, 1e-300), 1e-300))


def _compare_fresnel(got, want, cond, what, b, accept_conjugate):
    tol = 1e-9 + 256 * EPS / cond
    g = [complex(got[0]), complex(got[1])]
    w = [complex(want[0]), complex(want[1])]
    ok = all(abs(gi - wi) <= tol for gi, wi in zip(g, w))
    if not ok and accept_conjugate:
        # the sign of the phase jump depends on the time convention exp(+-i w t), which the
        # statement does not fix; it must be the same for both polarizations
        ok = all(abs(gi - wi.conjugate()) <= tol for gi, wi in zip(g, w))
    require(ok, "%s: fresnel = (%r, %r) but the Fresnel formulas give (%r, %r) (tolerance %.3g); %s",
            what, g[0], g[1], w[0], w[1], tol, _geom(b))


@st.composite
def fresnel_cases(draw):
    return dict(path=draw(any_path()))


def check_fresnel(case, rec):
    b = build_path(case["path"])
    cl = _path_classes(b, case["path"])
    if b.path is None:
        rec.case(case, nontrivial=False, classes=cl)
        return
    p = b.path
    fr = p.fresnel
    require(len(fr) == 2, "fresnel must be a pair, got %r", fr)
    for name, r in zip(("r_s", "r_p"), fr):
        require(np.ndim(r) == 0 and np.isfinite(complex(r).real) and np.isfinite(complex(r).imag),
                "%s = %r is not a finite scalar; %s", name, r, _geom(b))
        require(abs(complex(r)) <= 1 + 1e-12, "|%s| = %r exceeds 1 (%s = %r); %s", name, abs(complex(r)), name, r,
                _geom(b))
    beta = _beta(b)
    regime = "none"
    if b.kind in ("specialized", "basic"):
        spec = b.spec
        hi = sorted(spec["range"])[1]
        n_top = spec["n0"] - spec["k"] * math.exp(spec["a"] * hi)
        n_above = n_top if spec["above"] is None else spec["above"]
        reaches = (not bool(p.direct)) and beta < n_top * (1 - 1e-9)
        misses = bool(p.direct) or beta > n_top * (1 + 1e-9)
        if reaches:
            r_s, r_p, regime, cond = textbook_reflection(n_top, n_above, beta / n_top)
            if b.kind == "basic" and abs(beta / n_above - 1) < 1e-6:
                regime = "critical"
            elif cond < 1e-5:
                regime = "critical"
            else:
                _compare_fresnel(fr, (r_s, r_p), cond, "reflection off the surface at sin(theta) = %r"
                                 % (beta / n_top), b, accept_conjugate=True)
        elif misses:
            require(complex(fr[0]) == 1 and complex(fr[1]) == 1,
                    "a ray that does not reach the surface must have fresnel (1, 1), got %r; %s", fr, _geom(b))
        else:
            regime = "grazing_surface"
    else:
        spec = b.spec
        lo, hi = spec["range"]
        e = np.asarray(p.emitted_direction, dtype=float)
        legs, bounces, end = follow_uniform(lo, hi, b.f, e, float(p.path_length))
        if float(np.linalg.norm(end - b.t)) > 1e-6 * max(1.0, float(p.path_length)):
            regime = "no_reference"
        else:
            sin1 = math.hypot(e[0], e[1])
            want = [1.0 + 0j, 1.0 + 0j]
            cond = 1.0
            regimes = set()
            for side in bounces:
                n2 = spec["above"] if side == "top" else spec["below"]
                n2 = spec["n"] if n2 is None else n2
                r_s, r_p, reg, c = textbook_reflection(spec["n"], n2, sin1)
                want[0] *= r_s
                want[1] *= r_p
                cond = min(cond, c)
                regimes.add(reg)
            if not bounces:
                require(complex(fr[0]) == 1 and complex(fr[1]) == 1,
                        "a direct ray must have fresnel (1, 1), got %r; %s", fr, _geom(b))
            elif cond < 1e-5:
                regime = "critical"
            else:
                # two total reflections multiply their phases: the convention must still be common
                _compare_fresnel(fr, want, cond / max(1, len(bounces)), "%d reflection(s) %r at sin(theta) = %r"
                                 % (len(bounces), bounces, sin1), b, accept_conjugate=True)
                regime = "+".join(sorted(regimes))
            cl.append("bounces=%d" % len(bounces))
    cl.append("regime=" + regime)
    rec.case(case, nontrivial=regime not in ("none", "no_reference", "critical", "grazing_surface"), classes=cl)


# ---------------------------------------------------------------------------
# (f) the output never carries more energy than the input


@st.composite
def energy_cases(draw):
    return dict(path=draw(any_path()), signal=draw(signal_specs()), pol=draw(pol_specs()),
                interp=draw(interp_specs), polarized=draw(st.sampled_from([True, True, True, False])))


def _energy_body(b, case, cl, rec, mark=""):
    p = b.path
    sig, times, x = build_signal(case["signal"])
    n = len(times)
    e_in = float(np.sum(x * x))
    if case["polarized"]:
        pol = resolve_pol(case["pol"], p)
        out = propagate(b, sig, pol.tolist(), case["interp"])
        e_out = float(np.sum(_values(out[0][0], n, "s signal") ** 2) + np.sum(_values(out[0][1], n, "p signal") ** 2))
        bound = e_in * float(np.dot(pol, pol))
    else:
        out = propagate(b, sig, None, case["interp"])
        e_out = float(np.sum(_values(out, n, "propagated signal") ** 2))
        bound = e_in
    require(e_out <= bound * (1 + 1e-9) + 1e-300,
            "the propagated signal%s carries the energy %r, the input only %r (ratio %r); %s%s",
            "s" if case["polarized"] else "", e_out, bound, e_out / bound if bound > 0 else math.inf, _geom(b), mark)
    cl += ["sig=" + case["signal"]["cls"], "polarized" if case["polarized"] else "unpolarized",
           "interp" if case["interp"] is not None and b.accepts_interp else "no_interp"]
    if bound > 0 and e_out > 0.5 * bound:
        cl.append("nearly_lossless")
    rec.case(case, nontrivial=bound > 0 and e_out > 1e-12 * bound, classes=cl)


def check_energy(case, rec):
    b = build_path(case["path"])
    cl = _path_classes(b, case["path"])
    if b.path is None:
        rec.case(case, nontrivial=False, classes=cl)
        return
    _energy_body(b, case, cl, rec)


# ---------------------------------------------------------------------------
# (g) the returned polarization basis


@st.composite
def vector_cases(draw):
    return dict(path=draw(any_path()), pol=draw(pol_specs()), with_signal=draw(st.booleans()))


def _check_basis(b, vecs, cl):
    p = b.path
    e = np.asarray(p.emitted_direction, dtype=float)
    r = np.asarray(p.received_direction, dtype=float)
    require(len(vecs) == 2, "two polarization vectors expected, got %r", vecs)
    u_s, u_p = (np.asarray(v, dtype=float) for v in vecs)
    require(u_s.shape == (3,) and u_p.shape == (3,) and bool(np.all(np.isfinite(u_s))) and bool(np.all(np.isfinite(u_p))),
            "polarization vectors %r, %r; %s", u_s, u_p, _geom(b))
    vertical = e[0] == 0 and e[1] == 0
    mark = " " + F13_MARK if vertical and not np.any(u_s) and not np.any(u_p) else ""
    for name, v in (("s", u_s), ("p", u_p)):
        require(abs(float(np.linalg.norm(v)) - 1) <= 1e-9,
                "the returned %s polarization vector %r has length %r for the ray emitted along %r; %s%s",
                name, v.tolist(), float(np.linalg.norm(v)), e.tolist(), _geom(b), mark)
    require(abs(float(np.dot(u_s, u_p))) <= 1e-9, "s and p vectors not orthogonal: %r . %r = %r; %s",
            u_s.tolist(), u_p.tolist(), float(np.dot(u_s, u_p)), _geom(b))
    for name, v in (("s", u_s), ("p", u_p)):
        require(abs(float(np.dot(v, r))) <= 1e-9,
                "%s vector %r is not perpendicular to the received direction %r (dot %r); %s",
                name, v.tolist(), r.tolist(), float(np.dot(v, r)), _geom(b))
    require(abs(float(np.dot(u_s, e))) <= 1e-9, "s vector %r is not perpendicular to the emitted direction %r; %s",
            u_s.tolist(), e.tolist(), _geom(b))
    require(abs(u_s[2]) <= 1e-9, "s vector %r is not horizontal (normal of the vertical plane of incidence); %s",
            u_s.tolist(), _geom(b))
    sin_e = math.hypot(e[0], e[1])
    if sin_e < 1e-6:
        cl.append("near_vertical_ray")
    if vertical:
        cl.append("vertical_ray")
    return u_s, u_p


def check_vectors(case, rec):
    b = build_path(case["path"])
    cl = _path_classes(b, case["path"])
    if b.path is None:
        rec.case(case, nontrivial=False, classes=cl)
        return
    p = b.path
    pol = resolve_pol(case["pol"], p)
    if case["with_signal"]:
        sig, _, _ = build_signal(dict(grid=dict(n=4, dt=1e-9, t0=0.0), cls="Signal",
                                      v=dict(kind="delta", amp=1.0, i=1)))
        vecs = propagate(b, sig, pol.tolist(), None)[1]
    else:
        vecs = p.propagate(polarization=pol.tolist())
    _check_basis(b, vecs, cl)
    e = np.asarray(p.emitted_direction, dtype=float)
    r = np.asarray(p.received_direction, dtype=float)
    cl.append("with_signal" if case["with_signal"] else "vectors_only")
    rec.case(case, nontrivial=float(np.linalg.norm(e - r)) > 1e-6 or b.kind == "uniform", classes=cl)


# ---------------------------------------------------------------------------
# layered tracer: all clauses on one (expensive) solution


def _layered_reference(b):
    """Textbook Fresnel product and line integral pieces along the chain of straight legs.

    -> (want_s, want_p, conditioning, kinds, legs) from the sub-paths' end points only."""
    p = b.path
    spec = b.spec
    layers = spec["layers"]
    bounds = [layers[0]["range"][1]] + [l["range"][0] for l in layers]

    def layer_index(z_mid):
        for i, l in enumerate(layers):
            if l["range"][0] <= z_mid <= l["range"][1]:
                return i
        raise Violation("sub-path leaves the ice: depth %r; %s" % (z_mid, _geom(b)))

    legs = []
    for sp in p.paths:
        a_, b_ = np.asarray(sp.from_point, dtype=float), np.asarray(sp.to_point, dtype=float)
        legs.append((a_, b_, layer_index(0.5 * (a_[2] + b_[2]))))
    want = [1.0 + 0j, 1.0 + 0j]
    cond = 1.0
    kinds = []
    for (a1, b1, i1), (a2, b2, i2) in zip(legs[:-1], legs[1:]):
        d1 = b1 - a1
        d2 = b2 - a2
        n1 = layers[i1]["n"]
        sin1 = math.hypot(d1[0], d1[1]) / float(np.linalg.norm(d1))
        if (d1[2] > 0) != (d2[2] > 0):
            # reflection off the boundary the first leg ends on
            up = d1[2] > 0
            j = i1 - 1 if up else i1 + 1
            if j < 0:
                n2 = n1 if spec["above"] is None else spec["above"]
            elif j >= len(layers):
                n2 = n1 if spec["below"] is None else spec["below"]
            else:
                n2 = layers[j]["n"]
            r_s, r_p, reg, c = textbook_reflection(n1, n2, sin1)
            want[0] *= r_s
            want[1] *= r_p
            cond = min(cond, c)
            kinds.append("reflect_" + reg)
        else:
            n2 = layers[i2]["n"]
            sin2 = n1 * sin1 / n2
            require(sin2 <= 1 + 1e-9, "transmission beyond the critical angle in %s", _geom(b))
            t1, t2 = math.asin(min(1.0, sin1)), math.asin(min(1.0, sin2))
            if t1 < 1e-7:
                t_s = t_p = 2 * n1 / (n1 + n2)
            else:
                # Fresnel's transmission laws
                t_s = 2 * math.sin(t2) * math.cos(t1) / math.sin(t1 + t2)
                t_p = t_s / math.cos(t1 - t2)
            want[0] *= t_s
            want[1] *= t_p
            cond = min(cond, max(math.cos(t2) * math.cos(t1), 1e-300))
            kinds.append("transmit_up" if n2 < n1 else "transmit_down")
    return want, cond, kinds, legs, bounds


@st.composite
def layered_cases(draw):
    return dict(path=draw(layered_paths()), signal=draw(signal_specs(max_n=64)), pol=draw(pol_specs()),
                polarized=draw(st.sampled_from([True, True, True, False])))


def check_layered(case, rec):
    """Time grid, reference filter, textbook Fresnel product, attenuation integral, basis."""
    b = build_path(case["path"])
    cl = ["layered", "layers=%d" % len(case["path"]["ice"]["layers"])]
    if b.path is None:
        rec.case(case, nontrivial=False, classes=cl + ["sol=0"])
        return
    p = b.path
    sig, times, x = build_signal(case["signal"])
    n = len(times)
    freqs = _bins(times)
    want, cond, kinds, legs, _ = _layered_reference(b)
    fr = p.fresnel
    if cond >= 1e-5:
        _compare_fresnel(fr, want, cond / max(1, len(kinds)), "chain %r" % (kinds,), b, accept_conjugate=True)
    # passivity in the form that survives refraction: the power flux through a horizontal
    # plane is proportional to n cos(theta) |E|^2, so along any chain of reflections and
    # transmissions |f|^2 n_b cos(theta_b) <= n_a cos(theta_a) (a = launch, b = arrival)
    d_a = legs[0][1] - legs[0][0]
    d_b = legs[-1][1] - legs[-1][0]
    flux_a = b.spec["layers"][legs[0][2]]["n"] * abs(d_a[2]) / float(np.linalg.norm(d_a))
    flux_b = b.spec["layers"][legs[-1][2]]["n"] * abs(d_b[2]) / float(np.linalg.norm(d_b))
    for name, r in zip(("f_s", "f_p"), fr):
        require(abs(complex(r)) ** 2 * flux_b <= flux_a * (1 + 1e-9),
                "%s = %r carries more power through the arrival plane (n cos = %r) than was launched "
                "(n cos = %r) along the chain %r; %s", name, r, flux_b, flux_a, kinds, _geom(b))
    # attenuation = exp(-sum over straight legs of int ds / L)
    fs = np.array([0.0, 1e8, 3e8, 1e9])
    att = _attenuation(p, fs)
    ref, ok = _straight_exponent(
        [(float(a_[2]), float(b_[2]), float(np.linalg.norm(b_ - a_))) for a_, b_, _ in legs],
        lambda z: 1.0 / np.asarray(b.ice.layers[0].attenuation_length(np.asarray(z, dtype=float), fs), dtype=float),
        len(fs))
    require(bool(np.all(att > 0)) and bool(np.all(att <= 1 + 1e-12)), "attenuation %r leaves (0, 1]; %s", att.tolist(), _geom(b))
    require(bool(np.all(np.diff(att) <= 1e-12)), "attenuation grows with f: %r; %s", att.tolist(), _geom(b))
    if ok:
        got = -np.log(att)
        require(bool(np.all(np.abs(got - ref) <= 0.02 * ref + 1e-12)),
                "attenuation %r = exp(-%r) but the line integrals of ds / L_att over the legs sum to %r; %s",
                att.tolist(), got.tolist(), np.asarray(ref).tolist(), _geom(b))
    tof = float(p.tof)
    expected = times + p.tof
    if case["polarized"]:
        pol = resolve_pol(case["pol"], p)
        out = propagate(b, sig, pol.tolist(), None)
        _check_basis(b, out[1], cl)
        a_f, g_s, g_p = _expected_gains(b, pol, out, freqs)
        jobs = [("s", out[0][0], g_s), ("p", out[0][1], g_p)]
        scale = float(np.max(np.abs(x))) * _norm(pol)
    else:
        out = propagate(b, sig, None, None)
        a_f = _attenuation(p, freqs)
        jobs = [("unpolarized", out, 1.0 + 0j)]
        scale = float(np.max(np.abs(x)))
    biggest = 0.0
    for name, o, gain in jobs:
        require(np.array_equal(np.asarray(o.times), expected),
                "%s output is not on the input grid delayed by tof = %r; %s", name, tof, _geom(b))
        got = _values(o, n, name + " signal")
        wantv = ref_filter(x, a_f * gain)
        err = float(np.max(np.abs(got - wantv)))
        biggest = max(biggest, float(np.max(np.abs(wantv))))
        xm = float(np.max(np.abs(x)))
        require(err <= TOL * scale * max(1.0, abs(gain)) + FLOOR + 2 * max(1.0, abs(gain)) *
                _shift_rounding_slack(case["signal"], times, tof) * (scale / xm if xm > 0 else 0.0),
                "%s output differs from irfft(attenuation x fresnel x (pol.u) x rfft(padded input)) by %.3g "
                "(gain %r); %s", name, err, gain, _geom(b))
    cl += sorted(set(kinds)) + ["polarized" if case["polarized"] else "unpolarized", "legs=%d" % len(legs)]
    rec.case(case, nontrivial=len(legs) >= 2 and biggest > 1e-6 * scale, classes=cl)


def check_layered_passive(case, rec):
    """|Fresnel product| <= 1 and energy, as the statement demands of every tracer."""
    b = build_path(case["path"])
    cl = ["layered"]
    if b.path is None:
        rec.case(case, nontrivial=False, classes=cl + ["sol=0"])
        return
    p = b.path
    want, cond, kinds, legs, _ = _layered_reference(b)
    gain = any(k == "transmit_up" for k in kinds)
    mark = " " + GAIN_MARK if gain else ""
    for name, r in zip(("f_s", "f_p"), p.fresnel):
        require(abs(complex(r)) <= 1 + 1e-12,
                "|%s| = %r exceeds 1 along the chain %r; %s%s", name, abs(complex(r)), kinds, _geom(b), mark)
    c2 = dict(case, interp=None)
    cl += sorted(set(kinds))
    _energy_body(b, c2, cl, rec, mark)


# ---------------------------------------------------------------------------

_RULE_PATHS = ("ray solution of SpecializedRayTracer / BasicRayTracer (dz 2,1,0.5; shipped or arbitrary "
               "exponential ice, index above 1/1.2/1.6/matched; generic, shallow, vertical, near-vertical, "
               "1e-9 tilts, near the shadow boundary, on the surface, steep; any azimuth and x,y offset) or "
               "UniformRayTracer (0-3 reflections, boundary indices set or None)")

PROPERTY = Property(
    "C03", "Ray propagation is passive, delays by time of flight, polarization transverse",
    [
        SubCheck("delay_grid", delay_cases(), check_delay, quick=800, thorough=40000, quick_shards=8,
                 rule=_RULE_PATHS + " x signal (Signal float/int, EmptySignal, FunctionSignal; 2-160 samples, both "
                      "parities) x polarization (arbitrary, unit, parallel to the ray, zero, pure s/p or None) x "
                      "interpolation step (None, 0.02-3); out.times == in.times + tof elementwise, input "
                      "untouched; non-trivial = a solution exists and tof > 0",
                 floors={"polarized": 0.3, "unpolarized": 0.12, "interp": 0.08, "uniform": 0.2, "specialized": 0.18, "basic": 0.06, "sig=FunctionSignal": 0.05, "turning_or_reflected": 0.18}, classify=_classifier()),
        SubCheck("linearity", linear_cases(), check_linear, quick=480, thorough=24000, quick_shards=8,
                 rule=_RULE_PATHS + " x two signals on one grid x two polarization vectors x real a, b x "
                      "interpolation; P(a X1 + b X2) = a P(X1) + b P(X2) in the signal resp. the polarization to "
                      "1e-9 of the input scale; non-trivial = independent operands, a b != 0, output above 1e-6",
                 floors={"lin=signal": 0.22, "lin=polarization": 0.18, "interp": 0.08}, classify=_classifier()),
        SubCheck("reference_filter", reference_cases(), check_reference, quick=800, thorough=40000, quick_shards=8,
                 rule=_RULE_PATHS + " x signal x polarization, no interpolation; s, p (or unpolarized) output = "
                      "irfft(attenuation(|f|) fresnel (pol.u) rfft(pad 2N)) to 1e-9 of the input scale; "
                      "non-trivial = expected output above 1e-6 of the input scale",
                 floors={"complex_fresnel": 0.04, "nyquist_content": 0.18, "unpolarized": 0.1, "odd": 0.15, "attenuated": 0.3}, classify=_classifier(NYQ_MARK)),
        SubCheck("interpolation", interpolation_cases(), check_interpolation, quick=480, thorough=24000, quick_shards=8,
                 rule="gradient-index solutions x signal x polarization x interpolation step 0.02-3; deviation "
                      "from the exactly attenuated signal bounded by sum_k |X_k| e_k / 2N, e_k = min(A(f_k 10^-step) "
                      "- A(f_k 10^step), 2 x worst error of a chord of width `step` around f_k); non-trivial = "
                      "that bound is below 5 % of the output",
                 floors={"tight_bound": 0.12, "unpolarized": 0.08, "coarse_step": 0.2}, classify=_classifier(NYQ_MARK)),
        SubCheck("attenuation", attenuation_cases(), check_attenuation, quick=800, thorough=40000, quick_shards=8,
                 rule=_RULE_PATHS + " x 2-7 frequencies (0, 1 Hz - 5 GHz, 1 GHz +- 1 ulp); range, evenness, "
                      "monotony, scalar call, and exp(-Gauss-Legendre line integral of ds / L_att) along the "
                      "reported ray; non-trivial = the quadrature converged and the exponent exceeds 1e-3",
                 floors={"quadrature": 0.45, "straddles_1GHz": 0.22, "f=0": 0.1, "turning_or_reflected": 0.18, "basic": 0.08}, classify=_classifier()),
        SubCheck("fresnel", fresnel_cases(), check_fresnel, quick=800, thorough=40000, quick_shards=8,
                 rule=_RULE_PATHS + "; |r| <= 1 and equality with the sine/tangent laws resp. total-reflection "
                      "phases recomputed from n1, n2 and the reported launch direction; non-trivial = the ray "
                      "reflects away from the critical angle",
                 floors={"regime=plain": 0.15, "regime=total": 0.05}, classify=_classifier()),
        SubCheck("energy", energy_cases(), check_energy, quick=800, thorough=40000, quick_shards=8,
                 rule=_RULE_PATHS + " x signal x polarization x interpolation; sum(out_s^2 + out_p^2) <= "
                      "sum(in^2) |pol|^2 (1 + 1e-9); non-trivial = output energy above 1e-12 of the bound",
                 floors={"nearly_lossless": 0.08, "interp": 0.08, "unpolarized": 0.08}, classify=_classifier()),
        SubCheck("pol_vectors", vector_cases(), check_vectors, quick=800, thorough=40000, quick_shards=8,
                 rule=_RULE_PATHS + " x polarization, with and without a signal; both vectors unit, mutually "
                      "orthogonal, perpendicular to the received direction, s horizontal and perpendicular to the "
                      "emitted direction (1e-9); non-trivial = the ray bends or is a uniform-ice ray",
                 floors={"near_vertical_ray": 0.015, "turning_or_reflected": 0.18, "vectors_only": 0.2, "with_signal": 0.18}, classify=_classifier(F13_MARK)),
        SubCheck("layered", layered_cases(), check_layered, quick=160, thorough=6000,
                 rule="LayeredRayTracer over 2-3 uniform layers of different index x signal x polarization; "
                      "time grid, reference filter, Fresnel product by the reflection and transmission laws, power "
                      "flux |f|^2 n cos(theta) not increased, attenuation over the straight legs, basis; "
                      "non-trivial = at least two legs and an output",
                 floors={"transmit_up": 0.2, "transmit_down": 0.12, "reflect_plain": 0.2, "unpolarized": 0.06}, classify=_classifier(F13_MARK), quick_shards=8),
        SubCheck("layered_passive", layered_cases(), check_layered_passive, quick=160, thorough=6000,
                 rule="same layered solutions; |Fresnel product| <= 1 and output energy <= input energy; "
                      "non-trivial = output energy above 1e-12 of the bound",
                 floors={"transmit_down": 0.2, "reflect_plain": 0.25}, classify=_classifier(GAIN_MARK), quick_shards=8),
    ],
    assumptions=[
        "signals have at least two samples (a one-sample signal has no time step, dt is None)",
        "the ice is at most 2800 m deep: the attenuation-length models are polynomial / linear extrapolations "
        "that turn unphysical (ice above 0 C, negative lengths) below ~2900 m, where 'does not grow with |f|' "
        "is not a property of the ice model itself (C16)",
        "gradient-index endpoint pairs keep at least one endpoint where the index differs from n0 in floating "
        "point (known finding F16); uniform-ice endpoints of reflected paths lie at least 0.5 m inside the ice "
        "(an endpoint on a reflecting boundary gives degenerate zero-length legs: tracer business, C02/C18)",
        "UniformRayTracePath / LayeredRayTracePath.propagate are called without attenuation_interpolation "
        "(known finding F8, decided by C10)",
        "the sign of the total-reflection phase (time convention) is not fixed by the statement: either sign, "
        "common to s and p, is accepted; the sign of r_p follows the returned basis u_p = u_s x ray",
        "Askaryan and thermal-noise inputs are covered as Signal / FunctionSignal value types by C07 / C17; here "
        "the input classes are Signal (float, int), EmptySignal and FunctionSignal",
        "the layered tracer is exercised on stacks of uniform layers only (exponential layers: C18)",
    ],
    design_ref="3/C03",
)
