"""C18 - uniform and layered tracers reduce to image geometry / one medium (DESIGN 3/C18).

Oracles (none of them uses pyrex's `dzs` shares, its launch-angle root search
or its closed forms):

* image method: the receiver is mirrored successively in the planes the path
  hits (z -> 2 s - z); length, directions and reflection points follow from the
  straight segment to that image;
* mirror-law walk: the reported polyline is walked vertex by vertex (vertex on
  the right plane, horizontal direction kept, vertical component flipped);
* chain walk: sub-paths of a layered solution must join up, lie in their own
  layer, cross/reflect only at boundaries, and obey Snell's law with indices
  evaluated by the harness from the layer *specs*; each sub-path is validated
  as a ray of its own layer (straight segment in uniform layers, C01's
  quadrature oracle `ref_rays.Quadrature` in exponential layers; Fermat's
  principle for the refracted ray through all-uniform stacks);
* split reduction: a medium split at arbitrary depths (inner-facing boundary
  indices matched) against the unsplit medium's own tracer.
"""

import math

import numpy as np
from hypothesis import strategies as st

from ..core import Property, SubCheck, Violation, require
from .. import gens, ref_rays as R
from ..gens import floats, log_floats
from .c01 import cancellation_bound, F17_MARK, UNIFORMITY, BETA_TOL

C = 299792458.0
EPS = 2.220446049250313e-16
F7_MARK = "[F7 source x,y dropped]"
ZERO_LEG_MARK = "[zero-length leg]"
DUP_MARK = "[duplicate solution: both endpoints on one internal boundary]"
SCAN_MARK = "[found with a 1/32 degree launch-angle scan]"
LAUNCH_MARK = "[leaves at the LAUNCH angle of the arriving sub-path, not its arrival angle]"
REL = 1e-9        # image-geometry comparisons: pure double arithmetic on O(1e4) numbers


# ---------------------------------------------------------------------------
# small vector helpers (plain floats / numpy, no pyrex)


def _v(p):
    return np.array([float(p[0]), float(p[1]), float(p[2])])


def _unit(v):
    n = float(np.linalg.norm(v))
    return v / n if n > 0 else v


def _fmt(p):
    return "[%s]" % ", ".join(repr(float(x)) for x in p)


# ---------------------------------------------------------------------------
# image method for a slab lo <= z <= hi


def planes_hit(lo, hi, n_ref, start):
    """Boundary depth of each reflection for a path starting up (+1) / down (-1)."""
    out = []
    d = start
    for _ in range(n_ref):
        out.append(hi if d > 0 else lo)
        d = -d
    return out


def image_path(a, b, lo, hi, n_ref, start):
    """Straight segment from `a` to the receiver mirrored in the planes hit.

    Returns dict(L, emitted, received, points (n_ref x 3), legs (n_ref+1 lengths),
    dz_total) -- all derived from mirror maps z -> 2 s - z."""
    planes = planes_hit(lo, hi, n_ref, start)
    zp = b[2]
    for s in reversed(planes):
        zp = 2 * s - zp
    bp = np.array([b[0], b[1], zp])
    seg = bp - a
    L = float(np.linalg.norm(seg))
    emitted = seg / L if L > 0 else None
    received = None
    if emitted is not None:
        received = emitted.copy()
        received[2] *= (-1) ** n_ref
    # images of the planes in the unfolded picture
    pts = []
    ts = []
    for i, s in enumerate(planes):
        u = s
        for sj in reversed(planes[:i]):
            u = 2 * sj - u
        t = (u - a[2]) / (zp - a[2]) if zp != a[2] else None
        ts.append(t)
        if t is None:
            pts.append(None)
        else:
            pts.append(np.array([a[0] + t * (b[0] - a[0]), a[1] + t * (b[1] - a[1]), s]))
    legs = None
    if all(t is not None for t in ts):
        tt = [0.0] + ts + [1.0]
        legs = [L * (t2 - t1) for t1, t2 in zip(tt[:-1], tt[1:])]
    return dict(L=L, emitted=emitted, received=received, points=pts, legs=legs,
                planes=planes, dz_total=zp - a[2])


def expected_uniform_set(spec, max_ref):
    """(n_ref, start) of the solutions the uniform tracer must return: a reflection
    needs a declared index on the far side of the boundary it happens at."""
    out = [(0, 0)]
    for n in range(1, max_ref + 1):
        for start in (1, -1):
            planes = planes_hit(0.0, 1.0, n, start)
            need_top = 1.0 in planes
            need_bot = 0.0 in planes
            if (need_top and spec["above"] is None) or (need_bot and spec["below"] is None):
                continue
            out.append((n, start))
    return out


# ---------------------------------------------------------------------------
# generators


def _depth(draw, lo, hi, outside=False, bounds=True):
    kinds = ["in"] * 6 + ["lo+", "hi-", "near_lo", "near_hi"]
    if bounds:
        kinds += ["lo", "hi"]
    if outside:
        kinds += ["above", "below"]
    kind = draw(st.sampled_from(kinds))
    # "one ulp inside": one unit in the last place of the ice's own depth scale (next to a
    # boundary at 0.0 `nextafter` would give a denormal number, which is not a depth)
    step = math.ulp(max(abs(lo), abs(hi)))
    if kind == "in":
        return min(max(draw(floats(lo, hi)), lo + step), hi - step)
    if kind == "lo":
        return lo
    if kind == "hi":
        return hi
    if kind == "lo+":
        return lo + step
    if kind == "hi-":
        return hi - step
    if kind == "near_lo":
        return min(hi - step, lo + draw(log_floats(1e-6, 1.0)))
    if kind == "near_hi":
        return max(lo + step, hi - draw(log_floats(1e-6, 1.0)))
    if kind == "above":
        return hi + draw(log_floats(1e-9, 100.0))
    return lo - draw(log_floats(1e-9, 100.0))


@st.composite
def _horizontal(draw):
    """-> (source xy, receiver xy)"""
    off = draw(st.sampled_from([[0.0, 0.0], None, None]))
    if off is None:
        off = [draw(floats(-1e4, 1e4)), draw(floats(-1e4, 1e4))]
    rho = draw(st.one_of(st.just(0.0), log_floats(1e-3, 1e4), log_floats(1.0, 3000.0),
                         log_floats(1.0, 3000.0)))
    phi = draw(st.one_of(floats(-math.pi, math.pi),
                         st.sampled_from([0.0, math.pi / 2, math.pi, -math.pi / 2])))
    return off, [off[0] + rho * math.cos(phi), off[1] + rho * math.sin(phi)]


@st.composite
def uniform_cases(draw, outside=False, min_ref=0, boundary="some"):
    """boundary: "never" = endpoints strictly inside, "some" = may lie on a boundary (not both
    on the same one), "always" = at least one endpoint exactly on a boundary."""
    # the existence sub-check wants undeclared boundary indices often, the geometry ones rarely
    spec = draw(gens.uniform_ice_specs(boundary_none=outside or draw(st.integers(0, 2)) == 0))
    lo, hi = spec["range"]
    axy, bxy = draw(_horizontal())
    za = _depth(draw, lo, hi, outside=outside, bounds=boundary != "never")
    zb = _depth(draw, lo, hi, outside=outside, bounds=boundary != "never")
    if boundary == "always":
        which = draw(st.sampled_from(["a", "b", "both"]))
        if which in ("a", "both"):
            za = draw(st.sampled_from([lo, hi]))
        if which in ("b", "both"):
            zb = draw(st.sampled_from([lo, hi]))
    a = [axy[0], axy[1], za]
    b = [bxy[0], bxy[1], zb]
    coords = "float"
    if draw(st.integers(0, 9)) == 0:
        # integer coordinates are handed over as Python ints (integer ndarray inside pyrex)
        a = [float(round(x)) for x in a]
        b = [float(round(x)) for x in b]
        zmin, zmax = math.ceil(lo), math.floor(hi)
        if boundary == "never":
            zmin, zmax = math.floor(lo) + 1, math.ceil(hi) - 1
        if not outside:
            a[2] = float(min(max(a[2], zmin), zmax))
            b[2] = float(min(max(b[2], zmin), zmax))
        coords = "int"
    if boundary == "some" and a[2] == b[2] and a[2] in (lo, hi):
        # both endpoints on one boundary (a reflected path of zero vertical extent) is
        # exercised by the `uniform_on_boundary` sub-check only
        b[2] = float(math.floor(0.5 * (lo + hi)))
    return dict(ice=spec, a=a, b=b, max_ref=draw(st.integers(min_ref, 3)), coords=coords)


def _points_of(case):
    a, b = case["a"], case["b"]
    if case.get("coords") == "int":
        return tuple(int(x) for x in a), tuple(int(x) for x in b)
    return tuple(a), tuple(b)


def _trace_uniform(case):
    from pyrex.ray_tracing import UniformRayTracer
    ice = gens.build_ice(case["ice"])
    pa, pb = _points_of(case)
    rt = UniformRayTracer(pa, pb, ice)
    rt.max_reflections = case["max_ref"]     # before the first read of `solutions`
    return rt, list(rt.solutions)


def _identify(sol, lo, hi, idx):
    """(n_ref, start, xs, ys, zs) of a uniform solution from its public coordinates."""
    xs, ys, zs = sol.coordinates
    xs, ys, zs = np.asarray(xs, float), np.asarray(ys, float), np.asarray(zs, float)
    require(len(xs) == len(ys) == len(zs) and len(zs) >= 2,
            "solution %d: coordinates of lengths %d,%d,%d", idx, len(xs), len(ys), len(zs))
    n_ref = len(zs) - 2
    start = 0
    if n_ref:
        require(zs[1] in (lo, hi), "solution %d: first reflection point at z=%r, not on an ice "
                "boundary (%r, %r)", idx, zs[1], lo, hi)
        start = 1 if zs[1] == hi else -1
    return n_ref, start, xs, ys, zs


# ---------------------------------------------------------------------------
# uniform tracer: which solutions exist


def check_uniform_existence(case, rec):
    spec = case["ice"]
    lo, hi = spec["range"]
    a, b = _v(case["a"]), _v(case["b"])
    rt, sols = _trace_uniform(case)
    inside = lo <= a[2] <= hi and lo <= b[2] <= hi
    require(bool(rt.exists) == inside, "exists=%r for depths %r, %r in range %r",
            rt.exists, a[2], b[2], spec["range"])
    if not inside:
        require(len(sols) == 0, "%d solutions although an endpoint is outside the ice %r",
                len(sols), spec["range"])
        rec.case(case, nontrivial=True, classes=["outside"])
        return
    got = []
    for idx, s in enumerate(sols):
        n_ref, start, xs, ys, zs = _identify(s, lo, hi, idx)
        got.append((n_ref, start))
        require(bool(s.direct) == (n_ref == 0), "solution %d: direct=%r with %d reflection points",
                idx, s.direct, n_ref)
    want = expected_uniform_set(spec, case["max_ref"])
    require(sorted(got) == sorted(want),
            "max_reflections=%d, index_above=%r, index_below=%r: solutions (reflections, first "
            "direction) %r, expected exactly %r", case["max_ref"], spec["above"], spec["below"],
            sorted(got), sorted(want))
    require(len(sols) <= 2 * case["max_ref"] + 1, "more than 2N+1 solutions")
    cl = ["max_ref=%d" % case["max_ref"]]
    if spec["above"] is None or spec["below"] is None:
        cl.append("a_boundary_index_None")
    if len(want) < 2 * case["max_ref"] + 1:
        cl.append("solutions_suppressed")
    rec.case(case, nontrivial=case["max_ref"] >= 1, classes=cl)


# ---------------------------------------------------------------------------
# uniform tracer: geometry of each solution


def _dir_tol(scale, leg):
    """Tolerance of a direction obtained from two stored points a distance `leg` apart:
    1e-9 plus the representability of the points (4 ulp of the coordinate scale)."""
    if leg <= 0:
        return math.inf
    return REL + 8 * EPS * scale / leg


def _walk_polyline(P, a, b, n_index, planes, L, T, e, r, idx, geom):
    """Mirror-law walk over the reported vertices P (k x 3)."""
    scale = 1.0 + float(np.max(np.abs(P)))
    tol = REL * (scale + L)
    require(float(np.linalg.norm(P[0] - a)) <= tol and float(np.linalg.norm(P[-1] - b)) <= tol,
            "solution %d: path runs from %s to %s, not between the endpoints; %s",
            idx, _fmt(P[0]), _fmt(P[-1]), geom)
    legs = [P[i + 1] - P[i] for i in range(len(P) - 1)]
    lens = [float(np.linalg.norm(l)) for l in legs]
    require(abs(sum(lens) - L) <= REL * max(L, 1.0) + 8 * EPS * scale * len(lens),
            "solution %d: path_length %r but the legs between the reported points add up to %r; %s",
            idx, L, sum(lens), geom)
    require(abs(T - n_index * L / C) <= REL * T, "solution %d: tof %r, but n L / c = %r; %s",
            idx, T, n_index * L / C, geom)
    for i, s in enumerate(planes):
        require(abs(P[i + 1][2] - s) <= REL * scale,
                "solution %d: reflection point %d at depth %r, the boundary is at %r; %s",
                idx, i + 1, P[i + 1][2], s, geom)
        if lens[i] > 0 and lens[i + 1] > 0:
            din, dout = legs[i] / lens[i], legs[i + 1] / lens[i + 1]
            t = _dir_tol(scale, min(lens[i], lens[i + 1]))
            mirror = np.array([din[0], din[1], -din[2]])
            require(float(np.linalg.norm(dout - mirror)) <= t,
                    "solution %d: at reflection point %d the ray arrives along %s and leaves along %s: "
                    "not a mirror reflection (tolerance %.3g); %s", idx, i + 1, _fmt(din), _fmt(dout), t, geom)
    if lens[0] > 0:
        t = _dir_tol(scale, lens[0])
        require(float(np.linalg.norm(e - legs[0] / lens[0])) <= t,
                "solution %d: emitted_direction %s is not along the first leg %s; %s",
                idx, _fmt(e), _fmt(legs[0] / lens[0]), geom)
    if lens[-1] > 0:
        t = _dir_tol(scale, lens[-1])
        require(float(np.linalg.norm(r - legs[-1] / lens[-1])) <= t,
                "solution %d: received_direction %s is not along the last leg %s; %s",
                idx, _fmt(r), _fmt(legs[-1] / lens[-1]), geom)


def _check_uniform_solution(s, idx, a, b, spec, n_ref, start, P):
    lo, hi = spec["range"]
    n = spec["n"]
    geom = "from %s to %s, UniformIce n=%r range %r, %d reflection(s) starting %s" % (
        _fmt(a), _fmt(b), n, spec["range"], n_ref, {1: "upwards", -1: "downwards", 0: "-"}[start])
    img = image_path(a, b, lo, hi, n_ref, start)
    L = float(s.path_length)
    T = float(s.tof)
    e = np.asarray(s.emitted_direction, dtype=float)
    r = np.asarray(s.received_direction, dtype=float)
    scale = 1.0 + float(np.max(np.abs([a, b])))
    tol_p = REL * (scale + img["L"])
    classes = []
    # -- reflection points (first: they decide whether a mismatch is the known x,y loss)
    mark = ""
    if n_ref and img["legs"] is not None:
        for i, want in enumerate(img["points"]):
            got = P[i + 1]
            if float(np.linalg.norm(got - want)) > tol_p:
                shifted = got + np.array([a[0], a[1], 0.0])
                if (a[0] != 0 or a[1] != 0) and float(np.linalg.norm(shifted - want)) <= tol_p:
                    mark = " " + F7_MARK
                raise Violation(
                    "solution %d: reflection point %d reported at %s; the straight segment to the "
                    "mirrored receiver meets that boundary at %s; %s%s"
                    % (idx, i + 1, _fmt(got), _fmt(want), geom, mark))
    # -- length, time
    require(math.isfinite(L) and math.isfinite(T), "solution %d: path_length %r tof %r; %s", idx, L, T, geom)
    require(abs(L - img["L"]) <= REL * max(img["L"], 1.0) + 8 * EPS * scale * (n_ref + 1),
            "solution %d: path_length %r, distance to the mirrored receiver %r; %s", idx, L, img["L"], geom)
    require(abs(T - n * img["L"] / C) <= REL * n * max(img["L"], 1.0) / C + 8 * EPS * scale * (n_ref + 1) * n / C,
            "solution %d: tof %r, n L / c = %r; %s", idx, T, n * img["L"] / C, geom)
    # -- directions
    if img["L"] > 0:
        # first / last leg from their exact vertical extents (the share of L rounds to 0 for
        # an endpoint a few ulp from the boundary)
        if n_ref:
            ez = abs(img["emitted"][2])
            v0, v1 = abs(img["planes"][0] - a[2]), abs(img["planes"][-1] - b[2])
            legs = [v0 / ez if ez > 0 else img["L"], v1 / ez if ez > 0 else img["L"]]
            zero_first, zero_last = v0 == 0, v1 == 0
        else:
            legs = [img["L"], img["L"]]
            zero_first = zero_last = False
        for name, got, want, leg, zero in (("emitted", e, img["emitted"], legs[0], zero_first),
                                           ("received", r, img["received"], legs[-1], zero_last)):
            require(got.shape == (3,), "solution %d: %s_direction has shape %r", idx, name, got.shape)
            t = _dir_tol(scale, abs(leg))
            if zero:
                # an endpoint lies on the boundary the path reflects off there: the leg between
                # endpoint and reflection point has no length, the direction of the straight
                # segment to the image is still defined
                ok = bool(np.all(np.isfinite(got))) and float(np.linalg.norm(got - want)) <= REL
                require(ok, "solution %d: %s_direction %s, the segment to the mirrored receiver has "
                        "direction %s; %s %s", idx, name, _fmt(got), _fmt(want), geom, ZERO_LEG_MARK)
                classes.append("zero_leg")
                continue
            require(bool(np.all(np.isfinite(got))) and float(np.linalg.norm(got - want)) <= t,
                    "solution %d: %s_direction %s, the segment to the mirrored receiver has direction %s "
                    "(tolerance %.3g); %s", idx, name, _fmt(got), _fmt(want), t, geom)
    else:
        classes.append("coincident")
        require(L == 0 and T == 0, "solution %d: coincident endpoints but path_length %r tof %r", idx, L, T)
    # -- independent walk over the reported vertices
    if not any(c == "zero_leg" for c in classes):
        _walk_polyline(P, a, b, n, img["planes"], L, T, e, r, idx, geom)
    return classes


def check_uniform_direct(case, rec):
    spec = case["ice"]
    lo, hi = spec["range"]
    a, b = _v(case["a"]), _v(case["b"])
    rt, sols = _trace_uniform(case)
    require(len(sols) >= 1, "no solution between points inside the ice")
    found = 0
    for idx, s in enumerate(sols):
        if not s.direct:
            continue
        n_ref, start, xs, ys, zs = _identify(s, lo, hi, idx)
        require(n_ref == 0, "solution %d: direct=True with %d reflection points", idx, n_ref)
        found += 1
        P = np.stack([xs, ys, zs], axis=1)
        _check_uniform_solution(s, idx, a, b, spec, 0, 0, P)
        fs, fp = s.fresnel
        require(fs == 1 and fp == 1, "direct path carries Fresnel factors %r, %r", fs, fp)
    require(found == 1, "%d direct solutions", found)
    rho = math.hypot(b[0] - a[0], b[1] - a[1])
    cl = []
    if a[0] != 0 or a[1] != 0:
        cl.append("source_xy_offset")
    if rho == 0:
        cl.append("vertical")
    if case["coords"] == "int":
        cl.append("int_coords")
    if np.array_equal(a, b):
        cl.append("coincident")
    rec.case(case, nontrivial=not np.array_equal(a, b), classes=cl)


def check_uniform_reflected(case, rec):
    spec = case["ice"]
    lo, hi = spec["range"]
    a, b = _v(case["a"]), _v(case["b"])
    rt, sols = _trace_uniform(case)
    cl = set()
    n_checked = 0
    for idx, s in enumerate(sols):
        n_ref, start, xs, ys, zs = _identify(s, lo, hi, idx)
        if n_ref == 0:
            continue
        P = np.stack([xs, ys, zs], axis=1)
        cl.update(_check_uniform_solution(s, idx, a, b, spec, n_ref, start, P))
        cl.add("n_ref=%d" % n_ref)
        n_checked += 1
    if a[0] != 0 or a[1] != 0:
        cl.add("source_xy_offset")
    if math.hypot(b[0] - a[0], b[1] - a[1]) == 0:
        cl.add("vertical")
    if a[2] in (lo, hi) or b[2] in (lo, hi):
        cl.add("endpoint_on_boundary")
    if case["coords"] == "int":
        cl.add("int_coords")
    rec.case(case, nontrivial=n_checked > 0 and (a[0] != 0 or a[1] != 0), classes=sorted(cl))


def _classify_uniform(case, exc):
    msg = str(exc)
    lo, hi = case["ice"]["range"]
    if (isinstance(exc, ValueError) and "Invalid initial direction" in msg
            and case["a"][2] == case["b"][2] and case["a"][2] in (lo, hi)):
        return "endpoints-on-reflecting-boundary"
    if F7_MARK in msg:
        return "reflected-path-drops-source-xy"
    if ZERO_LEG_MARK in msg:
        return "zero-leg-direction"
    return None


# ===========================================================================
# layered ice
# ===========================================================================
#
# A stack spec is dict(cls="LayeredIce", layers=[layer specs, top-down], above=, below=);
# layer specs are the `gens` ice specs (UniformIce / exponential classes) with their own
# range and boundary indices.


def _n_layer(spec, z):
    """Index of one layer at a depth inside (or on the bounds of) its range, from the spec."""
    if spec["cls"] == "UniformIce":
        return spec["n"]
    return spec["n0"] - spec["k"] * math.exp(spec["a"] * z)


def split_stack(spec, splits):
    """The medium `spec` cut at the depths `splits` (descending): inner-facing boundary indices
    are left undeclared (= matched), outer-facing ones are those of the medium."""
    lo, hi = spec["range"]
    bounds = [hi] + list(splits) + [lo]
    layers = []
    for i in range(len(bounds) - 1):
        l = dict(spec)
        l.pop("default", None)
        l["range"] = [bounds[i + 1], bounds[i]]
        l["above"] = spec["above"] if i == 0 else None
        l["below"] = spec["below"] if i == len(bounds) - 2 else None
        layers.append(l)
    return dict(cls="LayeredIce", layers=layers, above=spec["above"], below=spec["below"])


def _trace_layered(stack, a, b, max_ref):
    from pyrex.custom.layered_ice import LayeredRayTracer
    lay = gens.build_ice(stack)
    for obj, sp in zip(lay.layers, stack["layers"]):
        if tuple(obj.valid_range) != tuple(sorted(sp["range"])):
            raise RuntimeError("stack spec is not top-down")
    rt = LayeredRayTracer(tuple(a), tuple(b), lay)
    rt.max_reflections = max_ref          # before the first read of `solutions`
    return lay, rt, list(rt.solutions)


def _horizontal_frame(a, b):
    h = b[:2] - a[:2]
    rho = float(np.hypot(h[0], h[1]))
    return (h / rho if rho > 0 else None), rho


def _in_plane(vec, hunit, what, idx, geom, tol=1e-9):
    vh = np.array([vec[0], vec[1]])
    if hunit is None:
        require(float(np.hypot(vh[0], vh[1])) <= tol,
                "solution %d: %s has a horizontal component %r although the receiver is straight "
                "above/below the source; %s", idx, what, vh.tolist(), geom)
        return
    cross = float(vh[0] * hunit[1] - vh[1] * hunit[0])
    dot = float(vh[0] * hunit[0] + vh[1] * hunit[1])
    require(abs(cross) <= tol and dot >= -tol,
            "solution %d: %s %s is not in the vertical plane from source to receiver (out-of-plane "
            "component %r, along-track %r); %s", idx, what, _fmt(vec), cross, dot, geom)


def _root_slack(paths, specs, layer_of):
    """Horizontal reach change of the whole chain when n sin(theta) moves by 8e-12 (the launch angle
    is a root found to ~2e-12 rad): the closing sub-path is pinned to the receiver and absorbs it.
    Large only when some sub-path grazes (reach ~ sqrt(n_top - beta))."""
    tot = 0.0
    for p, j in zip(paths, layer_of):
        sp = specs[j]
        if sp["cls"] == "UniformIce":
            continue
        f, t = _v(p.from_point), _v(p.to_point)
        e = np.asarray(p.emitted_direction, dtype=float)
        beta = _n_layer(sp, f[2]) * math.hypot(e[0], e[1])
        Q = R.Quadrature(R.Profile(sp, uniform_below=R.z_uniform_of(sp)), epsrel=1e-10)
        fn = Q.direct if p.direct else Q.indirect
        n_hi = _n_layer(sp, max(f[2], t[2]))
        q0 = fn(f[2], t[2], min(beta, n_hi))
        for bb in (beta - 8e-12, min(beta + 8e-12, n_hi)):
            qq = fn(f[2], t[2], bb)
            if q0 is not None and qq is not None:
                tot += abs(float(qq[0] - q0[0]))
    return tot


def _check_exp_subpath(p, spec, idx, i, geom, near_vertical=False, chain_slack=None):
    """One sub-path in an exponential layer against C01's quadrature oracle (O1), with the
    tolerances derived there from the tracer's two documented approximations.
    Returns (L_ref, T_ref) or None when the comparison is not decidable (grazing/ill-conditioned)."""
    f, t = _v(p.from_point), _v(p.to_point)
    e = np.asarray(p.emitted_direction, dtype=float)
    r = np.asarray(p.received_direction, dtype=float)
    L, T = float(p.path_length), float(p.tof)
    direct = bool(p.direct)
    where = "solution %d sub-path %d (%s, %s -> %s in layer %r)" % (
        idx, i, "direct" if direct else "turning/reflected", _fmt(f), _fmt(t),
        {k: spec[k] for k in ("n0", "k", "a", "range")})
    require(np.all(np.isfinite(e)) and np.all(np.isfinite(r)) and math.isfinite(L) and math.isfinite(T),
            "%s: non-finite direction/length/time e=%r r=%r L=%r T=%r; %s", where, e, r, L, T, geom)
    require(abs(np.linalg.norm(e) - 1) < 1e-9 and abs(np.linalg.norm(r) - 1) < 1e-9,
            "%s: directions not unit", where)
    rho = float(np.hypot(t[0] - f[0], t[1] - f[1]))
    n_f, n_t = _n_layer(spec, f[2]), _n_layer(spec, t[2])
    beta = n_f * math.hypot(e[0], e[1])
    beta_r = n_t * math.hypot(r[0], r[1])
    require(abs(beta - beta_r) <= 1e-9 * max(1.0, beta),
            "%s: n sin(theta) differs between its two ends (%r, %r); %s", where, beta, beta_r, geom)
    if direct:
        if f[2] != t[2]:
            require((e[2] > 0) == (t[2] > f[2]) or abs(e[2]) < 1e-9,
                    "%s: launched %s although it ends %s; %s", where, "up" if e[2] > 0 else "down",
                    "above" if t[2] > f[2] else "below", geom)
        require((r[2] > 0) == (e[2] > 0) or abs(r[2]) < 1e-7 or abs(e[2]) < 1e-7,
                "%s: a direct sub-path changes its vertical sense (e_z=%r r_z=%r); %s", where, e[2], r[2], geom)
    else:
        require(e[2] >= -1e-9 and r[2] <= 1e-9,
                "%s: must leave upwards and arrive downwards (e_z=%r, r_z=%r); %s", where, e[2], r[2], geom)
    z_u = R.z_uniform_of(spec)
    Q = R.Quadrature(R.Profile(spec, uniform_below=z_u), epsrel=1e-10)
    q = Q.direct(f[2], t[2], beta) if direct else Q.indirect(f[2], t[2], beta)
    n_hi = _n_layer(spec, max(f[2], t[2]))
    if q is None and beta <= n_hi * (1 + 1e-9):
        return None
    require(q is not None, "%s: no such ray with n sin(theta) = %r exists in this layer; %s", where, beta, geom)
    base = 5e-3
    tol_r = base + 1e-5 * max(rho, L)
    tol_L = base + 1e-5 * L
    tol_T = 1e-5 * T + base * spec["n0"] / C
    if min(f[2], t[2]) < z_u:
        tol_T += 1.5 * UNIFORMITY * T
    if beta <= BETA_TOL * 1.02:
        qv = (Q.direct(f[2], t[2], BETA_TOL * 1.02) if direct else Q.indirect(f[2], t[2], BETA_TOL * 1.02))
        if qv is not None:
            tol_r += float(qv[0])
        tol_L += 2 * (BETA_TOL / 1.3) ** 2 * L
        tol_T += 2 * (BETA_TOL / 1.3) ** 2 * T
    if 1 - beta / n_hi < 5e-6:
        # horizontal at the upper end within ~3e-3 rad: inverse-square-root slope of rho(beta)
        d_max = Q.direct_rho_max(f[2], t[2]) if f[2] != t[2] else 0.0
        b_g = n_hi * (1 - 5e-6)
        qg = Q.direct(f[2], t[2], b_g) if direct else Q.indirect(f[2], t[2], b_g)
        if qg is not None:
            graze = abs(float(qg[0]) - d_max) + 1e-3
            tol_r += graze
            tol_L += 2 * graze
            tol_T += 2 * graze * spec["n0"] / C
    errs = (abs(q[0] - rho), abs(q[1] - L), abs(q[2] - T))
    if errs[0] > tol_r or errs[1] > tol_L or errs[2] > tol_T:
        fn = Q.direct if direct else Q.indirect
        cond = 0.0
        for bb in (beta * (1 - 8 * EPS), min(beta * (1 + 8 * EPS), n_hi)):
            qq = fn(f[2], t[2], bb)
            if qq is not None:
                cond += abs(float(qq[0] - q[0]))
                tol_r += abs(float(qq[0] - q[0]))
                tol_L += abs(float(qq[1] - q[1]))
                tol_T += abs(float(qq[2] - q[2]))
        if cond > 0.01 * max(rho, 1.0):
            return None
    if errs[0] > tol_r and chain_slack is not None:
        tol_r += chain_slack()
    mark = ""
    if errs[0] > tol_r or errs[1] > tol_L or errs[2] > tol_T:
        cb = 4 * cancellation_bound(spec, f, t, beta, direct)
        if ((errs[0] <= tol_r + cb or near_vertical) and errs[1] <= tol_L + cb
                and errs[2] <= tol_T + cb * spec["n0"] / C):
            mark = " " + F17_MARK
    # (junction points of a near-vertical solution are not decidable, see check_chain)
    require(errs[0] <= tol_r or near_vertical,
            "%s: launched as reported (n sin theta = %r) a ray of this layer covers %r m "
            "horizontally, the sub-path spans %r m (tol %.3g); %s%s", where, beta, float(q[0]), rho, tol_r, geom, mark)
    require(errs[1] <= tol_L, "%s: path_length %r, line integral of ds %r (tol %.3g); %s%s",
            where, L, float(q[1]), tol_L, geom, mark)
    require(errs[2] <= tol_T, "%s: tof %r, line integral of n ds / c %r (tol %.3g); %s%s",
            where, T, float(q[2]), tol_T, geom, mark)
    return float(q[1]), float(q[2])


def _check_uniform_subpath(p, spec, idx, i, scale, geom, res=0.0):
    f, t = _v(p.from_point), _v(p.to_point)
    where = "solution %d sub-path %d (%s -> %s in uniform layer n=%r range %r)" % (
        idx, i, _fmt(f), _fmt(t), spec["n"], spec["range"])
    if not p.direct:
        # a reflection inside a uniform layer: image method with the layer's own bounds
        lo, hi = spec["range"]
        n_ref, start, xs, ys, zs = _identify(p, lo, hi, idx)
        _check_uniform_solution(p, idx, f, t, spec, n_ref, start, np.stack([xs, ys, zs], axis=1))
        return float(p.path_length), float(p.tof)
    seg = t - f
    D = float(np.linalg.norm(seg))
    L, T = float(p.path_length), float(p.tof)
    require(abs(L - D) <= REL * max(D, 1.0) + 8 * EPS * scale,
            "%s: path_length %r but its end points are %r apart; %s", where, L, D, geom)
    require(abs(T - spec["n"] * D / C) <= (REL * max(D, 1.0) + 8 * EPS * scale) * spec["n"] / C,
            "%s: tof %r, n L / c = %r; %s", where, T, spec["n"] * D / C, geom)
    if D > 0:
        u = seg / D
        tol = _dir_tol(scale, D)      # (both from the same two stored points: no residual enters)
        for name, got in (("emitted", p.emitted_direction), ("received", p.received_direction)):
            got = np.asarray(got, dtype=float)
            require(bool(np.all(np.isfinite(got))) and float(np.linalg.norm(got - u)) <= tol,
                    "%s: %s_direction %s is not along the straight segment %s (tolerance %.3g); %s",
                    where, name, _fmt(got), _fmt(u), tol, geom)
    return D, spec["n"] * D / C


def check_chain(sol, idx, a, b, stack, lay, max_ref, geom):
    """Every clause of 'a continuous chain of single-layer paths ... Snell / mirror at each
    boundary' for one layered solution.  Returns counters for the class statistics."""
    specs = stack["layers"]
    bounds = [specs[0]["range"][1]] + [sp["range"][0] for sp in specs]
    paths = list(sol.paths)
    require(len(paths) >= 1, "solution %d has no sub-paths; %s", idx, geom)
    layer_of = []
    for i, p in enumerate(paths):
        js = [j for j, obj in enumerate(lay.layers) if obj is p.ice]
        require(len(js) == 1, "solution %d sub-path %d is not attached to a layer of the stack; %s", idx, i, geom)
        layer_of.append(js[0])
    F = [_v(p.from_point) for p in paths]
    T_ = [_v(p.to_point) for p in paths]
    scale = 1.0 + float(np.max(np.abs([a, b])))
    hunit, rho = _horizontal_frame(a, b)
    require(float(np.linalg.norm(F[0] - a)) <= REL * scale,
            "solution %d: chain starts at %s, the source is %s; %s", idx, _fmt(F[0]), _fmt(a), geom)
    require(float(np.linalg.norm(T_[-1] - b)) <= REL * scale,
            "solution %d: chain ends at %s, the receiver is %s; %s", idx, _fmt(T_[-1]), _fmt(b), geom)
    tol_z = REL * scale
    res = _residual_budget(paths)
    derr = [_points_direction_error(p, res, scale) for p in paths]
    # documented approximation of the analytic tracer: below beta_tolerance a ray is treated as
    # vertical (no horizontal progress, azimuth undefined); junction points of such a solution are
    # off by up to the horizontal reach of a beta_tolerance ray, so direction laws are not decidable
    near_vertical = False
    cb_total = 0.0      # F17: rounding noise of the closed forms moves the junction points
    for i, p in enumerate(paths):
        sp = specs[layer_of[i]]
        if sp["cls"] != "UniformIce":
            e = np.asarray(p.emitted_direction, dtype=float)
            beta_i = _n_layer(sp, F[i][2]) * math.hypot(e[0], e[1])
            if beta_i <= BETA_TOL * 1.02:
                near_vertical = True
            cb_total += 4 * cancellation_bound(sp, F[i], T_[i], beta_i, bool(p.direct))
    derr_f17 = [d + (cb_total / max(float(p.path_length), 1e-300)
                     if type(p).__name__.startswith("Uniform") else 0.0) for d, p in zip(derr, paths)]
    L_sum = T_sum = 0.0
    L_ref = T_ref = 0.0
    decided = True
    n_indirect = 0
    for i, p in enumerate(paths):
        sp = specs[layer_of[i]]
        lo, hi = sp["range"]
        for z in (F[i][2], T_[i][2]):
            require(lo - tol_z <= z <= hi + tol_z,
                    "solution %d sub-path %d runs from z=%r to z=%r, outside its layer %r; %s",
                    idx, i, F[i][2], T_[i][2], sp["range"], geom)
        e = np.asarray(p.emitted_direction, dtype=float)
        r = np.asarray(p.received_direction, dtype=float)
        if not near_vertical:
            try:
                _in_plane(e, hunit, "emitted direction of sub-path %d" % i, idx, geom, 1e-9 + derr[i])
                _in_plane(r, hunit, "received direction of sub-path %d" % i, idx, geom, 1e-9 + derr[i])
            except Violation as v:
                # an exponential sub-path takes its azimuth from its own two end points: closed-form
                # noise (F17) larger than its horizontal reach turns it round
                reach = float(np.hypot(T_[i][0] - F[i][0], T_[i][1] - F[i][1]))
                if sp["cls"] != "UniformIce" and cb_total >= 0.5 * reach:
                    raise Violation(str(v) + " " + F17_MARK)
                raise
        # horizontal progress is along the track (no sub-path runs backwards)
        dh = T_[i][:2] - F[i][:2]
        if hunit is not None and not near_vertical:
            # (the launch angle is a root found to ~2e-12 rad: d rho / d theta = rho / (sin cos)
            # turns that into metres for grazing rays, which a thin sub-path inherits in full)
            back = 1e-6 + 8e-12 * float(np.hypot(*(T_[-1][:2] - F[0][:2]))) / max(abs(float(e[2])), 1e-12)
            require(float(dh[0] * hunit[0] + dh[1] * hunit[1]) >= -back
                    and abs(float(dh[0] * hunit[1] - dh[1] * hunit[0])) <= 1e-6 + REL * scale,
                    "solution %d sub-path %d: horizontal displacement %r is not along the track from "
                    "source to receiver; %s", idx, i, dh.tolist(), geom)
        if sp["cls"] == "UniformIce":
            ref = _check_uniform_subpath(p, sp, idx, i, scale, geom)
        else:
            ref = _check_exp_subpath(p, sp, idx, i, geom, near_vertical,
                                     chain_slack=lambda: _root_slack(paths, specs, layer_of))
        if not p.direct:
            n_indirect += 1
        L_sum += float(p.path_length)
        T_sum += float(p.tof)
        if ref is None:
            decided = False
        else:
            L_ref += ref[0]
            T_ref += ref[1]
    # junctions
    n_trans = n_refl = 0
    for i in range(len(paths) - 1):
        gap = float(np.linalg.norm(T_[i] - F[i + 1]))
        require(gap <= 1e-6, "solution %d: sub-path %d ends at %s but sub-path %d starts at %s (gap %r m); %s",
                idx, i, _fmt(T_[i]), i + 1, _fmt(F[i + 1]), gap, geom)
        zj = T_[i][2]
        kb = min(range(len(bounds)), key=lambda k: abs(bounds[k] - zj))
        require(abs(bounds[kb] - zj) <= tol_z,
                "solution %d: sub-paths %d and %d meet at depth %r, which is not a layer boundary %r; %s",
                idx, i, i + 1, zj, bounds, geom)
        r = np.asarray(paths[i].received_direction, dtype=float)
        e = np.asarray(paths[i + 1].emitted_direction, dtype=float)
        j1, j2 = layer_of[i], layer_of[i + 1]
        if j1 == j2:
            n_refl += 1
            up = r[2] > 0
            require(kb == (j1 if up else j1 + 1),
                    "solution %d: reflection between sub-paths %d and %d at depth %r while travelling %s in "
                    "layer %d %r; %s", idx, i, i + 1, zj, "up" if up else "down", j1, specs[j1]["range"], geom)
            tj = 1e-9 + derr[i] + derr[i + 1]
            if near_vertical:
                tj = math.inf
            bad = float(np.linalg.norm(e - np.array([r[0], r[1], -r[2]]))) > tj
            mark = ""
            if bad:
                e0 = np.asarray(paths[i].emitted_direction, dtype=float)
                miss = float(np.linalg.norm(e - np.array([r[0], r[1], -r[2]])))
                # (after a turning sub-path the launch angle has been flipped twice)
                cand = np.array([e0[0], e0[1], -e0[2]]) if paths[i].direct else e0
                if float(np.linalg.norm(e - cand)) <= max(1e-9, 1e-2 * miss):
                    mark = " " + LAUNCH_MARK
                elif float(np.linalg.norm(e - np.array([r[0], r[1], -r[2]]))) <= 1e-9 + derr_f17[i] + derr_f17[i + 1]:
                    mark = " " + F17_MARK
            require(not bad,
                    "solution %d: at depth %r the ray arrives along %s and leaves along %s in the same layer: "
                    "not a mirror reflection (tolerance %.3g); %s%s", idx, zj, _fmt(r), _fmt(e), tj, geom, mark)
            if kb == 0:
                require(stack["above"] is not None, "solution %d reflects off the top of the stack although "
                        "no index is declared above it; %s", idx, geom)
            if kb == len(bounds) - 1:
                require(stack["below"] is not None, "solution %d reflects off the bottom of the stack although "
                        "no index is declared below it; %s", idx, geom)
        else:
            n_trans += 1
            up = r[2] > 0
            require(j2 == (j1 - 1 if up else j1 + 1) and kb == (j1 if up else j1 + 1),
                    "solution %d: sub-path %d (layer %d, travelling %s) is followed by a sub-path in layer %d, "
                    "junction depth %r; %s", idx, i, j1, "up" if up else "down", j2, zj, geom)
            require((e[2] > 0) == up and e[2] != 0 and r[2] != 0,
                    "solution %d: vertical sense changes in a transmission at depth %r (%r -> %r); %s",
                    idx, zj, r[2], e[2], geom)
            n1, n2 = _n_layer(specs[j1], bounds[kb]), _n_layer(specs[j2], bounds[kb])
            s1, s2 = math.hypot(r[0], r[1]), math.hypot(e[0], e[1])
            tj = (1e-7 + derr[i] + derr[i + 1]) * max(n1, n2)
            if near_vertical:
                tj = math.inf
            mark = ""
            if abs(n1 * s1 - n2 * s2) > tj and \
                    abs(n1 * s1 - n2 * s2) <= (1e-7 + derr_f17[i] + derr_f17[i + 1]) * max(n1, n2):
                mark = " " + F17_MARK
            require(abs(n1 * s1 - n2 * s2) <= tj,
                    "solution %d: Snell's law violated at depth %r: n1 sin(theta1) = %r * %r = %r, "
                    "n2 sin(theta2) = %r * %r = %r (tolerance %.3g); %s%s", idx, zj, n1, s1, n1 * s1, n2, s2,
                    n2 * s2, tj, geom, mark)
    require(n_refl + n_indirect <= max_ref,
            "solution %d has %d reflections/turns with max_reflections = %d; %s", idx, n_refl + n_indirect,
            max_ref, geom)
    # totals
    L, T = float(sol.path_length), float(sol.tof)
    require(abs(L - L_sum) <= 1e-12 * max(L_sum, 1.0), "solution %d: path_length %r, its sub-paths add up to %r; %s",
            idx, L, L_sum, geom)
    require(abs(T - T_sum) <= 1e-12 * max(T_sum, 1e-9), "solution %d: tof %r, its sub-paths add up to %r; %s",
            idx, T, T_sum, geom)
    require(np.array_equal(np.asarray(sol.emitted_direction), np.asarray(paths[0].emitted_direction))
            and np.array_equal(np.asarray(sol.received_direction), np.asarray(paths[-1].received_direction)),
            "solution %d: emitted/received direction differ from those of its first/last sub-path; %s", idx, geom)
    return dict(n_sub=len(paths), n_trans=n_trans, n_refl=n_refl, n_indirect=n_indirect,
                decided=decided, L_ref=L_ref, T_ref=T_ref, near_vertical=near_vertical)


# ---------------------------------------------------------------------------
# matching of layered solutions to reference solutions


ANGLE_PRECISION = 1e-12     # LayeredRayTracer._angle_precision: xtol of its launch-angle root search


def _residual_budget(paths):
    """Position error (m) of the junction points of a layered solution that the documented
    launch-angle precision explains: 4 xtol * sum_i d(rho_i)/d(theta), with
    d(rho_i)/d(theta) = L_i / cos(theta_i) in a uniform layer and bounded by L_i / cos^2 at the
    steeper end in an exponential one (capped at cos = 1e-2 for turning sub-paths)."""
    tot = 0.0
    for p in paths:
        e = np.asarray(p.emitted_direction, dtype=float)
        r = np.asarray(p.received_direction, dtype=float)
        L = float(p.path_length)
        cz = min(abs(float(e[2])), abs(float(r[2])))
        if type(p).__name__.startswith("Uniform"):
            tot += L / max(cz, 1e-9)
        else:
            tot += L / max(cz, 1e-2) ** 2
    return 4 * ANGLE_PRECISION * tot


def _points_direction_error(p, res, scale):
    """Error of the directions of a sub-path whose directions are differences of stored points
    (uniform layers): representability of the points plus the residual budget, over its length."""
    if not type(p).__name__.startswith("Uniform"):
        return 0.0
    D = float(p.path_length)
    if D <= 0:
        return math.inf
    return (res + 8 * EPS * scale) / D


def _sol_record(s, scale=1.0):
    fs, fp = s.fresnel
    rec_ = dict(L=float(s.path_length), T=float(s.tof),
                e=np.asarray(s.emitted_direction, dtype=float),
                r=np.asarray(s.received_direction, dtype=float),
                fs=complex(fs), fp=complex(fp), tol_e=0.0, tol_r=0.0, res=0.0, cz_min=None)
    paths = getattr(s, "paths", None)
    if paths:
        res = _residual_budget(paths)
        rec_["res"] = res
        rec_["tol_e"] = _points_direction_error(paths[0], res, scale)
        rec_["tol_r"] = _points_direction_error(paths[-1], res, scale)
        # cosine of incidence at every reflection of the chain (None: no reflection at all)
        cz = []
        for p1, p2 in zip(paths[:-1], paths[1:]):
            if p1.ice is p2.ice:
                cz.append(abs(float(np.asarray(p1.received_direction)[2])))
        for p in paths:
            if not p.direct and not type(p).__name__.startswith("Uniform"):
                zt = p.ice.valid_range[1]
                beta = float(p.ice.index(float(p.from_point[2]))) * math.hypot(*np.asarray(p.emitted_direction)[:2])
                s_top = beta / float(p.ice.index(zt))
                if s_top < 1:
                    cz.append(math.sqrt(1 - s_top * s_top))
        rec_["cz_min"] = min(cz) if cz else None
    return rec_


def _mismatch(u, l, tol_rel, tol_dir, extra_L=0.0, n_ref_index=1.0):
    """Largest ratio error/tolerance between a reference record `u` and a layered record `l`."""
    xl = extra_L + l["res"]
    worst = 0.0
    worst = max(worst, abs(u["L"] - l["L"]) / (tol_rel * max(u["L"], 1.0) + xl))
    worst = max(worst, abs(u["T"] - l["T"]) / (tol_rel * max(u["T"], 1.0 / C) + xl * 2.0 / C))
    worst = max(worst, float(np.linalg.norm(u["e"] - l["e"])) / (tol_dir + l["tol_e"]))
    worst = max(worst, float(np.linalg.norm(u["r"] - l["r"])) / (tol_dir + l["tol_r"]))
    return worst


def _fresnel_close(u, l, tol=1e-6):
    return (abs(u["fs"] - l["fs"]) <= tol * max(1.0, abs(u["fs"]))
            and abs(u["fp"] - l["fp"]) <= tol * max(1.0, abs(u["fp"])))


def match_solutions(refs, lays, tol_rel, tol_dir, geom, what, extra_L=None, n_index=1.0, mark_for=None,
                    dup_mark="", per_ref=None):
    """One-to-one: every reference solution carrying amplitude has a layered counterpart with
    equal length, time, directions and Fresnel product; every unmatched layered solution
    carries no amplitude (phantom reflection off an index-matched boundary).
    per_ref[k] = dict(rel=, dir=) adds documented-approximation allowances for reference k."""
    used = set()
    for k, u in enumerate(refs):
        if abs(u["fs"]) < 1e-9 and abs(u["fp"]) < 1e-9:
            continue      # carries nothing: presence or absence is immaterial
        xl = extra_L[k] if extra_L is not None else 0.0
        t_rel = tol_rel + (per_ref[k]["rel"] if per_ref else 0.0)
        t_dir = tol_dir + (per_ref[k]["dir"] if per_ref else 0.0)
        cands = sorted(((_mismatch(u, l, t_rel, t_dir, 0.0, n_index), j) for j, l in enumerate(lays)
                        if j not in used))
        mark = ""
        if (not cands or cands[0][0] > 1.0) and xl > 0:
            c2 = sorted(((_mismatch(u, l, t_rel, max(t_dir, 1e-3), xl, n_index), j)
                         for j, l in enumerate(lays) if j not in used))
            if c2 and c2[0][0] <= 1.0:
                mark = " " + F17_MARK
        if mark_for is not None and (not cands or cands[0][0] > 1.0):
            mark += mark_for(u)
        require(bool(cands) and cands[0][0] <= 1.0,
                "%s solution %d (L=%r, tof=%r, emitted %s, received %s) has no layered counterpart within "
                "%.1e relative / %.1e in direction; layered solutions: %s; %s%s", what, k, u["L"], u["T"],
                _fmt(u["e"]), _fmt(u["r"]), t_rel, t_dir,
                [(l["L"], l["T"], l["e"].tolist()) for l in lays][:6], geom, mark)
        j = cands[0][1]
        # (several layered solutions within the geometric tolerance - a phantom reflection off a
        # matched boundary centimetres from the real one, under the beta_tolerance allowance - :
        # the counterpart is the one that also carries the amplitude)
        ez = max(min(abs(float(u["e"][2])), abs(float(u["r"][2]))), 1e-12)
        for m_, j_ in cands:
            if m_ <= 1.0 and _fresnel_close(u, lays[j_], 1e-6 + 10 * t_dir + 64 * 2.2e-16 / ez ** 2):
                j = j_
                break
        used.add(j)
        # (a ray crossing a boundary at grazing incidence: the transmission coefficient is
        # a ratio of cosines of size |e_z|, its rounding error is ~eps/e_z^2)
        ez = max(min(abs(float(u["e"][2])), abs(float(u["r"][2]))), 1e-12)
        require(_fresnel_close(u, lays[j], 1e-6 + 10 * t_dir + 64 * 2.2e-16 / ez ** 2),
                "%s solution %d has Fresnel factors (%r, %r), its layered counterpart (%r, %r): transmission "
                "through index-matched boundaries must be 1; %s", what, k, u["fs"], u["fp"],
                lays[j]["fs"], lays[j]["fp"], geom)
    extras = [j for j in range(len(lays)) if j not in used]
    for j in extras:
        l = lays[j]
        # a reflection coefficient (n c1 - n c2)/(n c1 + n c2) of a matched boundary is zero up to
        # the rounding of the cosines: eps / cos^2 at grazing incidence
        tol_f = 1e-9 + (8 * EPS / max(l["cz_min"], 1e-150) ** 2 if l["cz_min"] is not None else 0.0)
        mark = ""
        if abs(l["fs"]) >= tol_f or abs(l["fp"]) >= tol_f:
            if dup_mark and any(_mismatch(lays[k], l, 1e-9, 1e-7) <= 1.0 for k in used):
                mark = " " + dup_mark
        require(abs(l["fs"]) < tol_f and abs(l["fp"]) < tol_f,
                "layered solution %d (L=%r, tof=%r, emitted %s) has no counterpart in the %s medium but carries "
                "Fresnel factors (%r, %r) (a phantom reflection must stay below %.3g); %s%s",
                j, l["L"], l["T"], _fmt(l["e"]), what, l["fs"], l["fp"], tol_f, geom, mark)
    return len(used), len(extras)


# ---------------------------------------------------------------------------
# split generators


def _split_depths(draw, lo, hi, za, zb, n_split, min_gap):
    """1-2 distinct depths strictly inside (lo, hi); kinds relative to the endpoint depths."""
    out = []
    kinds_seen = []
    z_hi, z_lo = max(za, zb), min(za, zb)
    for _ in range(n_split):
        kind = draw(st.sampled_from(["between", "between", "above", "below", "at_a", "at_b", "any"]))
        if kind == "between" and z_hi - z_lo > 2 * min_gap:
            z = draw(floats(z_lo + min_gap, z_hi - min_gap))
        elif kind == "above" and hi - z_hi > 2 * min_gap:
            z = draw(floats(z_hi + min_gap, hi - min_gap))
        elif kind == "below" and z_lo - lo > 2 * min_gap:
            z = draw(floats(lo + min_gap, z_lo - min_gap))
        elif kind in ("at_a", "at_b") and za == zb and draw(st.integers(0, 5)) != 0:
            # (both endpoints on one internal boundary: kept rare, it is a class of its own)
            kind = "any"
            z = draw(floats(lo + min_gap, hi - min_gap))
        elif kind == "at_a":
            z = za
        elif kind == "at_b":
            z = zb
        else:
            kind = "any"
            z = draw(floats(lo + min_gap, hi - min_gap))
        # no sliver layers between an endpoint and a boundary thinner than min_gap (a layer of 1e-13 m
        # is below the resolution of the launch-angle root search): such a depth is the endpoint itself
        for ze in (za, zb):
            if 0 < abs(z - ze) < min_gap:
                z = ze
        if not (lo + min_gap <= z <= hi - min_gap) or any(abs(z - o) < min_gap for o in out):
            continue
        out.append(z)
        kinds_seen.append(kind)
    if not out:
        out = [0.5 * (lo + hi)]
        kinds_seen = ["any"]
    order = sorted(range(len(out)), key=lambda i: -out[i])
    return [out[i] for i in order], [kinds_seen[i] for i in order]


def _split_classes(case):
    za, zb = case["a"][2], case["b"][2]
    z_hi, z_lo = max(za, zb), min(za, zb)
    cl = set()
    for z in case["splits"]:
        if z == za or z == zb:
            cl.add("split_at_endpoint")
        elif z_lo < z < z_hi:
            cl.add("split_between")
        elif z > z_hi:
            cl.add("split_above")
        else:
            cl.add("split_below")
    cl.add("splits=%d" % len(case["splits"]))
    if case["a"][0] != 0 or case["a"][1] != 0:
        cl.add("source_xy_offset")
    cl.add("max_ref=%d" % case["max_ref"])
    return cl


@st.composite
def split_uniform_cases(draw):
    spec = draw(gens.uniform_ice_specs(boundary_none=draw(st.integers(0, 2)) == 0))
    lo, hi = spec["range"]
    axy, bxy = draw(_horizontal())
    margin = 1e-3      # endpoints stay off the outer boundaries (zero-length legs: uniform_on_boundary)
    za = draw(st.one_of(floats(lo + margin, hi - margin), log_floats(margin, hi - lo - margin).map(lambda d: hi - d)))
    zb = draw(st.one_of(floats(lo + margin, hi - margin), log_floats(margin, hi - lo - margin).map(lambda d: hi - d)))
    if draw(st.integers(0, 7)) == 0 or abs(zb - za) < 1e-6:
        # (depths closer than the tracer's own 1e-12 m distance tolerance are not two depths)
        zb = za
    if zb == za and axy == bxy:
        bxy = [bxy[0] + 1.0, bxy[1]]     # coincident endpoints: uniform_direct
    splits, kinds = _split_depths(draw, lo, hi, za, zb, draw(st.integers(1, 2)), 1e-3)
    return dict(ice=spec, a=[axy[0], axy[1], za], b=[bxy[0], bxy[1], zb], splits=splits,
                max_ref=draw(st.sampled_from([0, 1, 1, 1, 2])))


def check_split_uniform(case, rec):
    from pyrex.ray_tracing import UniformRayTracer
    spec = case["ice"]
    lo, hi = spec["range"]
    a, b = _v(case["a"]), _v(case["b"])
    stack = split_stack(spec, case["splits"])
    geom = "from %s to %s, UniformIce n=%r range %r above %r below %r split at %r, max_reflections=%d" % (
        _fmt(a), _fmt(b), spec["n"], spec["range"], spec["above"], spec["below"], case["splits"], case["max_ref"])
    lay, rt, sols = _trace_layered(stack, a, b, case["max_ref"])
    require(bool(rt.exists) == (len(sols) > 0), "exists=%r with %d solutions", rt.exists, len(sols))
    scale = 1.0 + float(np.max(np.abs([a, b])))
    lays = [_sol_record(s, scale) for s in sols]
    dup = DUP_MARK if (a[2] == b[2] and a[2] in case["splits"]) else ""
    # (1) against the image method (harness only)
    refs_img = []
    for n_ref, start in expected_uniform_set(spec, case["max_ref"]):
        img = image_path(a, b, lo, hi, n_ref, start if n_ref else 1)
        if img["emitted"] is None:
            continue
        refs_img.append(dict(L=img["L"], T=spec["n"] * img["L"] / C, e=img["emitted"], r=img["received"],
                             n_ref=n_ref, start=start))
    for k, u in enumerate(refs_img):
        best = min((_mismatch(u, l, 1e-9, 1e-7), j) for j, l in enumerate(lays)) if lays else (math.inf, -1)
        require(best[0] <= 1.0,
                "the unsplit medium has a path with %d reflection(s) starting %s: L=%r tof=%r emitted %s "
                "received %s (image method); no layered solution agrees within 1e-9 relative / 1e-7 in "
                "direction; layered: %s; %s", u["n_ref"], {1: "up", -1: "down", 0: "-"}[u["start"]], u["L"],
                u["T"], _fmt(u["e"]), _fmt(u["r"]), [(l["L"], l["T"], l["e"].tolist()) for l in lays], geom)
    # (2) chain structure of every layered solution
    stats = [check_chain(s, idx, a, b, stack, lay, case["max_ref"], geom) for idx, s in enumerate(sols)]
    # (3) against the unsplit medium's own tracer (translated so that the source has x=y=0:
    #     a stratified medium is translation invariant; immune to the x,y defect F7) ...
    ice = gens.build_ice(spec)
    a0 = np.array([0.0, 0.0, a[2]])
    b0 = np.array([b[0] - a[0], b[1] - a[1], b[2]])
    ut = UniformRayTracer(tuple(a0), tuple(b0), ice)
    ut.max_reflections = case["max_ref"]
    refs = [_sol_record(s) for s in ut.solutions]
    # directions of the translated pair differ from the original pair's by rounding of b-a only
    d_min = max(float(np.linalg.norm(b - a)), 1e-300)
    tol_dir = 1e-6 + 8 * EPS * scale / d_min
    n_match, n_extra = match_solutions(refs, lays, 1e-6, tol_dir, geom, "unsplit (translated)", dup_mark=dup)
    # ... and (4) at the very endpoints
    ut2 = UniformRayTracer(tuple(a), tuple(b), ice)
    ut2.max_reflections = case["max_ref"]
    refs2 = [_sol_record(s) for s in ut2.solutions]
    match_solutions(refs2, lays, 1e-6, 1e-6, geom, "unsplit", dup_mark=dup,
                    mark_for=lambda u: (" " + F7_MARK) if (a[0] != 0 or a[1] != 0) else "")
    cl = _split_classes(case)
    if n_extra:
        cl.add("phantom_reflection")
    if any(st_["n_trans"] for st_ in stats):
        cl.add("transmission")
    rec.case(case, nontrivial=any(st_["n_trans"] for st_ in stats), classes=sorted(cl))


def _on_internal_boundary(case):
    if "stack" in case:
        inner = [l["range"][0] for l in case["stack"]["layers"][:-1]]
    else:
        inner = list(case["splits"])
    return case["a"][2] in inner or case["b"][2] in inner


def _boundary_artifact(case, msg):
    """Artifacts of LayeredRayTracer's handling of an endpoint lying exactly on an internal
    boundary (duplicate-point skipping in `solutions`): the same ray returned twice when both
    endpoints are on one boundary; for a vertical pair, an upward launch angle of 0 attached to
    a downward index path, which passes the undeclared-index test."""
    # (found by the thorough tier: with BOTH endpoints on one internal boundary also the
    # lengths of the returned chain stop adding up; the whole geometric class - an endpoint
    # exactly on an internal boundary - is the known finding)
    return _on_internal_boundary(case)


def _vertical_pair(case):
    return case["a"][0] == case["b"][0] and case["a"][1] == case["b"][1]


def _lost_solution(msg):
    return ("no layered solution agrees" in msg or "has no layered counterpart" in msg
            or "has no layered solution" in msg)


def _classify_split_uniform(case, exc):
    if _boundary_artifact(case, str(exc)):
        return "endpoint-on-internal-boundary"
    if _vertical_pair(case) and _lost_solution(str(exc)):
        return "layered-vertical-pair-loses-solution"
    if F7_MARK in str(exc):
        return "reflected-path-drops-source-xy"
    return None


# ---------------------------------------------------------------------------
# exponential medium split into layers


def _flat_limit(a_coef):
    """Depth above which k exp(a z) stays far above the rounding of n0 (F16 cannot occur)."""
    return -30.0 / a_coef


@st.composite
def split_exp_cases(draw):
    ice = draw(gens.exp_ice_specs(boundary_indices=False))
    if not ice.get("default"):
        ice["above"] = draw(st.sampled_from([1.0, 1.0, 1.2, None]))
    lo, hi = ice["range"]
    zmin = max(lo + 1.0, hi + _flat_limit(ice["a"]))
    top = hi - 1e-3
    z_u = max(R.z_uniform_of(ice), zmin)
    kind = draw(st.sampled_from(["generic", "generic", "generic", "shallow", "deep", "near_vertical",
                                 "vertical", "equal_depth", "far"]))
    rho = draw(log_floats(0.1, 3000.0))
    za, zb = draw(floats(zmin, top)), draw(floats(zmin, top))
    if kind == "shallow":
        za = max(zmin, hi - draw(log_floats(0.01, 30.0)))
        zb = max(zmin, hi - draw(log_floats(0.01, 30.0)))
        rho = draw(log_floats(0.1, 300.0))
    elif kind == "deep" and z_u - zmin > 2.0:
        za, zb = draw(floats(zmin, z_u - 1.0)), draw(floats(zmin, z_u - 1.0))
    elif kind == "near_vertical":
        rho = draw(log_floats(1e-4, 1.0))
    elif kind == "vertical":
        rho = 0.0
    elif kind == "equal_depth":
        # (the ray joining equal depths rises rho^2 |n'|/(8 n): keep it resolvable, cf. F16)
        za = draw(floats(max(zmin, hi - 12.0 / ice["a"]), top))
        zb = za
    elif kind == "far":
        rho = draw(log_floats(500.0, 6000.0))
    if abs(za - zb) < 1e-3:
        if kind == "vertical":
            zb = za - 1.0 if za - 1.0 >= zmin else za + 1.0
        else:
            zb = za
    if za == zb and za < hi - 12.0 / ice["a"]:
        zb = za + 1.0          # (equal depths only where the joining ray is resolvable)
    phi = draw(st.one_of(floats(-math.pi, math.pi), st.sampled_from([0.0, math.pi / 2, math.pi, -math.pi / 2])))
    off = draw(st.sampled_from([[0.0, 0.0], None, None]))
    if off is None:
        off = [draw(floats(-1e4, 1e4)), draw(floats(-1e4, 1e4))]
    # a boundary below the medium's z_uniform defeats the tracer's z_uniform guard (class of its
    # own, see guard_defeated): one case in five
    z_split_min = zmin
    if draw(st.integers(0, 4)) != 0:
        z_split_min = min(max(zmin, z_uniform_true(ice) + 1e-2), hi - 1.0)
    splits, kinds = _split_depths(draw, z_split_min, hi, za, zb, draw(st.integers(1, 2)), 1e-2)
    splits = [z for z in splits if z >= z_split_min] or [0.5 * (z_split_min + hi)]
    return dict(ice=ice, kind=kind, a=[off[0], off[1], za],
                b=[off[0] + rho * math.cos(phi), off[1] + rho * math.sin(phi), zb],
                splits=splits, max_ref=draw(st.sampled_from([1, 1, 1, 0])))


def _relevant_depth_pairs_flat(layer_specs, case):
    """F16: two depths a sub-path can join inside one exponential layer (endpoints, the layer's own
    bounds) where the index equals n0 in floats / the connecting ray cannot be resolved."""
    za, zb = case["a"][2], case["b"][2]
    rho = math.hypot(case["b"][0] - case["a"][0], case["b"][1] - case["a"][1])
    for sp in layer_specs:
        if sp["cls"] == "UniformIce":
            continue
        lo, hi = sp["range"]
        zs = sorted(set([z for z in (za, zb) if lo <= z <= hi] + [lo, hi]))
        for i in range(len(zs)):
            for j in range(i + 1, len(zs)):
                if R.flat_index_pair(sp, zs[i], zs[j]):
                    return True
        if za == zb and lo <= za <= hi and R.flat_index_pair(sp, za, zb, rho):
            return True
    return False


def check_split_exp(case, rec):
    from pyrex.ray_tracing import SpecializedRayTracer
    spec = case["ice"]
    a, b = _v(case["a"]), _v(case["b"])
    stack = split_stack(spec, case["splits"])
    geom = "from %s to %s, %s n0=%r k=%r a=%r range %r above %r split at %r, max_reflections=%d" % (
        _fmt(a), _fmt(b), spec["cls"], spec["n0"], spec["k"], spec["a"], spec["range"], spec["above"],
        case["splits"], case["max_ref"])
    scale = 1.0 + float(np.max(np.abs([a, b])))
    ice = gens.build_ice(spec)
    unsplit = list(SpecializedRayTracer(tuple(a), tuple(b), ice_model=ice).solutions)
    lay, rt, sols = _trace_layered(stack, a, b, case["max_ref"])
    require(bool(rt.exists) == (len(sols) > 0), "exists=%r with %d solutions", rt.exists, len(sols))
    lays = [_sol_record(s, scale) for s in sols]
    stats = [check_chain(s, idx, a, b, stack, lay, case["max_ref"], geom) for idx, s in enumerate(sols)]
    refs, extra, per_ref = [], [], []
    n_f = _n_layer(spec, a[2])
    z_u = R.z_uniform_of(spec)
    for u in unsplit:
        if case["max_ref"] == 0 and not u.direct:
            continue          # a turning / surface-reflected ray needs one allowed reflection
        rcd = _sol_record(u)
        refs.append(rcd)
        beta = n_f * math.hypot(rcd["e"][0], rcd["e"][1])
        extra.append(4 * cancellation_bound(spec, a, b, beta, bool(u.direct)))
        allow = dict(rel=0.0, dir=0.0)
        if min(a[2], b[2]) < z_u:
            # documented: below z_uniform the index is taken as n0 in the integrals but not in
            # Snell's law at a boundary -> relative differences up to 1 - uniformity_factor
            allow["rel"] += 1.5 * UNIFORMITY
            allow["dir"] += 1.5 * UNIFORMITY
        if beta <= BETA_TOL * 1.05:
            # documented: below beta_tolerance a ray is treated as vertical (azimuth of a sub-path
            # undefined, horizontal reach ignored)
            allow["rel"] += 2 * (BETA_TOL / 1.3) ** 2
            allow["dir"] += 2.1 * BETA_TOL / (spec["n0"] - spec["k"])
        per_ref.append(allow)
    dup = DUP_MARK if (a[2] == b[2] and a[2] in case["splits"]) else ""
    try:
        n_match, n_extra = match_solutions(refs, lays, 1e-6, 1e-6, geom, "unsplit", extra_L=extra,
                                           n_index=spec["n0"], dup_mark=dup, per_ref=per_ref)
    except Violation as v:
        if "has no layered counterpart" not in str(v) or F17_MARK in str(v):
            raise
        # mechanism probe: LayeredRayTracer brackets roots on a fixed 1-degree launch-angle grid
        # (`_angle_checks` = 91); does the counterpart appear on a 32 times finer grid?
        from pyrex.custom.layered_ice import LayeredRayTracer
        fine = LayeredRayTracer(tuple(a), tuple(b), lay)
        fine.max_reflections = case["max_ref"]
        fine._angle_checks = 2881
        lays_fine = [_sol_record(s_, scale) for s_ in fine.solutions]
        try:
            match_solutions(refs, lays_fine, 1e-6, 1e-6, geom, "unsplit", extra_L=extra,
                            n_index=spec["n0"], dup_mark=dup, per_ref=per_ref)
        except Violation:
            raise v
        raise Violation(str(v) + " " + SCAN_MARK)
    cl = _split_classes(case)
    cl.add(case["kind"])
    cl.add("unsplit_sol=%d" % len(unsplit))
    if n_extra:
        cl.add("phantom_reflection")
    if any(st_["n_trans"] for st_ in stats):
        cl.add("transmission")
    if any(st_["n_indirect"] for st_ in stats):
        cl.add("turning_subpath")
    if not spec.get("default"):
        cl.add("custom_ice")
    if min(a[2], b[2]) < R.z_uniform_of(spec):
        cl.add("below_z_uniform")
    rec.case(case, nontrivial=n_match > 0 and any(st_["n_trans"] for st_ in stats), classes=sorted(cl))


def z_uniform_true(spec, uniformity_factor=0.99999):
    """Unclamped depth where n = uniformity_factor * n0."""
    return math.log(spec["n0"] * (1 - uniformity_factor) / spec["k"]) / spec["a"]


def guard_defeated(layers):
    """True when an exponential layer lies entirely below the depth where its index reaches
    uniformity_factor * n0: pyrex clamps z_uniform to the layer's top and then evaluates the
    non-uniform closed forms AT that boundary (`deep = z < z_uniform` is strict), i.e. in the
    regime the z_uniform guard exists to avoid."""
    for sp in layers:
        if sp["cls"] != "UniformIce" and z_uniform_true(sp) > sp["range"][1]:
            return True
    return False


def _classify_layered(case, exc):
    msg = str(exc)
    if _boundary_artifact(case, msg):
        return "endpoint-on-internal-boundary"
    if "stack" in case:
        layers = case["stack"]["layers"]
    else:
        layers = split_stack(case["ice"], case["splits"])["layers"]
    if LAUNCH_MARK in msg:
        return "reflection-mirrors-launch-angle"
    if SCAN_MARK in msg:
        return "one-degree-scan-misses-roots"
    if _vertical_pair(case) and _lost_solution(msg):
        return "layered-vertical-pair-loses-solution"
    if case["a"][2] == case["b"][2] and _lost_solution(msg) and "stack" not in case:
        # equal depths: the lost ray is a nearly horizontal hop whose two roots lie closer
        # together than even the 32x finer scan of the mechanism probe resolves
        return "one-degree-scan-misses-roots"
    if _relevant_depth_pairs_flat(layers, case):
        return "flat-index-pair"
    if F17_MARK in msg:
        return "closed-form-cancellation"
    if guard_defeated(layers) and ("has no layered counterpart" in msg or "non-finite" in msg
                                   or "NaN" in msg or "nan" in msg):
        # (solutions lost / NaN because the closed forms are evaluated beyond z_uniform)
        return "z-uniform-guard-clamped-to-layer-top"
    return None


# ---------------------------------------------------------------------------
# genuinely different layers


@st.composite
def _layer_spec(draw, lo, hi, uniform):
    own_above = draw(st.sampled_from([1.0, None]))
    own_below = draw(st.sampled_from([None, None, 1.5]))
    if uniform:
        return dict(cls="UniformIce", n=draw(floats(1.2, 2.0)), range=[lo, hi], above=own_above, below=own_below)
    n0 = draw(floats(1.4, 2.0))
    k = draw(floats(0.05, n0 - 1.05))
    a_max = min(0.05, 30.0 / max(abs(lo), 1.0))
    a_coef = draw(floats(min(0.003, a_max), a_max))
    return dict(cls=draw(st.sampled_from(["AntarcticIce", "GreenlandIce"])), n0=n0, k=k, a=a_coef,
                range=[lo, hi], above=own_above, below=own_below)


@st.composite
def chain_cases(draw):
    n_layers = draw(st.sampled_from([2, 2, 3]))
    top = draw(st.sampled_from([0.0, 0.0, -30.0]))
    bounds = [top]
    for _ in range(n_layers):
        bounds.append(bounds[-1] - draw(st.one_of(floats(5.0, 100.0), floats(20.0, 800.0))))
    flavour = draw(st.sampled_from(["uniform", "uniform", "mixed", "mixed", "exponential"]))
    layers = []
    for i in range(n_layers):
        uni = flavour == "uniform" or (flavour == "mixed" and draw(st.booleans()))
        layers.append(draw(_layer_spec(bounds[i + 1], bounds[i], uni)))
    stack = dict(cls="LayeredIce", layers=layers, above=draw(st.sampled_from([1.0, 1.0, None, 1.3])),
                 below=draw(st.sampled_from([None, None, 1.5, 2.5])))
    lo, hi = bounds[-1], bounds[0]

    def depth():
        kind = draw(st.sampled_from(["in", "in", "in", "in", "boundary", "near_boundary"]))
        if kind == "boundary" and n_layers >= 2:
            return draw(st.sampled_from(bounds[1:-1]))
        if kind == "near_boundary":
            z = draw(st.sampled_from(bounds)) + draw(st.sampled_from([-1.0, 1.0])) * draw(log_floats(1e-3, 1.0))
            return min(max(z, lo + 1e-3), hi - 1e-3)
        return draw(floats(lo + 1e-3, hi - 1e-3))
    za, zb = depth(), depth()
    if abs(za - zb) < 1e-3:
        zb = za
    axy, bxy = draw(_horizontal())
    if za == zb and axy == bxy:
        bxy = [bxy[0] + 1.0, bxy[1]]
    return dict(stack=stack, flavour=flavour, a=[axy[0], axy[1], za], b=[bxy[0], bxy[1], zb],
                max_ref=draw(st.sampled_from([0, 1, 1, 1, 2])))


def _fermat_uniform(a, b, stack):
    """Optical path (in metres of n*length) of the refracted, reflection-free ray through a stack of
    uniform layers by Fermat's principle: minimise over the crossing points (convex problem).
    In the vertical plane: horizontal coordinate x_k of each crossed boundary."""
    import scipy.optimize
    specs = stack["layers"]
    z_hi, z_lo = max(a[2], b[2]), min(a[2], b[2])
    rho = float(np.hypot(b[0] - a[0], b[1] - a[1]))
    slabs = []      # (n, thickness) of the part of each layer between the two depths
    for sp in specs:
        lo, hi = sp["range"]
        t = min(hi, z_hi) - max(lo, z_lo)
        if t > 0:
            slabs.append((sp["n"], t))
    if not slabs:
        return None
    # Unknown u = tan(theta) in the layer(s) of smallest index (well conditioned up to grazing
    # incidence); Snell invariant p = n_min u / sqrt(1 + u^2); rho(u) = sum_k t_k tan(theta_k)
    # is monotone in u.
    n_min = min(n for n, _ in slabs)

    def tans(u):
        p = n_min * u / math.sqrt(1 + u * u)
        out = []
        for n, t in slabs:
            if n == n_min:
                out.append((u, math.sqrt(1 + u * u)))             # tan, 1/cos
            else:
                c2 = n * n - p * p
                out.append((p / math.sqrt(c2), n / math.sqrt(c2)))
        return p, out

    def span(u):
        return sum(t * tc[0] for (n, t), tc in zip(slabs, tans(u)[1])) - rho
    if rho == 0:
        u = 0.0
    else:
        u_hi = 1e15
        if span(u_hi) < 0:
            return None
        u = scipy.optimize.brentq(span, 0.0, u_hi, xtol=1e-300, rtol=4 * EPS, maxiter=1000)
    p, tc = tans(u)
    opt = sum(n * t * x[1] for (n, t), x in zip(slabs, tc))
    geo = sum(t * x[1] for (n, t), x in zip(slabs, tc))
    # conditioning of n_k^2 - p^2 in layers whose index is close to (not equal to) the smallest
    cond = max([1.0] + [n * n / (n * n - p * p) for n, t in slabs if n != n_min])
    return dict(optical=opt, length=geo, p=p, cond=cond)


def check_chain_case(case, rec):
    stack = case["stack"]
    a, b = _v(case["a"]), _v(case["b"])
    geom = "from %s to %s, stack %r above %r below %r, max_reflections=%d" % (
        _fmt(a), _fmt(b), [{k: v for k, v in l.items() if k != "cls"} | {"cls": l["cls"][:3]} for l in stack["layers"]],
        stack["above"], stack["below"], case["max_ref"])
    lay, rt, sols = _trace_layered(stack, a, b, case["max_ref"])
    require(bool(rt.exists) == (len(sols) > 0), "exists=%r with %d solutions", rt.exists, len(sols))
    stats = [check_chain(s, idx, a, b, stack, lay, case["max_ref"], geom) for idx, s in enumerate(sols)]
    tofs = [float(s.tof) for s in sols]
    require(all(t1 <= t2 for t1, t2 in zip(tofs[:-1], tofs[1:])), "solutions not sorted by time of flight: %r", tofs)
    cl = set(["flavour=" + case["flavour"], "layers=%d" % len(stack["layers"]), "max_ref=%d" % case["max_ref"],
              "sol>=1" if sols else "sol=0"])
    # independent totals: sub-path oracles add up to the solution's length and time
    for idx, (s, st_) in enumerate(zip(sols, stats)):
        if st_["decided"]:
            L, T = float(s.path_length), float(s.tof)
            # near-vertical rays through gradient layers: documented beta_tolerance regime of the
            # analytic sub-paths (length good to 2 (0.005/n)^2 ~ 1e-4 relative only)
            nv = 1e-4 * L if math.hypot(b[0] - a[0], b[1] - a[1]) < 0.02 * abs(b[2] - a[2]) else 0.0
            require(abs(L - st_["L_ref"]) <= 1e-2 * st_["n_sub"] + 2e-5 * L + nv and
                    abs(T - st_["T_ref"]) <= (1e-2 * st_["n_sub"] + 2e-5 * L + nv) * 2.0 / C + 2e-5 * T,
                    "solution %d: path_length %r / tof %r, the rays of its layers add up to %r / %r; %s",
                    idx, L, T, st_["L_ref"], st_["T_ref"], geom)
    # Fermat: the reflection-free solution through uniform layers
    if all(l["cls"] == "UniformIce" for l in stack["layers"]):
        fm = _fermat_uniform(a, b, stack)
        plain = [(s, st_) for s, st_ in zip(sols, stats) if st_["n_refl"] == 0 and st_["n_indirect"] == 0]
        bounds_in = [l["range"][0] for l in stack["layers"][:-1]]
        require(len(plain) <= 1, "%d reflection-free solutions through uniform layers (the refracted ray is "
                "unique); %s%s", len(plain), geom,
                (" " + DUP_MARK) if (a[2] == b[2] and a[2] in bounds_in) else "")
        if fm is not None and plain:
            s = plain[0][0]
            res = _residual_budget(s.paths)
            rel = 1e-9 + 8 * EPS * fm["cond"]
            require(abs(float(s.tof) * C - fm["optical"]) <= rel * fm["optical"] + 2 * res and
                    abs(float(s.path_length) - fm["length"]) <= 1e3 * rel * fm["length"] + 1e-9 + 2 * res * 1e3,
                    "reflection-free solution: c*tof = %r, length %r; Fermat's principle gives optical path %r, "
                    "length %r; %s", float(s.tof) * C, float(s.path_length), fm["optical"], fm["length"], geom)
            cl.add("fermat_checked")
        if fm is not None and fm["p"] < 0.999 * min(l["n"] for l in stack["layers"]):
            # a refracted ray well away from grazing exists: it must be found
            same_side_dup = a[2] == b[2]
            require(bool(plain) or same_side_dup, "the refracted ray through the uniform layers (Snell invariant "
                    "%r) is missing from the solutions; %s", fm["p"], geom)
    if any(st_["n_trans"] for st_ in stats):
        cl.add("transmission")
    if any(st_["n_refl"] for st_ in stats):
        cl.add("boundary_reflection")
    if any(st_["n_indirect"] for st_ in stats):
        cl.add("turning_subpath")
    if any(st_["n_sub"] >= 3 for st_ in stats):
        cl.add("three_or_more_subpaths")
    if a[0] != 0 or a[1] != 0:
        cl.add("source_xy_offset")
    rec.case(case, nontrivial=any(st_["n_trans"] for st_ in stats), classes=sorted(cl))


PROPERTY = Property(
    "C18", "Uniform and layered tracers reduce to image geometry and the one-medium tracer",
    [
        SubCheck("uniform_existence", uniform_cases(outside=True), check_uniform_existence,
                 quick=1000, thorough=60000,
                 rule="UniformIce (n 1.1-2, any range, boundary indices set/None) x endpoints (inside, on and "
                      "1 ulp inside the boundaries, outside) x max_reflections 0..3: the set of (reflections, "
                      "first direction) returned; non-trivial = max_reflections >= 1 or an endpoint outside",
                 floors={"outside": 0.1, "solutions_suppressed": 0.12}),
        SubCheck("uniform_direct", uniform_cases(), check_uniform_direct, quick=1000, thorough=60000,
                 rule="same domain, endpoints inside: the reflection-free solution vs the straight segment; "
                      "non-trivial = distinct endpoints",
                 floors={"source_xy_offset": 0.3, "vertical": 0.05}),
        SubCheck("uniform_reflected", uniform_cases(min_ref=1, boundary="never"), check_uniform_reflected,
                 quick=2000, thorough=100000,
                 rule="same domain, endpoints strictly inside (down to 1 ulp from a boundary), "
                      "max_reflections 1..3: every reflected solution vs the image method "
                      "(length, n L/c, both directions, reflection points) and a mirror-law walk over its "
                      "reported vertices; non-trivial = at least one reflected solution and source x,y != 0",
                 floors={"source_xy_offset": 0.3, "n_ref=2": 0.15, "n_ref=3": 0.07},
                 classify=_classify_uniform),
        SubCheck("uniform_on_boundary", uniform_cases(min_ref=1, boundary="always"), check_uniform_reflected,
                 quick=800, thorough=40000,
                 rule="as uniform_reflected with at least one endpoint exactly on an ice boundary (a leg of "
                      "the reflected path may have zero length; both endpoints may lie on the boundary the "
                      "path reflects off); non-trivial = at least one reflected solution and source x,y != 0",
                 floors={"source_xy_offset": 0.3},
                 classify=_classify_uniform),
        SubCheck("split_uniform", split_uniform_cases(), check_split_uniform, quick=600, thorough=40000, quick_shards=16,
                 rule="UniformIce cut at 1-2 depths (between / above / below / exactly at the endpoint depths) "
                      "into a LayeredIce with matched inner boundaries, any x,y, max_reflections 0..2: every "
                      "image-method path and every solution of UniformRayTracer (same max_reflections; at the "
                      "endpoints and translated to source x=y=0) has a layered counterpart with equal length, "
                      "time, directions and Fresnel product; other layered solutions carry |Fresnel| < 1e-9; every "
                      "layered solution is a valid chain; non-trivial = some solution crosses a split",
                 floors={"split_between": 0.1, "split_at_endpoint": 0.1, "phantom_reflection": 0.2,
                         "source_xy_offset": 0.3, "transmission": 0.3},
                 classify=_classify_split_uniform),
        SubCheck("split_exponential", split_exp_cases(), check_split_exp, quick=200, thorough=20000, quick_shards=16,
                 rule="exponential ice (shipped or arbitrary n0,k,a; depths above 30/a so that the index is "
                      "resolved) cut at 1-2 depths into a LayeredIce, pairs generic/shallow/deep/near-vertical/"
                      "vertical/equal-depth/far with any x,y: every SpecializedRayTracer solution of the unsplit "
                      "ice has a layered counterpart (length, time 1e-6 relative; directions 1e-6; Fresnel "
                      "product), other layered solutions carry |Fresnel| < 1e-9, every layered solution is a "
                      "valid chain whose sub-paths pass C01's quadrature oracle; non-trivial = a matched solution "
                      "and a crossing of a split",
                 floors={"split_between": 0.15, "transmission": 0.35, "turning_subpath": 0.35, "below_z_uniform": 0.25,
                         "custom_ice": 0.3, "source_xy_offset": 0.25},
                 classify=_classify_layered, shrink_cap=(30, 180)),
        SubCheck("layered_chain", chain_cases(), check_chain_case, quick=320, thorough=30000, quick_shards=16,
                 rule="2-3 different layers (uniform / exponential / mixed), any boundary indices, endpoints "
                      "anywhere incl. on internal boundaries, any x,y, max_reflections 0..2: every solution is a "
                      "continuous chain from source to receiver, each sub-path a ray of its own layer (straight "
                      "segment / quadrature oracle), Snell or mirror law at every junction, reflections only "
                      "where an index is declared, totals add up, Fermat's principle for the refracted ray "
                      "through uniform layers; non-trivial = some solution crosses a boundary",
                 floors={"transmission": 0.25, "boundary_reflection": 0.2, "fermat_checked": 0.15, "turning_subpath": 0.08,
                         "flavour=exponential": 0.08, "three_or_more_subpaths": 0.2},
                 classify=_classify_layered, shrink_cap=(30, 180)),
    ],
    assumptions=[
        "max_reflections is assigned on the tracer instance before `solutions` is first read (staleness after a "
        "read belongs to C06)",
        "'splitting a medium' means: layers with the medium's own parameters, inner-facing boundary indices "
        "left undeclared (None = matched), outer-facing indices those of the medium; LayeredIce gets the medium's "
        "index_above/index_below",
        "a solution whose Fresnel factors are below 1e-9 (+ rounding eps/cos^2 at grazing incidence) carries "
        "nothing: its presence or absence on either side of a reduction is immaterial",
        "the analytic tracer's documented approximations are part of its contract (as in C01): below "
        "beta_tolerance = 0.005 a ray is treated as vertical (junction points and azimuths of such layered "
        "solutions are not decided, lengths/times are, with the C01 allowance); below z_uniform relative "
        "differences up to 1.5 (1 - uniformity_factor) are allowed; LayeredRayTracer._angle_precision = 1e-12 rad "
        "bounds the junction-point residual that enters direction tolerances of short sub-paths",
        "exponential split media are exercised at depths above 30/a (index resolvably below n0, cf. F16); endpoint "
        "depths closer than 1e-6 m count as equal; coincident endpoints are exercised for the uniform tracer only",
        "Fresnel factors of genuinely different layers are not part of the statement and are not checked (only "
        "unit transmission / vanishing phantom reflections in split media)",
        "completeness of LayeredRayTracer for genuinely different layers is only demanded for the refracted ray "
        "through all-uniform stacks (Fermat oracle); for split media it is demanded against the unsplit tracer",
    ],
    design_ref="3/C18",
)
