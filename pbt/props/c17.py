"""C17 - thermal noise: band-limited, requested RMS, reproducible in absolute time (DESIGN 3/C17).

Oracles follow the statement, not the code:

* FullThermalNoise: v(t) = rms*sqrt(2/n)*sum a_j cos(2 pi f_j t +- phi_j) in ABSOLUTE time.
* FFTThermalNoise: the published frequencies are bins k_j/(N dt) of the constructed span
  (N = uniqueness * len(times)); on the lattice t_ref + i*dt (t_ref = first constructed sample)
  v = rms*sqrt(2/n)*sum a_j cos(2 pi k_j i / N -+ phi_j), evaluated with EXACT integer phases
  (k_j*i mod N), for every integer i (a sum of such cosines is N*dt-periodic, which is the
  documented periodic continuation); between lattice points the documented linear interpolation.
  Either phase sign is accepted as long as one sign fits all components and samples.
"""

import math
import os
import shutil
import tempfile

import numpy as np
from hypothesis import strategies as st

from ..core import HarnessError, Property, SubCheck, Violation, require
from .. import gens
from ..gens import floats, log_floats, seeds32

EPS = 2.220446049250313e-16
K_B = 1.380649e-23          # exact SI value; CODATA-2014 (older scipy) differs by 3e-7 relative
TWO_PI = 2.0 * math.pi

TAG_PERIOD = "[fft-period]"
TAG_NYQ = "[nyquist-half]"
KEY_PERIOD = "FFTThermalNoise interpolates with period (N-1)*dt instead of N*dt"
KEY_NYQ = "FFTThermalNoise Nyquist bin enters with half its published amplitude"


def classify(case, exc):
    msg = str(exc)
    if not isinstance(exc, Violation):
        return None
    if TAG_PERIOD in msg:
        return KEY_PERIOD
    if TAG_NYQ in msg:
        return KEY_NYQ
    return None


# ---------------------------------------------------------------------------
# generators (all JSON)


def _frac(draw):
    """Offset of a band edge from a bin: 0 = exactly on the bin, else clear of any bin."""
    kind = draw(st.sampled_from(["on", "half", "any", "any"]))
    if kind == "on":
        return 0.0
    if kind == "half":
        return 0.5
    return draw(floats(0.05, 0.95))


@st.composite
def fft_bands(draw, N, kinds, allow_nyq_bin):
    """Band edges in units of the bin width 1/(N dt); integer-valued = exactly on that bin."""
    K = N // 2                                  # highest rfft bin
    top_in = K - 1 if N % 2 == 0 else K         # highest bin that is neither DC nor Nyquist
    usable = []
    for k in kinds:
        if k == "inside" and top_in < 1:
            continue
        if k == "cross_nyq" and N % 2 == 0 and not allow_nyq_bin:
            continue
        usable.append(k)
    if not usable:
        usable = ["nobin"]
    kind = draw(st.sampled_from(usable))
    if kind == "inside":
        k_lo = draw(st.integers(1, top_in))
        k_hi = draw(st.one_of(st.just(k_lo), st.integers(k_lo, top_in), st.just(top_in)))
        lo = k_lo - _frac(draw)
        hi = k_hi + _frac(draw)
        if N % 2 == 1 and k_hi == K:
            pass                                # may exceed the Nyquist frequency (K+1/2): no bin there
    elif kind == "touch0":
        lo = draw(st.sampled_from([0.0, 0.0, -0.5, -7.25]))
        k_hi = draw(st.integers(0, max(0, top_in)))
        hi = k_hi + _frac(draw)
    elif kind == "cross_nyq":
        k_lo = draw(st.integers(max(1, K - 3), max(1, K)))
        lo = k_lo - _frac(draw)
        hi = draw(st.sampled_from([float(K), K + 0.5, K + 1.0, 2.0 * K + 3.5, K + draw(floats(0.05, 0.95))]))
    elif kind == "above":
        lo = K + 0.25 + draw(floats(0.0, 3.0 * K + 1.0))
        hi = lo + draw(floats(0.1, 5.0))
    else:                                       # between two bins
        k = draw(st.integers(0, K))
        lo, hi = k + 0.2, k + 0.8
    if not lo < hi:
        hi = lo + 0.5
    return dict(lo=float(lo), hi=float(hi))


@st.composite
def full_bands(draw, n, unique, max_freqs=40, periodic=False):
    """Band of the cosine class in units of 1/duration: lower edge y_lo, width w.

    w*unique = M + 1/2 so that the documented count int(bandwidth*duration*unique) is M whatever
    the rounding.  periodic=True places the lower edge on a multiple of half the frequency step.
    """
    M = draw(st.one_of(st.integers(1, 6), st.integers(1, max_freqs)))
    w = (M + 0.5) / unique
    n_f = M if w >= 1 else int(unique)
    if periodic:
        m = draw(st.integers(1, 2 * n_f + 6))
        return dict(y_lo=m * w / (2.0 * n_f), w=w, m=m)
    kind = draw(st.sampled_from(["inside", "inside", "zero", "negative", "above"]))
    nyq = (n - 1) / 2.0
    if kind == "inside":
        y_lo = draw(floats(0.05, max(0.1, nyq)))
    elif kind == "zero":
        y_lo = 0.0
    elif kind == "negative":
        y_lo = -draw(floats(0.1, 3.0))
    else:
        y_lo = nyq + draw(floats(0.0, 2.0 * nyq + 1.0))
    return dict(y_lo=y_lo, w=w)


@st.composite
def amp_specs(draw, kinds=("default", "const", "const1", "vec", "scalar")):
    kind = draw(st.sampled_from(list(kinds)))
    if kind == "const1":
        return dict(kind="const", c=1.0)
    if kind == "const":
        return dict(kind="const", c=draw(st.one_of(floats(0.1, 3.0), st.sampled_from([1.0, 2.0, 0.5]))))
    if kind in ("vec", "scalar"):
        return dict(kind=kind, a=draw(floats(0.2, 2.0)), b=draw(floats(0.0, 3.0)))
    return dict(kind=kind)                       # default / ones


@st.composite
def rms_specs(draw, kinds=("rms", "rms", "TR", "both")):
    kind = draw(st.sampled_from(list(kinds)))
    out = dict(kind=kind)
    if kind in ("rms", "both"):
        out["v"] = draw(st.one_of(st.just(1.0), log_floats(1e-6, 10.0)))
    if kind in ("TR", "both"):
        out["T"] = draw(floats(10.0, 1000.0))
        out["R"] = draw(floats(1.0, 1000.0))
    return out


@st.composite
def noise_specs(draw, cls=None, max_n=128, band_kinds=("inside", "inside", "touch0", "cross_nyq", "above", "nobin"),
                allow_nyq_bin=False, amp_kinds=("default", "const", "const1", "vec", "scalar"),
                force_even=False, min_n=2, max_freqs=40, periodic=False, rms_kinds=("rms", "rms", "TR", "both")):
    cls = cls or draw(st.sampled_from(["fft", "full"]))
    grid = draw(gens.grids(min_n=min_n, max_n=max_n))
    unique = draw(st.sampled_from([1, 1, 2, 3, 4, 5]))
    if force_even and (grid["n"] * unique) % 2 == 1:
        grid["n"] += 1
    if cls == "fft":
        band = draw(fft_bands(grid["n"] * unique, band_kinds, allow_nyq_bin))
    else:
        band = draw(full_bands(grid["n"], unique, max_freqs=max_freqs, periodic=periodic))
    return dict(cls=cls, grid=grid, unique=unique, band=band, amp=draw(amp_specs(amp_kinds)),
                rms=draw(rms_specs(rms_kinds)))


@st.composite
def windows(draw, N, region, max_len=24):
    """A window on the lattice t_ref + dt*idx/q: idx = start + step*arange(len).

    region: "span" = inside the constructed unique span [0, N-1]; "far" = up to three spans away;
    "interior" = inside [1, N-2].  `route` = how the float times are computed (the same lattice
    point reached by different float arithmetic differs by an ulp, as in Antenna.full_waveform).
    """
    q = draw(st.sampled_from([1, 1, 2, 4]))
    lo, hi = {"span": (0, (N - 1) * q), "interior": (q, (N - 2) * q),
              "far": (-3 * N * q, 4 * N * q)}[region]
    length = draw(st.integers(2, max_len))
    step = draw(st.sampled_from([1, q, q, 2 * q, 3]))
    if region != "far":
        step = max(1, min(step, (hi - lo) // (length - 1))) if hi - lo >= length - 1 else 1
        length = min(length, (hi - lo) // step + 1)
        if length < 2:
            # span too short for two distinct points: a far window of two points instead
            return dict(q=q, start=lo, step=1, len=2, route="a")
        start = draw(st.one_of(st.just(lo), st.just(hi - step * (length - 1)),
                               st.integers(lo, hi - step * (length - 1))))
    else:
        kind = draw(st.sampled_from(["any", "any", "wrap_end", "wrap_start", "period"]))
        if kind == "any":
            start = draw(st.integers(lo, hi))
        elif kind == "wrap_end":                # straddles the end of the span
            start = (N - 1) * q - step * draw(st.integers(0, length - 1))
        elif kind == "wrap_start":
            start = -step * draw(st.integers(0, length - 1))
        else:                                   # starts a whole number of spans away
            start = draw(st.integers(-3, 3)) * N * q
    return dict(q=q, start=int(start), step=int(step), len=int(length),
                route=draw(st.sampled_from(["a", "b", "c"])))


# ---------------------------------------------------------------------------
# building pyrex objects from specs


def amp_arg(spec, dt):
    kind = spec["kind"]
    if kind == "default":
        return None
    if kind == "const":
        return spec["c"]
    if kind == "ones":
        return lambda f: np.ones(np.shape(f))
    a, b = spec["a"], spec["b"]
    if kind == "vec":
        return lambda f: a + b * np.abs(f) * dt
    if kind == "scalar":
        def scalar_only(f):
            if isinstance(f, np.ndarray) and f.ndim > 0:
                raise TypeError("this amplitude function takes one frequency at a time")
            return a + b * abs(float(f)) * dt
        return scalar_only
    raise AssertionError(kind)


def amp_expected(spec, freqs, dt):
    """Published amplitudes the documentation promises (None = random)."""
    kind = spec["kind"]
    if kind == "default":
        return None
    if kind == "const":
        out = np.full(len(freqs), float(spec["c"]))
    elif kind == "ones":
        out = np.ones(len(freqs))
    else:
        out = np.array([spec["a"] + spec["b"] * abs(float(f)) * dt for f in freqs], dtype=float)
    out[np.asarray(freqs) == 0] = 0.0           # "force the zero-frequency (DC) amplitude to zero"
    return out


def band_edges(spec, times):
    """Band edges (Hz) from the spec, computed the way a user would from the time grid."""
    import scipy.fft
    n = len(times)
    if spec["cls"] == "fft":
        N = n * spec["unique"]
        dt = times[1] - times[0]
        bins = scipy.fft.rfftfreq(N, dt)

        def edge(x):
            if float(x).is_integer() and 0 <= x <= N // 2:
                return float(bins[int(x)])
            return x / (N * dt)
        return edge(spec["band"]["lo"]), edge(spec["band"]["hi"])
    D = times[-1] - times[0]
    return spec["band"]["y_lo"] / D, (spec["band"]["y_lo"] + spec["band"]["w"]) / D


def rms_kwargs(spec):
    r = spec["rms"]
    kw = {}
    if r["kind"] in ("rms", "both"):
        kw["rms_voltage"] = r["v"]
    if r["kind"] in ("TR", "both"):
        kw["temperature"] = r["T"]
        kw["resistance"] = r["R"]
    return kw


def rms_expected(spec, lo, hi):
    r = spec["rms"]
    if r["kind"] in ("rms", "both"):            # "this value will be used instead of ..."
        return r["v"]
    return math.sqrt(K_B * r["T"] * r["R"] * (hi - lo))


def noise_class(name):
    from pyrex.signals import FFTThermalNoise, FullThermalNoise
    return {"fft": FFTThermalNoise, "full": FullThermalNoise}[name]


def build_noise(spec, seed=None, amp=None):
    times = gens.build_times(spec["grid"])
    lo, hi = band_edges(spec, times)
    dt = spec["grid"]["dt"]
    if seed is not None:
        np.random.seed(seed)
    obj = noise_class(spec["cls"])(times, (lo, hi), f_amplitude=amp_arg(amp or spec["amp"], dt),
                                   uniqueness_factor=spec["unique"], **rms_kwargs(spec))
    return obj, times, lo, hi


def window_times(t_ref, dt, w):
    idx = w["start"] + w["step"] * np.arange(w["len"])
    q = float(w["q"])
    if w["route"] == "a":
        t = t_ref + dt * (idx / q)
    elif w["route"] == "b":
        t = (t_ref + dt * (w["start"] / q)) + (dt * w["step"] / q) * np.arange(w["len"])
    else:
        t = np.linspace(t_ref + dt * (idx[0] / q), t_ref + dt * (idx[-1] / q), w["len"])
    return idx, t


# ---------------------------------------------------------------------------
# oracles


def basis_of(obj):
    return dict(freqs=np.array(obj.freqs, dtype=float), amps=np.array(obj.amps, dtype=float),
                phases=np.array(obj.phases, dtype=float), rms=float(obj.rms))


def scale_of(b):
    n = len(b["freqs"])
    if n == 0:
        return 0.0
    return b["rms"] * math.sqrt(2.0 / n) * float(np.sum(np.abs(b["amps"])))


def cosine_sum(b, t, sign):
    """rms*sqrt(2/n)*sum a cos(2 pi f t + sign*phi) at absolute times t."""
    n = len(b["freqs"])
    t = np.asarray(t, dtype=float)
    if n == 0:
        return np.zeros(t.shape)
    ang = TWO_PI * np.multiply.outer(t, b["freqs"]) + sign * b["phases"]
    return b["rms"] * math.sqrt(2.0 / n) * (np.cos(ang) @ b["amps"])


def fft_bins(b, N, dt):
    """Integer bin numbers of the published frequencies (they must be bins of the N-point span)."""
    x = b["freqs"] * (N * dt)
    ks = np.rint(x).astype(np.int64)
    require(np.all(np.abs(x - ks) <= 1e-9 * np.maximum(1.0, np.abs(x))),
            "published frequencies %r are not multiples of 1/(N dt) with N=%d, dt=%r: f*N*dt=%r",
            b["freqs"].tolist(), N, dt, x.tolist())
    require(np.all(ks >= 0) and np.all(2 * ks <= N), "published bins %r outside 0..N/2 (N=%d)", ks.tolist(), N)
    return ks


def fft_lattice(b, ks, N, i, sign, nyq_weight=1.0):
    """Cosine sum at the integer lattice points i (any integers), exact integer phases."""
    n = len(ks)
    i = np.asarray(i, dtype=np.int64)
    if n == 0:
        return np.zeros(i.shape)
    ang = TWO_PI * (np.multiply.outer(i, ks) % N) / float(N) + sign * b["phases"]
    w = np.where(2 * ks == N, nyq_weight, 1.0)
    return b["rms"] * math.sqrt(2.0 / n) * (np.cos(ang) @ (b["amps"] * w))


def fft_expected(b, ks, N, idx, q, sign, nyq_weight=1.0):
    """Statement + documentation: cosine sum on the lattice, linear interpolation in between."""
    idx = np.asarray(idx, dtype=np.int64)
    i = idx // q
    r = (idx % q) / float(q)
    return (1 - r) * fft_lattice(b, ks, N, i, sign, nyq_weight) + r * fft_lattice(b, ks, N, i + 1, sign, nyq_weight)


def period_defect_explains(b, ks, N, idx, q, sign, obs, tol):
    """Classifier only: does the observation fit a continuation with period (N-1)*dt, whose first
    and last constructed samples fall on the same point (value ambiguous between the two)?"""
    idx = np.asarray(idx, dtype=np.int64)
    P = (N - 1) * q
    m = idx % P
    i = m // q
    r = (m % q) / float(q)
    S = fft_lattice(b, ks, N, np.arange(N), sign)
    # the two coincident end samples: either may be the one np.interp uses next to its neighbours
    ok = np.zeros(len(idx), dtype=bool)
    for first, last in ((S[0], S[N - 1]), (S[N - 1], S[N - 1]), (S[0], S[0])):
        T = S.copy()
        T[0], T[N - 1] = first, last
        model = (1 - r) * T[i] + r * T[np.minimum(i + 1, N - 1)]
        ok |= np.abs(obs - model) <= tol
    wrap = m == 0
    lo, hi = min(S[0], S[N - 1]) - tol, max(S[0], S[N - 1]) + tol
    ok = np.where(wrap, (obs >= lo) & (obs <= hi), ok)
    return ok


def position_slack(times_abs_max, dt, idx_abs_max):
    """Uncertainty (in lattice units) of where a float time sits on the float grid: every grid time
    carries an ulp of its magnitude, and a grid rebuilt from (first sample, spacing) drifts by one
    such ulp per step."""
    return 4 * EPS * (times_abs_max / dt) * (idx_abs_max + 1)


def judge_fft(obs, b, ks, N, idx, q, tol, what, nyq_weight=1.0, nyq_alt=None):
    """Compare observed values with the oracle; raise an untagged Violation for anything that the
    known period defect does not explain, a tagged one otherwise.  Returns the set of phase signs
    that fit all samples."""
    fits = set()
    best = None
    for sign in (-1.0, 1.0):
        exp = fft_expected(b, ks, N, idx, q, sign, nyq_weight)
        bad = np.abs(obs - exp) > tol
        if not bad.any():
            fits.add(sign)
        elif best is None or bad.sum() < best[1].sum():
            best = (sign, bad, exp)
    if fits:
        return fits
    sign, bad, exp = best
    j = int(np.argmax(np.abs(obs - exp) * bad))
    detail = ("%s: value at lattice position %s/%d is %r, the cosine sum of the published basis gives %r "
              "(tolerance %.3g, %d of %d samples off, N=%d, %d frequencies)"
              % (what, int(idx[j]), q, float(obs[j]), float(exp[j]), tol, int(bad.sum()), len(obs), N, len(ks)))
    if nyq_alt is not None:
        for s2 in (-1.0, 1.0):
            alt = fft_expected(b, ks, N, idx, q, s2, nyq_alt)
            if np.all(np.abs(obs - alt) <= tol):
                raise Violation(TAG_NYQ + " " + detail)
    for s2 in (-1.0, 1.0):
        exp2 = fft_expected(b, ks, N, idx, q, s2, nyq_weight)
        bad2 = np.abs(obs - exp2) > tol
        if np.all(period_defect_explains(b, ks, N, idx, q, s2, obs, tol) | ~bad2):
            raise Violation(TAG_PERIOD + " " + detail)
    raise Violation(detail)


# ---------------------------------------------------------------------------
# basis: published frequencies / amplitudes / phases / rms


@st.composite
def basis_cases(draw):
    return dict(noise=draw(noise_specs(allow_nyq_bin=True)), seed=draw(seeds32))


def expected_fft_bins(spec):
    N = spec["grid"]["n"] * spec["unique"]
    lo, hi = spec["band"]["lo"], spec["band"]["hi"]
    return [k for k in range(0, N // 2 + 1) if lo <= k <= hi]


def check_basis(case, rec):
    spec = case["noise"]
    obj, times, lo, hi = build_noise(spec, case["seed"])
    n = len(times)
    dt_eff = times[1] - times[0]
    classes = {spec["cls"], "amp:" + spec["amp"]["kind"], "rms:" + spec["rms"]["kind"]}
    require(obj.f_min == lo and obj.f_max == hi, "f_min,f_max = %r,%r for band %r", obj.f_min, obj.f_max, (lo, hi))
    freqs = np.asarray(obj.freqs, dtype=float)
    require(freqs.ndim == 1, "freqs has shape %r", freqs.shape)
    require(np.all(freqs >= lo) and np.all(freqs <= hi),
            "published frequencies %r outside the requested band [%r, %r]", freqs.tolist(), lo, hi)
    if spec["cls"] == "fft":
        N = n * spec["unique"]
        ks = expected_fft_bins(spec)
        got = freqs * (N * dt_eff)
        require(len(freqs) == len(ks) and np.allclose(got, ks, rtol=1e-12, atol=1e-12),
                "in-band bins of the %d-point span: expected %r, published f*N*dt = %r (band %r)",
                N, ks, got.tolist(), spec["band"])
        if not ks:
            classes.add("empty")
        if 0 in ks:
            classes.add("dc_bin")
        if N % 2 == 0 and N // 2 in ks:
            classes.add("nyquist_bin")
        if spec["band"]["hi"] > N / 2.0:
            classes.add("above_nyquist")
        if float(spec["band"]["lo"]).is_integer() or float(spec["band"]["hi"]).is_integer():
            classes.add("edge_on_bin")
    else:
        # "number of frequencies ... based on the FFT bin size of times" x uniqueness, at least one
        w = spec["band"]["w"]
        n_exp = int(max(1.0, w) * spec["unique"])
        require(len(freqs) == n_exp, "cosine class publishes %d frequencies, bandwidth*duration*uniqueness "
                "= %r*%r gives %d", len(freqs), w, spec["unique"], n_exp)
        require(np.all(np.diff(freqs) > 0), "frequencies not increasing: %r", freqs.tolist())
        if np.any(freqs == 0):
            classes.add("dc_bin")
        if hi > 0.5 / dt_eff:
            classes.add("above_nyquist")
    amps = np.asarray(obj.amps, dtype=float)
    phases = np.asarray(obj.phases, dtype=float)
    require(amps.shape == freqs.shape and phases.shape == freqs.shape,
            "amps %r / phases %r do not match freqs %r", amps.shape, phases.shape, freqs.shape)
    require(np.all(np.isfinite(amps)) and np.all(np.isfinite(phases)), "non-finite basis")
    require(np.all(phases >= 0) and np.all(phases < TWO_PI), "phases outside [0, 2 pi): %r", phases.tolist())
    exp_amps = amp_expected(spec["amp"], freqs, spec["grid"]["dt"])
    if exp_amps is None:
        require(np.all(amps >= 0), "negative default amplitude %r", amps.tolist())
        require(np.all(amps[freqs == 0] == 0), "default amplitude at zero frequency is %r, documented 0",
                amps[freqs == 0].tolist())
    else:
        require(np.allclose(amps, exp_amps, rtol=1e-13, atol=0),
                "published amplitudes %r, the amplitude specification %r gives %r",
                amps.tolist(), spec["amp"], exp_amps.tolist())
    rms_exp = rms_expected(spec, lo, hi)
    # 1e-6: the value of k_B changed by 3e-7 (CODATA 2014 -> exact SI) within the scipy range
    require(abs(float(obj.rms) - rms_exp) <= 1e-6 * rms_exp,
            "rms = %r, requested %r (%r)", float(obj.rms), rms_exp, spec["rms"])
    require(np.array_equal(np.asarray(obj.times), times), "times changed")
    require(obj.value_type == obj.Type.voltage, "value type %r", obj.value_type)
    vals = np.asarray(obj.values)
    require(vals.shape == (n,) and np.all(np.isfinite(vals)), "values shape %r / not finite", vals.shape)
    if len(freqs) == 0 or not np.any(amps):
        require(not np.any(vals), "no frequency in band, but values %r", vals.tolist())
    else:
        sc = scale_of(basis_of(obj))
        require(np.max(np.abs(vals)) <= sc * (1 + 1e-9), "|value| %r exceeds rms*sqrt(2/n)*sum|a| = %r",
                float(np.max(np.abs(vals))), sc)
    # the random stream alone decides the basis: same seed, same object
    obj2, _, _, _ = build_noise(spec, case["seed"])
    require(np.array_equal(obj2.freqs, obj.freqs) and np.array_equal(obj2.amps, obj.amps)
            and np.array_equal(obj2.phases, obj.phases) and np.array_equal(obj2.values, vals),
            "rebuilding with the same numpy seed gave a different object")
    rec.case(case, nontrivial=len(freqs) >= 1, classes=classes)


# ---------------------------------------------------------------------------
# rejects: documented ValueErrors


@st.composite
def reject_cases(draw):
    what = draw(st.sampled_from(["reversed", "equal", "no_rms", "T_only", "R_only",
                                 "antenna_no_band", "antenna_no_rms"]))
    return dict(cls=draw(st.sampled_from(["fft", "full"])), grid=draw(gens.grids(min_n=2, max_n=40)),
                unique=draw(st.integers(1, 3)), what=what, lo=draw(floats(0.05, 0.4)),
                width=draw(floats(0.01, 0.5)), seed=draw(seeds32))


def check_rejects(case, rec):
    from pyrex.antenna import Antenna
    times = gens.build_times(case["grid"])
    dt = case["grid"]["dt"]
    lo, hi = case["lo"] / dt, (case["lo"] + case["width"]) / dt
    what = case["what"]
    np.random.seed(case["seed"])
    try:
        if what == "reversed":
            noise_class(case["cls"])(times, (hi, lo), rms_voltage=1.0, uniqueness_factor=case["unique"])
        elif what == "equal":
            noise_class(case["cls"])(times, (lo, lo), rms_voltage=1.0, uniqueness_factor=case["unique"])
        elif what == "no_rms":
            noise_class(case["cls"])(times, (lo, hi), uniqueness_factor=case["unique"])
        elif what == "T_only":
            noise_class(case["cls"])(times, (lo, hi), temperature=300.0)
        elif what == "R_only":
            noise_class(case["cls"])(times, (lo, hi), resistance=50.0)
        elif what == "antenna_no_band":
            Antenna((0, 0, -100), noise_rms=1.0).make_noise(times)
        else:
            Antenna((0, 0, -100), freq_range=(lo, hi), temperature=300.0).make_noise(times)
    except ValueError:
        pass
    else:
        raise Violation("%s accepted (%s class): documented to raise ValueError" % (what, case["cls"]))
    rec.case(case, nontrivial=True, classes=[what])


# ---------------------------------------------------------------------------
# full_cosines: the cosine class in absolute time


@st.composite
def full_cases(draw):
    spec = draw(noise_specs(cls="full", max_n=96))
    N = spec["grid"]["n"] * spec["unique"]
    return dict(noise=spec, seed=draw(seeds32),
                windows=[draw(windows(N, "far")) for _ in range(draw(st.integers(1, 3)))])


def check_full(case, rec):
    spec = case["noise"]
    obj, times, lo, hi = build_noise(spec, case["seed"])
    b = basis_of(obj)
    sc = scale_of(b)
    dt = spec["grid"]["dt"]
    fmax = float(np.max(np.abs(b["freqs"])))
    obs = [np.asarray(obj.values, dtype=float)]
    ts = [times]
    for w in case["windows"]:
        _, t = window_times(times[0], dt, w)
        ts.append(t)
        obs.append(np.asarray(obj.with_times(t).values, dtype=float))
    t_all = np.concatenate(ts)
    o_all = np.concatenate(obs)
    # phase 2 pi f t carries the ulp of t: 8 eps |t| f cycles
    tol = sc * (1e-9 + TWO_PI * fmax * 8 * EPS * float(np.max(np.abs(t_all))))
    errs = [float(np.max(np.abs(o_all - cosine_sum(b, t_all, s)))) for s in (1.0, -1.0)]
    require(min(errs) <= tol,
            "cosine class: values differ from rms*sqrt(2/n)*sum a cos(2 pi f t +- phi) in absolute time by %r "
            "(tolerance %.3g, scale %r, %d frequencies)", min(errs), tol, sc, len(b["freqs"]))
    beyond = any(t[0] < times[0] or t[-1] > times[-1] for t in ts[1:])
    rec.case(case, nontrivial=sc > 0 and len(b["freqs"]) >= 2,
             classes=["beyond_own_times"] if beyond else [])


# ---------------------------------------------------------------------------
# fft_grid / fft_extension / fft_nyquist


def fft_case_strategy(region, nyq):
    @st.composite
    def cases(draw):
        if nyq:
            spec = draw(noise_specs(cls="fft", max_n=64, min_n=4, band_kinds=("cross_nyq",),
                                    allow_nyq_bin=True, force_even=True))
        else:
            spec = draw(noise_specs(cls="fft", max_n=96,
                                    band_kinds=("inside", "inside", "inside", "touch0", "cross_nyq")))
        N = spec["grid"]["n"] * spec["unique"]
        return dict(noise=spec, seed=draw(seeds32),
                    windows=[draw(windows(N, region)) for _ in range(draw(st.integers(1, 3)))])
    return cases()


def make_fft_check(region, nyq):
    def check(case, rec):
        spec = case["noise"]
        obj, times, lo, hi = build_noise(spec, case["seed"])
        n = len(times)
        N = n * spec["unique"]
        dt = spec["grid"]["dt"]
        b = basis_of(obj)
        ks = fft_bins(b, N, times[1] - times[0])
        sc = scale_of(b)
        tmax = float(np.max(np.abs(times))) + 8 * N * dt
        sets = []
        if region == "span":
            sets.append(("own values", np.arange(n), 1, np.asarray(obj.values, dtype=float)))
            idx = np.arange(N)
            sets.append(("with_times(whole unique span)", idx, 1,
                         np.asarray(obj.with_times(times[0] + dt * idx).values, dtype=float)))
        elif region == "interior":
            idx = np.arange(1, N - 1)
            if len(idx) >= 2:
                sets.append(("with_times(span interior)", idx, 1,
                             np.asarray(obj.with_times(times[0] + dt * idx).values, dtype=float)))
        for w in case["windows"]:
            idx, t = window_times(times[0], dt, w)
            sets.append(("with_times(window %r)" % (w,), idx, w["q"],
                         np.asarray(obj.with_times(t).values, dtype=float)))
        signs = {-1.0, 1.0}
        classes = set()
        for what, idx, q, obs in sets:
            slack = position_slack(tmax, dt, float(np.max(np.abs(idx))) / q + N)
            tol = sc * (1e-9 + 2 * slack)
            signs &= judge_fft(obs, b, ks, N, idx, q, tol, what, nyq_alt=0.5 if nyq else None)
            if q > 1:
                classes.add("off_lattice")
            if idx.min() < 0 or idx.max() > (N - 1) * q:
                classes.add("outside_span")
            if np.any(idx % ((N - 1) * q) == 0):
                classes.add("span_end_sample")
        require(len(signs) >= 1, "no single phase sign fits all windows of one object")
        if 0 in ks:
            classes.add("dc_bin")
        if spec["unique"] > 1:
            classes.add("unique>1")
        rec.case(case, nontrivial=sc > 0 and len(ks) >= 1, classes=classes)
    return check


# ---------------------------------------------------------------------------
# one full period: RMS and spectrum


def period_samples(obj, spec, times, t_start_shift):
    """Samples over exactly one period of the published basis.

    fft: the N lattice points of the unique span.  full: M points over T = 2/step where
    step = bandwidth/n_freqs and the band starts on a multiple of step/2 (generator), so every
    component is a harmonic h/T; returns (values, harmonic numbers of the components, M).
    """
    n = len(times)
    dt = spec["grid"]["dt"]
    if spec["cls"] == "fft":
        N = n * spec["unique"]
        idx = np.arange(N)
        v = np.asarray(obj.with_times(times[0] + dt * idx).values, dtype=float)
        return v, None, N
    freqs = np.asarray(obj.freqs, dtype=float)
    n_f = len(freqs)
    step = (obj.f_max - obj.f_min) / n_f
    T = 2.0 / step
    m = spec["band"]["m"]
    harm = m + 2 * np.arange(n_f)
    M = 2 * int(harm[-1]) + 3 + 2 * (m % 3)
    t = (times[0] + t_start_shift * dt) + (T / M) * np.arange(M)
    v = np.asarray(obj.with_times(t).values, dtype=float)
    return v, harm, M


@st.composite
def period_cases(draw, amp_kinds, rms_kinds=("rms", "rms", "TR")):
    cls = draw(st.sampled_from(["fft", "fft", "full"]))
    if cls == "fft":
        spec = draw(noise_specs(cls="fft", max_n=128, min_n=3, band_kinds=("inside",), amp_kinds=amp_kinds,
                                rms_kinds=rms_kinds))
    else:
        spec = draw(noise_specs(cls="full", max_n=64, periodic=True, max_freqs=30, amp_kinds=amp_kinds,
                                rms_kinds=rms_kinds))
    return dict(noise=spec, seed=draw(seeds32), shift=draw(floats(-50.0, 50.0)))


def _period_eval(spec, obj, times, lo, hi, shift):
    b = basis_of(obj)
    n = len(times)
    N = n * spec["unique"]
    dt = spec["grid"]["dt"]
    v, harm, M = period_samples(obj, spec, times, shift)
    sc = scale_of(b)
    if spec["cls"] == "fft":
        ks = fft_bins(b, N, times[1] - times[0])
        if not (len(ks) >= 1 and ks.min() >= 1 and 2 * ks.max() < N):
            raise HarnessError("band not strictly inside (0, Nyquist): %r" % (ks.tolist(),))
        slack = position_slack(float(np.max(np.abs(times))) + N * dt, dt, 2 * N)
        tol = sc * (1e-9 + 2 * slack)
        harm = ks
    else:
        ks = None
        fmax = float(np.max(np.abs(b["freqs"])))
        tmax = abs(times[0]) + (abs(shift) + 1) * dt + 2.0 * len(b["freqs"]) / (hi - lo)
        tol = sc * (1e-9 + TWO_PI * fmax * 8 * EPS * tmax)
    return spec, obj, times, lo, hi, b, N, v, harm, M, sc, tol, ks


def _period_setup(case):
    spec = case["noise"]
    obj, times, lo, hi = build_noise(spec, case["seed"])
    return _period_eval(spec, obj, times, lo, hi, case["shift"])


def period_rms_violation(spec, b, ks, N, v, target, slack, what):
    """None, or the Violation (tagged when repairing the two span-end samples cures it)."""
    def ok(w):
        return abs(math.sqrt(float(np.mean(w ** 2))) - target) <= slack
    if ok(v):
        return None
    rep = _repaired(spec, b, ks, N, v)
    tag = TAG_PERIOD + " " if rep is not None and any(ok(w) for w in rep) else ""
    return Violation("%s%s class: RMS over one full period (%d samples) is %r; %s = %r "
                     "(%d frequencies, amplitude spec %r, rms spec %r)"
                     % (tag, spec["cls"], len(v), math.sqrt(float(np.mean(v ** 2))), what, target,
                        len(b["freqs"]), spec["amp"], spec["rms"]))


def _repaired(spec, b, ks, N, v):
    """Span samples with the first and last one replaced by the oracle (classifier aid)."""
    if spec["cls"] != "fft":
        return None
    out = []
    for sign in (-1.0, 1.0):
        S = fft_lattice(b, ks, N, np.array([0, N - 1]), sign)
        w = v.copy()
        w[0], w[-1] = S[0], S[1]
        out.append(w)
    return out


def check_unit_rms(case, rec):
    spec, obj, times, lo, hi, b, N, v, harm, M, sc, tol, ks = _period_setup(case)
    n_f = len(b["freqs"])
    rms_req = rms_expected(spec, lo, hi)
    c = float(np.sqrt(np.sum(b["amps"] ** 2) / n_f))      # 1 for unit amplitudes
    exp_amp = amp_expected(spec["amp"], b["freqs"], spec["grid"]["dt"])
    require(np.allclose(b["amps"], exp_amp, rtol=1e-13), "amplitudes %r, specified %r", b["amps"].tolist(), spec["amp"])
    target = rms_req * c
    rel = 1e-9 + (1e-6 if spec["rms"]["kind"] == "TR" else 0.0)     # k_B: see check_basis
    viol = period_rms_violation(spec, b, ks, N, v, target, rel * target + tol,
                                "requested rms %r x sqrt(mean a^2) %r" % (rms_req, c))
    if viol is not None:
        raise viol
    unit = bool(np.all(b["amps"] == 1.0))
    rec.case(case, nontrivial=True,
             classes=[spec["cls"], "unit" if unit else "scaled", "rms:" + spec["rms"]["kind"]])


def check_band_limited(case, rec):
    spec, obj, times, lo, hi, b, N, v, harm, M, sc, tol, ks = _period_setup(case)
    n_f = len(b["freqs"])
    harm = np.asarray(harm, dtype=int)
    exp_mag = np.zeros(M // 2 + 1)
    exp_mag[harm] = b["rms"] * math.sqrt(2.0 / n_f) * np.abs(b["amps"])

    def worst(w):
        spec_mag = np.abs(np.fft.rfft(w)) * (2.0 / M)
        if M % 2 == 0:
            spec_mag[-1] /= 2.0
        spec_mag[0] /= 2.0
        d = np.abs(spec_mag - exp_mag)
        j = int(np.argmax(d))
        return float(d[j]), j, float(spec_mag[j])

    d, j, got = worst(v)
    # frequency of harmonic 1: 1/(N dt) for the span, step/2 for the cosine class
    f_unit = (1.0 / (N * (times[1] - times[0])) if spec["cls"] == "fft"
              else (hi - lo) / (2.0 * n_f))
    if d > tol:
        rep = _repaired(spec, b, ks, N, v)
        tag = TAG_PERIOD + " " if rep is not None and any(worst(w)[0] <= tol for w in rep) else ""
        where = "in-band component" if j in set(harm.tolist()) else "OUTSIDE the published frequencies"
        raise Violation("%s%s class: over one full period (%d samples) the amplitude at harmonic %d "
                        "(frequency %r, band [%r, %r], %s) is %r, the published basis gives %r (tolerance %.3g)"
                        % (tag, spec["cls"], M, j, j * f_unit, lo, hi, where, got, float(exp_mag[j]), tol))
    rec.case(case, nontrivial=n_f >= 1 and sc > 0 and M // 2 + 1 > n_f,
             classes=[spec["cls"], "amp:" + spec["amp"]["kind"]])


# ---------------------------------------------------------------------------
# default amplitudes: Rayleigh(1/sqrt 2), uniform phases, requested RMS on average


@st.composite
def stats_cases(draw):
    cls = draw(st.sampled_from(["fft", "full"]))
    unique = draw(st.sampled_from([1, 2, 3]))
    if cls == "fft":
        n = draw(st.integers(60, 200))
        grid = dict(n=n, dt=draw(log_floats(1e-10, 1e-6)), t0=draw(st.sampled_from([0.0, 1.5e-7, -3e-8])))
        N = n * unique
        top = N // 2 - 1
        k_lo = draw(st.integers(1, max(1, top // 3)))
        band = dict(lo=k_lo - 0.5, hi=top + 0.5)
        n_f = top - k_lo + 1
    else:
        n = draw(st.integers(8, 60))
        grid = dict(n=n, dt=draw(log_floats(1e-10, 1e-6)), t0=draw(st.sampled_from([0.0, 1.5e-7, -3e-8])))
        n_f = draw(st.integers(20, 60))
        w = (n_f + 0.5) / unique
        m = draw(st.integers(1, 40))
        band = dict(y_lo=m * w / (2.0 * n_f), w=w, m=m)
    reps = int(math.ceil(4000.0 / n_f))
    spec = dict(cls=cls, grid=grid, unique=unique, band=band, amp=dict(kind="default"),
                rms=dict(kind="rms", v=draw(log_floats(1e-3, 10.0))))
    return dict(noise=spec, seed=draw(seeds32), reps=reps, shift=draw(floats(-20.0, 20.0)))


def ks_distance(sample, cdf):
    x = np.sort(np.asarray(sample, dtype=float))
    m = len(x)
    F = cdf(x)
    return float(max(np.max(np.arange(1, m + 1) / m - F), np.max(F - np.arange(0, m) / m))), m


def check_stats(case, rec):
    spec = case["noise"]
    np.random.seed(case["seed"])
    amps, phases = [], []
    first_phase = []
    viol = None
    for r in range(case["reps"]):
        obj, times, lo, hi = build_noise(spec, None)        # consecutive objects from one stream
        amps.append(np.asarray(obj.amps, dtype=float))
        phases.append(np.asarray(obj.phases, dtype=float))
        first_phase.append(float(obj.phases[0]))
        if r < 12:
            # Parseval over one period: mean square = rms^2 * mean(a^2), hence rms^2 on average
            _, _, _, _, _, b, N, v, _, _, sc, tol, ks = _period_eval(spec, obj, times, lo, hi, case["shift"])
            target = float(obj.rms) * math.sqrt(float(np.mean(b["amps"] ** 2)))
            viol = viol or period_rms_violation(spec, b, ks, N, v, target, 1e-9 * target + tol,
                                                "rms x sqrt(mean a^2)")
    a = np.concatenate(amps)
    p = np.concatenate(phases)
    m = len(a)
    # Dvoretzky-Kiefer-Wolfowitz: P(D > e) <= 2 exp(-2 m e^2); reject at 1e-9
    crit = math.sqrt(math.log(2e9) / (2.0 * m))
    d_a, _ = ks_distance(a, lambda x: 1.0 - np.exp(-x ** 2))
    require(d_a <= crit, "default amplitudes are not Rayleigh(1/sqrt 2): KS distance %r > %r (%d amplitudes, "
            "mean square %r)", d_a, crit, m, float(np.mean(a ** 2)))
    d_p, _ = ks_distance(p, lambda x: x / TWO_PI)
    require(d_p <= crit, "phases are not uniform on [0, 2 pi): KS distance %r > %r (%d phases)", d_p, crit, m)
    # mean of a^2 ~ Gamma(m, 1/m): 6.5 sigma (skewness 2/sqrt m <= 0.032 -> p < 1e-9)
    z = (float(np.mean(a ** 2)) - 1.0) * math.sqrt(m)
    require(abs(z) <= 6.5, "mean square default amplitude %r is not 1: z = %r (%d amplitudes)",
            float(np.mean(a ** 2)), z, m)
    # successive objects draw fresh phases
    fp = np.asarray(first_phase)
    require(len(np.unique(fp)) == len(fp), "two successive objects share their first phase")
    if viol is not None:
        raise viol
    rec.case(case, nontrivial=True, classes=[spec["cls"]])


# ---------------------------------------------------------------------------
# same basis -> identical waveform, independent objects differ


@st.composite
def same_basis_cases(draw):
    spec = draw(noise_specs(max_n=64, band_kinds=("inside", "inside", "touch0", "cross_nyq"),
                            allow_nyq_bin=True))
    N = spec["grid"]["n"] * spec["unique"]
    return dict(noise=spec, seed_a=draw(seeds32), seed_b=draw(seeds32),
                amp_b=draw(amp_specs(("default", "const", "vec"))),
                window=draw(windows(N, "far")),
                # the receiving object has (own values / a re-gridded copy / nothing) been evaluated
                # before it is given the basis: its waveform must follow its published basis anyway
                used_first=draw(st.sampled_from(["no", "values", "with_times", "both"])))


def transplant(dst, freqs, amps, phases):
    dst.freqs = np.array(freqs, dtype=float)
    dst.amps = np.array(amps, dtype=float)
    dst.phases = np.array(phases, dtype=float)


def check_same_basis(case, rec):
    spec = case["noise"]
    a, times, lo, hi = build_noise(spec, case["seed_a"])
    c, _, _, _ = build_noise(spec, None)                    # next object from the same stream
    b_obj, _, _, _ = build_noise(spec, case["seed_b"], amp=case["amp_b"])
    ba = basis_of(a)
    sc = scale_of(ba)
    _, t = window_times(times[0], spec["grid"]["dt"], case["window"])
    used = case.get("used_first", "no")
    if used in ("values", "both"):
        np.asarray(b_obj.values)
    if used in ("with_times", "both"):
        np.asarray(b_obj.with_times(t).values)
    transplant(b_obj, a.freqs, a.amps, a.phases)
    for what, x, y in (("own times", a.values, b_obj.values),
                       ("with_times", a.with_times(t).values, b_obj.with_times(t).values)):
        d = float(np.max(np.abs(np.asarray(x) - np.asarray(y))))
        require(d <= 1e-12 * sc, "second object given the same frequencies, amplitudes and phases differs "
                "by %r on %s (scale %r, class %s)", d, what, sc, spec["cls"])
    nontrivial = len(ba["freqs"]) >= 1 and sc > 0
    if nontrivial:
        require(not np.array_equal(a.phases, c.phases), "independent objects have identical phases")
        d = float(np.max(np.abs(np.asarray(a.values) - np.asarray(c.values))))
        require(d > 1e-9 * sc, "independent objects have the same waveform (difference %r, scale %r)", d, sc)
    rec.case(case, nontrivial=nontrivial, classes=[spec["cls"], "amp:" + spec["amp"]["kind"], "used_first:" + used])


# ---------------------------------------------------------------------------
# regrid: values are a function of absolute time


@st.composite
def regrid_cases(draw):
    spec = draw(noise_specs(max_n=64, band_kinds=("inside", "inside", "touch0", "cross_nyq"),
                            allow_nyq_bin=True, amp_kinds=("default", "const")))
    N = spec["grid"]["n"] * spec["unique"]
    wins = []
    for _ in range(draw(st.integers(2, 5))):
        w = draw(windows(N, draw(st.sampled_from(["span", "span", "far"]))))
        w["via"] = draw(st.sampled_from(["master", "master", "chain", "own"]))
        wins.append(w)
    return dict(noise=spec, seed=draw(seeds32), windows=wins)


def check_regrid(case, rec):
    spec = case["noise"]
    obj, times, lo, hi = build_noise(spec, case["seed"])
    b = basis_of(obj)
    sc = scale_of(b)
    dt = spec["grid"]["dt"]
    n = len(times)
    N = n * spec["unique"]
    seen = {}              # (idx, q) normalised to quarter-lattice units -> (value, description)
    classes = set()
    tmax = float(np.max(np.abs(times))) + 8 * N * dt
    if spec["cls"] == "fft":
        lip = 2 * sc / dt
    else:
        lip = sc * TWO_PI * float(np.max(np.abs(b["freqs"])))
    tol = 1e-12 * sc + lip * 32 * EPS * tmax
    prev = obj
    shared = 0
    bad = []

    def record(idx, q, vals, what):
        nonlocal shared
        for i, v in zip(idx.tolist(), vals.tolist()):
            key = i * (4 // q)
            if key in seen:
                shared += 1
                if abs(seen[key][0] - v) > tol:
                    bad.append((key, seen[key], (v, what)))
            else:
                seen[key] = (v, what)

    record(np.arange(n), 1, np.asarray(obj.values, dtype=float), "own values")
    for w in case["windows"]:
        idx, t = window_times(times[0], dt, w)
        if w["via"] == "own":
            # the object's own grid, rebuilt from first sample and spacing
            idx = np.arange(n)
            t = times[0] + (times[1] - times[0]) * np.arange(n)
            sig = obj.with_times(t)
            q = 1
        elif w["via"] == "chain":
            sig = prev.with_times(t)
            q = w["q"]
            classes.add("chained")
        else:
            sig = obj.with_times(t)
            q = w["q"]
        vals = np.asarray(sig.values, dtype=float)
        require(vals.shape == t.shape and np.array_equal(np.asarray(sig.times), t),
                "with_times returned %r values on %r times", vals.shape, t.shape)
        record(idx, q, vals, "window %r" % (w,))
        prev = sig
    if bad:
        key, (v1, w1), (v2, w2) = bad[0]
        tag = ""
        if spec["cls"] == "fft" and all(k % (4 * (N - 1)) == 0 for k, _, _ in bad):
            tag = TAG_PERIOD + " "
        raise Violation("%s%s class: the sample at lattice position %d/4 (absolute time %r) is %r in %s but %r "
                        "in %s (tolerance %.3g, scale %r, N=%d)"
                        % (tag, spec["cls"], key, times[0] + dt * key / 4.0, v1, w1, v2, w2, tol, sc, N))
    if shared >= 1:
        classes.add("shared_samples")
    if any(k % (4 * (N - 1)) == 0 for k in seen):
        classes.add("span_end_sample")
    rec.case(case, nontrivial=shared >= 1 and sc > 0, classes=classes | {spec["cls"]})


# ---------------------------------------------------------------------------
# antenna: the noise master and the waveform logic built on it


@st.composite
def antenna_cases(draw):
    spec = draw(noise_specs(cls="fft", max_n=48, band_kinds=("inside", "inside", "touch0"),
                            amp_kinds=("default",), rms_kinds=("rms", "TR")))
    N = spec["grid"]["n"] * spec["unique"]
    wins = [draw(windows(N, draw(st.sampled_from(["span", "far"])))) for _ in range(draw(st.integers(1, 3)))]
    sig = None
    if draw(st.booleans()):
        sig = dict(start=draw(st.integers(-N, 2 * N)), len=draw(st.integers(2, 12)),
                   amp=draw(floats(0.1, 10.0)))
    return dict(noise=spec, seed=draw(seeds32), windows=wins, signal=sig,
                reset=draw(st.booleans()))


def build_antenna(spec, times, noisy=True):
    from pyrex.antenna import Antenna
    lo, hi = band_edges(spec, times)
    kw = {}
    r = spec["rms"]
    if r["kind"] == "rms":
        kw["noise_rms"] = r["v"]
    else:
        kw["temperature"], kw["resistance"] = r["T"], r["R"]
    return Antenna((0.0, 0.0, -100.0), freq_range=(lo, hi), unique_noise_waveforms=spec["unique"],
                   noisy=noisy, **kw), lo, hi


def check_antenna(case, rec):
    from pyrex.signals import Signal
    spec = case["noise"]
    times = gens.build_times(spec["grid"])
    dt = spec["grid"]["dt"]
    n = len(times)
    N = n * spec["unique"]
    ant, lo, hi = build_antenna(spec, times)
    np.random.seed(case["seed"])
    first = np.asarray(ant.make_noise(times).values, dtype=float)
    master = ant._noise_master
    require(master is not None, "no noise master after make_noise")
    require(master.f_min == lo and master.f_max == hi, "noise band %r, antenna freq_range %r",
            (master.f_min, master.f_max), (lo, hi))
    rms_exp = rms_expected(spec, lo, hi)
    require(abs(master.rms - rms_exp) <= 1e-6 * rms_exp, "antenna noise rms %r, requested %r", master.rms, rms_exp)
    b = basis_of(master)
    ks = fft_bins(b, N, times[1] - times[0])     # also: the master spans unique_noises x the first window
    require(ks.tolist() == expected_fft_bins(spec), "noise master bins %r, expected %r for %d x %d samples",
            ks.tolist(), expected_fft_bins(spec), spec["unique"], n)
    sc = scale_of(b)
    tmax = float(np.max(np.abs(times))) + 8 * N * dt
    classes = {"rms:" + spec["rms"]["kind"]}
    tagged = None

    def judge(obs, idx, q, what):
        nonlocal tagged
        slack = position_slack(tmax, dt, float(np.max(np.abs(idx))) / q + N)
        try:
            judge_fft(obs, b, ks, N, idx, q, sc * (1e-9 + 2 * slack), what)
        except Violation as e:
            if TAG_PERIOD in str(e):
                tagged = tagged or e            # keep looking for anything the known defect does not explain
            else:
                raise

    judge(first, np.arange(n), 1, "make_noise(first window)")
    for w in case["windows"]:
        idx, t = window_times(times[0], dt, w)
        v1 = np.asarray(ant.make_noise(t).values, dtype=float)
        v2 = np.asarray(ant.make_noise(t).values, dtype=float)
        require(np.array_equal(v1, v2), "two make_noise calls on the same times differ")
        require(ant._noise_master is master, "noise master replaced by a later make_noise")
        judge(v1, idx, w["q"], "make_noise(window %r)" % (w,))
        fw = ant.full_waveform(t)
        require(np.array_equal(np.asarray(fw.times), t), "full_waveform times differ from the request")
        require(float(np.max(np.abs(np.asarray(fw.values) - v1))) <= 1e-12 * sc,
                "full_waveform without signals differs from make_noise on the same times by %r",
                float(np.max(np.abs(np.asarray(fw.values) - v1))))
    if case["signal"] is not None:
        classes.add("with_signal")
        s = case["signal"]
        st_ = times[0] + dt * (s["start"] + np.arange(s["len"]))
        sv = s["amp"] * np.cos(0.7 * np.arange(s["len"]))
        twin, _, _ = build_antenna(spec, times, noisy=False)
        ant.signals.append(Signal(st_, sv, value_type=Signal.Type.voltage))
        twin.signals.append(Signal(st_, sv, value_type=Signal.Type.voltage))
        for w in case["windows"]:
            idx, t = window_times(times[0], dt, w)
            total = np.asarray(ant.full_waveform(t).values, dtype=float)
            clean = np.asarray(twin.full_waveform(t).values, dtype=float)
            noise = np.asarray(ant.make_noise(t).values, dtype=float)
            d = float(np.max(np.abs(total - clean - noise)))
            # the ulp of a time enters through the interpolation of the sampled signal
            tol = 1e-9 * (sc + s["amp"]) + 2 * s["amp"] * 8 * EPS * tmax / dt
            require(d <= tol, "full_waveform - signal-only waveform differs from make_noise on the same times "
                    "by %r (tolerance %.3g; window %r, signal %r)", d, tol, w, s)
    ant.clear(reset_noise=case["reset"])
    again = np.asarray(ant.make_noise(times).values, dtype=float)
    if case["reset"]:
        classes.add("reset")
        if len(ks) >= 1 and sc > 0:
            require(ant._noise_master is not master and not np.array_equal(ant._noise_master.phases, master.phases),
                    "clear(reset_noise=True) kept the noise")
    else:
        require(np.array_equal(again, first), "clear() without reset changed the noise")
    if tagged is not None:
        raise tagged
    rec.case(case, nontrivial=len(ks) >= 1 and sc > 0, classes=classes)


# ---------------------------------------------------------------------------
# file_basis: the basis stored by the HDF5 writer reproduces the waveform


@st.composite
def file_cases(draw):
    ants = []
    for _ in range(draw(st.integers(1, 3))):
        spec = draw(noise_specs(cls="fft", max_n=40, band_kinds=("inside", "inside", "touch0", "cross_nyq"),
                                allow_nyq_bin=True, amp_kinds=("default",), rms_kinds=("rms", "TR")))
        N = spec["grid"]["n"] * spec["unique"]
        ants.append(dict(noise=spec, used=draw(st.sampled_from([True, True, True, False])),
                         window=draw(windows(N, "far"))))
    return dict(antennas=ants, seed=draw(seeds32), seed_twin=draw(seeds32))


def check_file(case, rec):
    import pyrex
    from pyrex.io import File
    dets, grids = [], []
    np.random.seed(case["seed"])
    for a in case["antennas"]:
        times = gens.build_times(a["noise"]["grid"])
        ant, _, _ = build_antenna(a["noise"], times)
        if a["used"]:
            ant.make_noise(times)
        dets.append(ant)
        grids.append(times)
    tmp = tempfile.mkdtemp(prefix="pbt-C17-")
    try:
        path = os.path.join(tmp, "noise.h5")
        writer = File(path, "w", write_particles=True, write_triggers=False, write_antenna_triggers=False,
                      write_rays=False, write_noise=True, write_waveforms=False, require_trigger=False)
        writer.open()
        try:
            writer.set_detector(dets)
            particle = pyrex.Particle(particle_id=12, vertex=[0.0, 0.0, -500.0], direction=[0.0, 0.0, 1.0],
                                      energy=1e8)
            writer.add(pyrex.Event(particle), triggered=False)
        finally:
            writer.close()
        with File(path, "r") as f:
            bases = []
            for ev in f:
                nb = ev.noise_bases
                require(len(nb) == len(dets), "noise_bases has %d entries for %d antennas", len(nb), len(dets))
                bases.append([[np.array(nb[i][c], dtype=float) for c in range(3)] for i in range(len(dets))])
            require(len(bases) == 1, "file holds %d events, one was written", len(bases))
            bases = bases[0]
    finally:
        shutil.rmtree(tmp, ignore_errors=True)
    np.random.seed(case["seed_twin"])
    n_used = 0
    for a, ant, times, (fr, am, ph) in zip(case["antennas"], dets, grids, bases):
        if not a["used"]:
            require(len(fr) == 0 and len(am) == 0 and len(ph) == 0,
                    "antenna that never made noise has a stored basis of %d frequencies", len(fr))
            continue
        n_used += 1
        master = ant._noise_master
        require(np.array_equal(fr, master.freqs) and np.array_equal(am, master.amps)
                and np.array_equal(ph, master.phases), "stored basis differs from the antenna's noise master")
        twin, _, _ = build_antenna(a["noise"], times)
        twin.make_noise(times)                               # a fresh master on the same first window
        transplant(twin._noise_master, fr, am, ph)
        _, t = window_times(times[0], a["noise"]["grid"]["dt"], a["window"])
        sc = scale_of(basis_of(master))
        for tt in (times, t):
            d = float(np.max(np.abs(np.asarray(ant.make_noise(tt).values) - np.asarray(twin.make_noise(tt).values))))
            require(d <= 1e-12 * sc, "noise rebuilt from the stored basis differs from the original by %r "
                    "(scale %r)", d, sc)
    rec.case(case, nontrivial=n_used >= 1,
             classes=["antennas=%d" % len(dets)] + (["unused_antenna"] if n_used < len(dets) else []))


# ---------------------------------------------------------------------------

UNIT_AMPS = ("const1", "const1", "ones", "const")

PROPERTY = Property(
    "C17", "Thermal noise is band-limited, has requested RMS, reproducible in absolute time",
    [
        SubCheck("basis", basis_cases(), check_basis, quick=2400, thorough=120000,
                 rule="class x grid (2-128 samples) x uniqueness 1-5 x band (inside / touching 0 / crossing "
                      "Nyquist / above / between bins; edges on or off bins) x amplitude spec x rms spec x seed; "
                      "published frequencies in band (= the in-band bins / documented count), amplitudes per "
                      "spec, phases in [0,2pi), rms, empty band -> zeros, same seed -> same object; "
                      "non-trivial = at least one frequency",
                 floors={"fft": 0.22, "full": 0.25, "empty": 0.07, "dc_bin": 0.1, "nyquist_bin": 0.025,
                         "above_nyquist": 0.2, "edge_on_bin": 0.07, "amp:scalar": 0.08, "amp:default": 0.12,
                         "rms:TR": 0.12, "rms:both": 0.11}),
        SubCheck("rejects", reject_cases(), check_rejects, quick=280, thorough=4000,
                 rule="reversed / zero-width band, missing rms or half of (T,R), antenna without band or rms "
                      "-> ValueError; every case non-trivial",
                 floors={"reversed": 0.03, "equal": 0.02, "no_rms": 0.03, "antenna_no_rms": 0.03}),
        SubCheck("full_cosines", full_cases(), check_full, quick=1600, thorough=80000,
                 rule="cosine class: own values and 1-3 arbitrary windows (other spacing, up to 3 spans away) vs "
                      "the cosine sum of the published basis in absolute time; non-trivial = >=2 frequencies",
                 floors={"beyond_own_times": 0.44}),
        SubCheck("fft_grid", fft_case_strategy("span", False), make_fft_check("span", False),
                 quick=2000, thorough=100000,
                 rule="FFT class, band without the Nyquist bin: own values, the whole unique span and 1-3 windows "
                      "inside it (on and off the lattice) vs exact-phase cosine sum / linear interpolation; "
                      "non-trivial = at least one frequency with non-zero amplitude",
                 floors={"off_lattice": 0.28, "unique>1": 0.33, "span_end_sample": 0.5},
                 classify=classify),
        SubCheck("fft_extension", fft_case_strategy("far", False), make_fft_check("far", False),
                 quick=2000, thorough=100000,
                 rule="FFT class: 1-3 windows up to three spans before/after the constructed span vs the "
                      "periodic continuation of the cosine sum; non-trivial as fft_grid",
                 floors={"outside_span": 0.39, "off_lattice": 0.27},
                 classify=classify),
        SubCheck("fft_nyquist", fft_case_strategy("interior", True), make_fft_check("interior", True),
                 quick=1200, thorough=60000,
                 rule="FFT class, even span length, band containing the Nyquist bin: span interior vs cosine sum "
                      "including the Nyquist component; non-trivial as fft_grid",
                 classify=classify),
        SubCheck("unit_rms", period_cases(UNIT_AMPS), check_unit_rms, quick=2000, thorough=100000,
                 rule="both classes, band strictly inside (0, Nyquist), unit or constant amplitudes, rms given or "
                      "(T,R): sample RMS over exactly one period of the basis = c*rms; every case non-trivial",
                 floors={"fft": 0.35, "full": 0.15, "unit": 0.4, "scaled": 0.1, "rms:TR": 0.15},
                 classify=classify),
        SubCheck("band_limited", period_cases(("default", "const", "vec", "scalar")), check_band_limited,
                 quick=2000, thorough=100000,
                 rule="both classes, any amplitude spec: DFT over exactly one period has the published amplitude "
                      "at the published frequencies and nothing elsewhere; non-trivial = there are other bins",
                 floors={"fft": 0.33, "full": 0.16},
                 classify=classify),
        SubCheck("rayleigh_stats", stats_cases(), check_stats, quick=120, thorough=3000,
                 rule=">=4000 default amplitudes/phases pooled over consecutive objects of one random stream: "
                      "KS vs Rayleigh(1/sqrt2) and uniform phase (DKW bound, p<1e-9), mean square amplitude = 1 "
                      "(6.5 sigma), waveform mean square over a period = rms^2*mean(a^2); every case non-trivial",
                 floors={"fft": 0.18, "full": 0.25}, quick_shards=12, classify=classify),
        SubCheck("same_basis", same_basis_cases(), check_same_basis, quick=1600, thorough=80000,
                 rule="object A; next object from the same stream must differ; object B (other seed, other "
                      "amplitude spec) given A's frequencies/amplitudes/phases must reproduce A on A's grid and on "
                      "another window; non-trivial = non-zero waveform",
                 floors={"fft": 0.25, "full": 0.25}),
        SubCheck("regrid", regrid_cases(), check_regrid, quick=2000, thorough=100000,
                 rule="both classes: 2-5 windows (lattice points reached by different float routes; from the "
                      "master, chained, or the own grid rebuilt) must agree at shared sample times within the "
                      "waveform's slope times a few ulp of the time; non-trivial = a shared sample exists",
                 floors={"shared_samples": 0.48, "chained": 0.27, "span_end_sample": 0.5},
                 classify=classify),
        SubCheck("antenna", antenna_cases(), check_antenna, quick=1200, thorough=60000,
                 rule="Antenna.make_noise: master built once (band, rms or (T,R), unique_noises x first window), "
                      "later windows = oracle of the master's published basis, full_waveform = make_noise, "
                      "full_waveform - signal-only twin = make_noise, clear keeps / reset renews the noise; "
                      "non-trivial = non-zero noise",
                 floors={"with_signal": 0.15, "reset": 0.17, "rms:TR": 0.24},
                 classify=classify),
        SubCheck("file_basis", file_cases(), check_file, quick=160, thorough=4000,
                 rule="1-3 antennas (some never used) written with write_noise; noise_bases read back, put into "
                      "fresh antennas' masters, must reproduce the original noise on the first and another "
                      "window; non-trivial = at least one antenna with noise",
                 floors={"unused_antenna": 0.19}, quick_shards=8),
    ],
    assumptions=[
        "time grids are uniform (t0 + dt*arange(n), n>=2, |t0|/dt <= 1e4); non-uniform grids are not exercised",
        "'exactly the sum of cosines' is decided to 1e-9 x rms*sqrt(2/n)*sum|a| plus the rounding of the float "
        "time grid itself (an ulp of |t| per sample, times the waveform slope)",
        "FFT class: between lattice points the documented linear interpolation is required; the phase reference "
        "is the first sample of the constructed grid; either phase sign is accepted if it fits all samples",
        "k_B is taken as 1.380649e-23 with 1e-6 relative tolerance (covers CODATA 2014 and 2018 values)",
        "a second object 'with the same basis' is made by assigning freqs/amps/phases before any value is read "
        "(pyrex offers no constructor for it); statistical clauses reject at p<1e-9 per test",
        "uniqueness factors are integers 1..5; amplitude functions are positive and finite",
    ],
    design_ref="3/C17",
)
