"""
C20 - the package only uses library interfaces present in its declared
dependency range (DESIGN 3/C20).

The input space is the finite set of program points that refer into numpy /
scipy / h5py / the standard library anywhere under <repo>/pyrex.  It is
enumerated completely from the AST (one Hypothesis-free pass; the "strategy"
of each sub-check is `st.just(None)` and the sub-check loops over the whole
space itself, `exhaustive=True`), and the oracle is executable: resolve the
reference against the installed libraries and against a table of names whose
lifetime does not span the declared range.
"""

import ast
import importlib
import json
import os
import shutil
import subprocess
import sys
import tempfile

from hypothesis import strategies as st

from ..core import Property, SubCheck, Violation, require, REPO_DIR

DECLARED = {"numpy": ">=1.17", "scipy": ">=1.4", "h5py": ">=3.0", "python": ">=3.6"}
THIRD_PARTY = ("numpy", "scipy", "h5py")
# documented optional dependency (irex front-ends; docs: "requires PySpice")
OPTIONAL = {"PySpice"}
DATA_PACKAGES = ("pyrex.custom.ara", "pyrex.custom.arianna", "pyrex.custom.irex")

# ---------------------------------------------------------------------------
# names whose lifetime does not span the declared range
#   value = (why)

LIFETIME = {
    # numpy: removed in 1.20-2.x although present in 1.17
    **{"numpy." + n: "removed from numpy (1.24 / 2.0 / 2.x)" for n in (
        "float_ complex_ trapz in1d product cumproduct sometrue alltrue NaN Inf infty PINF NINF "
        "NAN Infinity row_stack cast asfarray find_common_type source msort round_ unicode_ "
        "string_ object0 int0 uint0 bool8 float int bool complex object str long unicode "
        "asscalar alen loads rank MachAr safe_eval who issubclass_ issctype maximum_sctype "
        "obj2sctype sctype2char sctypes set_string_function deprecate deprecate_with_doc "
        "lookfor byte_bounds compat nbytes recfromcsv recfromtxt disp geterrobj seterrobj "
        "issubsctype tracemalloc_domain add_docstring add_newdoc add_newdoc_ufunc "
        "compare_chararrays DataSource fastCopyAndTranspose longfloat singlecomplex cfloat "
        "longcomplex clongfloat float96 complex192 mat chararray set_numeric_ops "
        "nan_to_num_ PZERO NZERO").split()},
    # numpy: added after 1.17
    **{"numpy." + n: "added to numpy after 1.17" for n in (
        "trapezoid astype cumulative_sum cumulative_prod unique_values unique_counts "
        "unique_inverse unique_all isdtype matrix_transpose vecdot permute_dims concat pow "
        "acos asin atan atan2 acosh asinh atanh bitwise_count bitwise_invert "
        "bitwise_left_shift bitwise_right_shift long ulong exceptions strings dtypes "
        "broadcast_shapes typing show_runtime from_dlpack unstack matvec vecmat").split()},
    "numpy.lib.stride_tricks.sliding_window_view": "added in numpy 1.20",
    "numpy.random.Generator.permuted": "added in numpy 1.20",
    # scipy
    **{"scipy.integrate." + n: "removed from scipy (1.14/1.15)" for n in
       "simps trapz cumtrapz quadrature romberg romb_".split()},
    **{"scipy.integrate." + n: "added in scipy 1.6" for n in
       "simpson trapezoid cumulative_trapezoid".split()},
    **{"scipy.signal." + n: "moved to scipy.signal.windows, removed from scipy.signal in 1.13" for n in (
        "gaussian hann hanning hamming blackman blackmanharris bartlett barthann bohman boxcar "
        "chebwin cosine exponential flattop general_gaussian kaiser nuttall parzen triang tukey "
        "slepian cmplx_sort").split()},
    **{"scipy.misc." + n: "scipy.misc was emptied / removed" for n in
       "derivative comb factorial factorial2 factorialk central_diff_weights face ascent "
       "electrocardiogram logsumexp imread imresize imsave toimage".split()},
    "scipy.misc": "scipy.misc is deprecated and removed in scipy 2",
    "scipy.interpolate.interp2d": "removed in scipy 1.14",
    "scipy.signal.sosfreqz": "removed in scipy 1.15+",
    "scipy.signal.wavelets": "removed in scipy 1.15",
    "scipy.signal.cwt": "removed in scipy 1.15",
    "scipy.signal.ricker": "removed in scipy 1.15",
    "scipy.signal.morlet": "removed in scipy 1.15",
    "scipy.special.log_softmax": "added in scipy 1.5",
    "scipy.fft.next_fast_len": None,   # present since 1.4: explicitly fine
    # h5py
    "h5py.highlevel": "removed in h5py 3.0",
    "h5py.get_config().default_file_mode": "removed in h5py 3",
    # stdlib (python >=3.6 .. current)
    **{"collections." + n: "ABC aliases removed from collections in Python 3.10" for n in (
        "Iterable Iterator Mapping MutableMapping Sequence MutableSequence Set MutableSet "
        "Callable Hashable Sized Container Generator Awaitable Coroutine ByteString "
        "ItemsView KeysView ValuesView MappingView Reversible Collection").split()},
    "imp": "module removed in Python 3.12",
    "distutils": "module removed in Python 3.12",
    "pkg_resources": "not a declared dependency (setuptools no longer ships it)",
    "setuptools": "not a declared run-time dependency",
    "asynchat": "removed in 3.12", "asyncore": "removed in 3.12", "smtpd": "removed in 3.12",
    "cgi": "removed in 3.13", "cgitb": "removed in 3.13", "pipes": "removed in 3.13",
    "imghdr": "removed in 3.13", "telnetlib": "removed in 3.13", "crypt": "removed in 3.13",
    "inspect.getargspec": "removed in Python 3.11",
    "inspect.formatargspec": "removed in Python 3.11",
    "time.clock": "removed in Python 3.8",
    "fractions.gcd": "removed in Python 3.9",
    "os.errno": "removed in Python 3.7",
    "logging.warn": "removed in Python 3.13",
    "platform.linux_distribution": "removed in Python 3.8",
    "base64.encodestring": "removed in Python 3.9", "base64.decodestring": "removed in Python 3.9",
    "xml.etree.cElementTree": "removed in Python 3.9",
    "unittest.makeSuite": "removed in Python 3.13",
    **{"math." + n: "added after Python 3.6" for n in "prod isqrt comb perm dist lcm nextafter ulp cbrt exp2 sumprod fma".split()},
    "functools.cached_property": "added in Python 3.8", "functools.cache": "added in Python 3.9",
    "importlib.metadata": "added in Python 3.8", "importlib.resources.files": "added in Python 3.9",
    "dataclasses": "added in Python 3.7", "contextlib.nullcontext": "added in Python 3.7",
    "time.perf_counter_ns": "added in Python 3.7", "time.time_ns": "added in Python 3.7",
    "typing.Literal": "added in Python 3.8", "typing.Protocol": "added in Python 3.8",
    "typing.Final": "added in Python 3.8", "typing.TypedDict": "added in Python 3.8",
    "zoneinfo": "added in Python 3.9", "graphlib": "added in Python 3.9", "tomllib": "added in 3.11",
    "statistics.fmean": "added in Python 3.8", "itertools.pairwise": "added in Python 3.10",
    "itertools.batched": "added in Python 3.12", "shlex.join": "added in Python 3.8",
}
LIFETIME = {k: v for k, v in LIFETIME.items() if v}

# AST nodes / features newer than the declared Python floor (3.6)
NEW_SYNTAX = {
    "NamedExpr": "assignment expression (3.8)", "Match": "match statement (3.10)",
    "TryStar": "except* (3.11)", "TypeAlias": "type statement (3.12)",
}


# ---------------------------------------------------------------------------
# enumeration of references


def _py_files(root):
    out = []
    for d, dirs, files in os.walk(os.path.join(root, "pyrex")):
        dirs[:] = sorted(x for x in dirs if x != "__pycache__")
        for f in sorted(files):
            if f.endswith(".py"):
                out.append(os.path.join(d, f))
    return out


def _stdlib_names():
    return set(sys.stdlib_module_names)


class _Collector(ast.NodeVisitor):
    """Collects import statements and attribute chains with their guard state."""

    def __init__(self, relpath):
        self.rel = relpath
        self.aliases = {}       # local name -> dotted module path
        self.imports = []       # (lineno, kind, module, name, guarded, in_function)
        self.chains = []        # (lineno, [root, attr, ...], guarded)
        self.syntax = []        # (lineno, what)
        self._guard = 0
        self._hasattr = set()
        self._func = 0
        self._consumed = set()

    # --- guards: try bodies that catch ImportError/AttributeError/Exception ----
    def visit_Try(self, node):
        catches = False
        for h in node.handlers:
            names = []
            t = h.type
            if t is None:
                catches = True
            elif isinstance(t, ast.Tuple):
                names = [getattr(e, "id", getattr(e, "attr", "")) for e in t.elts]
            else:
                names = [getattr(t, "id", getattr(t, "attr", ""))]
            if set(names) & {"ImportError", "ModuleNotFoundError", "AttributeError",
                             "Exception", "BaseException"}:
                catches = True
        if catches:
            self._guard += 1
        for n in node.body:
            self.visit(n)
        # the handlers of such a try are the fallback for the missing name: they
        # only run where the primary name does not exist, so they are guarded too
        for h in node.handlers:
            for n in h.body:
                self.visit(n)
        if catches:
            self._guard -= 1
        for part in (node.orelse, node.finalbody):
            for n in part:
                self.visit(n)

    def visit_If(self, node):
        # `if hasattr(mod, "x"):` / `if mod.__available__:` style guards
        # (a hasattr test guards only references to the very name it tests: `if hasattr(np,
        # "trapezoid"): np.trapezoid`; `if hasattr(obj, "build"):` says nothing about libraries)
        src = ast.dump(node.test)
        guarded = "__available__" in src
        pairs = set()
        for sub in ast.walk(node.test):
            if isinstance(sub, ast.Call) and getattr(sub.func, "id", None) == "hasattr" and len(sub.args) == 2 \
                    and isinstance(sub.args[0], ast.Name) and isinstance(sub.args[1], ast.Constant):
                pairs.add((sub.args[0].id, sub.args[1].value))
        self.visit(node.test)
        if guarded:
            self._guard += 1
        added = pairs - self._hasattr
        self._hasattr |= added
        for n in node.body:
            self.visit(n)
        self._hasattr -= added
        if guarded:
            self._guard -= 1
        for n in node.orelse:
            self.visit(n)

    def _enter_func(self, node):
        if getattr(node.args, "posonlyargs", None):
            self.syntax.append((node.lineno, "positional-only parameters (3.8)"))
        self._func += 1
        self.generic_visit(node)
        self._func -= 1

    visit_FunctionDef = _enter_func
    visit_AsyncFunctionDef = _enter_func
    visit_Lambda = _enter_func

    def visit_Import(self, node):
        for a in node.names:
            local = a.asname or a.name.split(".")[0]
            self.aliases[local] = a.name if a.asname else a.name.split(".")[0]
            self.imports.append((node.lineno, "import", a.name, None,
                                 self._guard > 0, self._func > 0))

    def visit_ImportFrom(self, node):
        mod = ("." * node.level) + (node.module or "")
        for a in node.names:
            if node.level == 0 and a.name != "*":
                self.aliases.setdefault(a.asname or a.name, mod + "." + a.name)
            self.imports.append((node.lineno, "from", mod, a.name,
                                 self._guard > 0, self._func > 0))

    def visit_Attribute(self, node):
        if id(node) in self._consumed:
            return
        chain = []
        cur = node
        while isinstance(cur, ast.Attribute):
            self._consumed.add(id(cur))
            chain.append(cur.attr)
            cur = cur.value
        if isinstance(cur, ast.Name):
            chain.append(cur.id)
            chain = list(reversed(chain))
            self.chains.append((node.lineno, chain, self._guard > 0 or
                                (len(chain) > 1 and (chain[0], chain[1]) in self._hasattr)))
        else:
            self.visit(cur)

    def generic_visit(self, node):
        name = type(node).__name__
        if name in NEW_SYNTAX:
            self.syntax.append((getattr(node, "lineno", 0), NEW_SYNTAX[name]))
        if isinstance(node, ast.FormattedValue):
            pass
        super().generic_visit(node)


def enumerate_references(root):
    """-> list of dict(file, line, kind, path, guarded, in_function)."""
    stdlib = _stdlib_names()
    refs = []
    syntax = []
    per_file_imports = {}
    for path in _py_files(root):
        rel = os.path.relpath(path, root)
        with open(path, encoding="utf-8") as f:
            src = f.read()
        tree = ast.parse(src, filename=rel)
        col = _Collector(rel)
        col.visit(tree)
        per_file_imports[rel] = col.imports
        syntax.extend((rel, ln, what) for ln, what in col.syntax)
        for ln, kind, mod, name, guarded, in_func in col.imports:
            top = mod.lstrip(".").split(".")[0] if not mod.startswith(".") else "pyrex"
            if top == "pyrex" or mod.startswith("."):
                continue
            path_ = mod if kind == "import" else (mod + "." + name if name != "*" else mod)
            refs.append(dict(file=rel, line=ln, kind=kind, path=path_, module=mod, name=name,
                             guarded=guarded, in_function=in_func,
                             category=("stdlib" if top in stdlib else
                                       "declared" if top in THIRD_PARTY else "other")))
        for ln, chain, guarded in col.chains:
            root_name = chain[0]
            target = col.aliases.get(root_name)
            if target is None:
                continue
            top = target.split(".")[0]
            if top == "pyrex" or top.startswith("."):
                continue
            if top not in stdlib and top not in THIRD_PARTY:
                continue
            dotted = target + "." + ".".join(chain[1:])
            refs.append(dict(file=rel, line=ln, kind="attr", path=dotted, guarded=guarded,
                             in_function=False,
                             category="stdlib" if top in stdlib else "declared"))
    return refs, syntax, per_file_imports


def _resolve(dotted):
    """Resolve `a.b.c.d`: import the longest module prefix, getattr the rest.
    Returns None if it resolves, else an error string."""
    parts = dotted.split(".")
    obj = None
    k = 0
    for i in range(len(parts), 0, -1):
        name = ".".join(parts[:i])
        try:
            obj = importlib.import_module(name)
            k = i
            break
        except ImportError:
            continue
        except Exception as e:  # noqa
            return "import of %s raised %s: %s" % (name, type(e).__name__, e)
    if obj is None:
        return "module %s cannot be imported" % parts[0]
    for j, attr in enumerate(parts[k:]):
        try:
            obj = getattr(obj, attr)
        except AttributeError:
            return "%s has no attribute %r" % (".".join(parts[:k + j]), attr)
        # stop descending once we leave modules/classes/functions: attributes of
        # instances (e.g. np.pi.real, logger methods) resolve dynamically
        if not isinstance(obj, (type(os), type, type(len), type(_resolve))) and \
                not callable(obj):
            rest = parts[k + j + 1:]
            for a in rest:
                try:
                    obj = getattr(obj, a)
                except AttributeError:
                    return "%s has no attribute %r" % (dotted, a)
            break
    return None


# ---------------------------------------------------------------------------
# sub-checks (each explores its whole finite space in one call)


def _key(r):
    return [r["file"], r["line"], r["path"]]


def check_resolve(case, rec):
    refs, _, _ = enumerate_references(REPO_DIR)
    bad = []
    n = 0
    for r in refs:
        if r["category"] == "other":
            continue
        n += 1
        err = None if r["guarded"] else _resolve(r["path"])
        rec.case(_key(r), nontrivial=True,
                 classes=[r["category"], r["kind"]] + (["guarded"] if r["guarded"] else []),
                 sample=dict(file=r["file"], line=r["line"], ref=r["path"]))
        if err:
            bad.append("%s:%d %s -> %s" % (r["file"], r["line"], r["path"], err))
    require(n > 500, "reference enumeration found only %d references (harness regression?)", n)
    require(not bad, "%d unresolved library reference(s): %s", len(bad), "; ".join(bad[:8]))


def check_lifetimes(case, rec):
    refs, syntax, _ = enumerate_references(REPO_DIR)
    bad = []
    for r in refs:
        hit = None
        parts = r["path"].split(".")
        for i in range(1, len(parts) + 1):
            pre = ".".join(parts[:i])
            if pre in LIFETIME:
                hit = (pre, LIFETIME[pre])
                break
        rec.case(_key(r), nontrivial=True, classes=[r["category"]] + (["table_hit"] if hit else []),
                 sample=dict(file=r["file"], line=r["line"], ref=r["path"]))
        if hit and not r["guarded"]:
            bad.append("%s:%d %s (%s: %s)" % (r["file"], r["line"], r["path"], hit[0], hit[1]))
    for rel, ln, what in syntax:
        bad.append("%s:%d uses %s, newer than the declared python>=3.6" % (rel, ln, what))
    require(not bad, "%d reference(s) to names outside the declared range %r: %s",
            len(bad), DECLARED, "; ".join(bad[:8]))


def check_optional(case, rec):
    refs, _, _ = enumerate_references(REPO_DIR)
    bad = []
    for r in refs:
        if r["kind"] == "attr":
            continue
        rec.case(_key(r), nontrivial=r["category"] != "stdlib",
                 classes=[r["category"]], sample=dict(file=r["file"], line=r["line"], ref=r["path"]))
        if r["category"] != "other":
            continue
        top = r["path"].split(".")[0]
        ok_optional = top in OPTIONAL and (r["guarded"] or r["in_function"])
        if not ok_optional:
            bad.append("%s:%d imports %s, which is neither a declared dependency nor a guarded "
                       "documented optional one" % (r["file"], r["line"], r["path"]))
    require(not bad, "; ".join(bad[:8]))


def check_submodules(case, rec):
    """`scipy.signal.x` needs an explicit `import scipy.signal` (scipy 1.4 does not
    load sub-packages lazily): in the same file, or in a core module that
    `pyrex/__init__` imports before anything else can run."""
    refs, _, per_file = enumerate_references(REPO_DIR)
    core_imports = set()
    for rel, imps in per_file.items():
        if os.path.dirname(rel) == "pyrex":
            for ln, kind, mod, name, guarded, in_func in imps:
                if kind == "import" and not in_func:
                    core_imports.add(mod)
    bad = []
    for r in refs:
        if r["kind"] != "attr" or r["category"] != "declared":
            continue
        parts = r["path"].split(".")
        # longest prefix that is a sub-module of a third-party package
        need = None
        for i in range(len(parts) - 1, 1, -1):
            name = ".".join(parts[:i])
            try:
                m = sys.modules.get(name) or importlib.import_module(name)
            except Exception:
                continue
            if isinstance(m, type(os)):
                need = name
                break
        if need is None:
            rec.case(_key(r), nontrivial=False, classes=["top_level"])
            continue
        if parts[0] == "numpy":
            # numpy has always loaded its public sub-packages (random, fft, linalg, ...)
            rec.case(_key(r), nontrivial=False, classes=["numpy_subpackage"])
            continue
        own = set(mod for ln, kind, mod, name, g, f in per_file[r["file"]] if kind == "import")
        own |= set(mod + "." + name for ln, kind, mod, name, g, f in per_file[r["file"]]
                   if kind == "from")
        ok = any(x == need or x.startswith(need + ".") for x in own) or \
            any(x == need or x.startswith(need + ".") for x in core_imports)
        rec.case(_key(r), nontrivial=True, classes=["needs_submodule_import"],
                 sample=dict(file=r["file"], line=r["line"], ref=r["path"], needs=need))
        if not ok:
            bad.append("%s:%d %s used without `import %s`" % (r["file"], r["line"], r["path"], need))
    require(not bad, "; ".join(bad[:8]))


_IMPORT_SCRIPT = r"""
import sys, json, importlib, traceback, warnings, os
sys.path.insert(0, sys.argv[1])
sys.dont_write_bytecode = True
import logging; logging.disable(logging.CRITICAL)
mods = json.loads(sys.argv[2])
out = {}
for m in mods:
    try:
        with warnings.catch_warnings():
            warnings.simplefilter("error", DeprecationWarning)
            warnings.simplefilter("error", PendingDeprecationWarning)
            warnings.simplefilter("error", FutureWarning)
            importlib.import_module(m)
        out[m] = None
    except BaseException as e:
        tb = traceback.extract_tb(e.__traceback__)
        last = tb[-1]
        in_pkg = [f for f in tb if os.sep + "pyrex" + os.sep in f.filename]
        out[m] = dict(type=type(e).__name__, msg=str(e)[:300],
                      file=last.filename, func=last.name, line=last.lineno,
                      pyrex_func=in_pkg[-1].name if in_pkg else None,
                      pyrex_file=in_pkg[-1].filename if in_pkg else None,
                      pyrex_line=in_pkg[-1].lineno if in_pkg else None)
print(json.dumps(out))
"""


def _module_names(root):
    names = []
    for path in _py_files(root):
        rel = os.path.relpath(path, root)[:-3].replace(os.sep, ".")
        if rel.endswith(".__init__"):
            rel = rel[:-9]
        names.append(rel)
    return sorted(set(names))


def check_import_all(case, rec):
    """Import every module in a fresh interpreter, from a scratch copy of the
    working tree (the ara package would write a .pkl next to its data)."""
    tmp = tempfile.mkdtemp(prefix="pyrex-c20-")
    try:
        shutil.copytree(os.path.join(REPO_DIR, "pyrex"), os.path.join(tmp, "pyrex"),
                        ignore=shutil.ignore_patterns("__pycache__", "*.pyc"))
        mods = _module_names(tmp)
        env = dict(os.environ, PYTHONDONTWRITEBYTECODE="1", HOME=tmp)
        env.pop("PYTHONPATH", None)
        results = {}
        # one fresh interpreter per module, so that a failure is attributed to
        # the module that causes it (run 8 at a time)
        from concurrent.futures import ThreadPoolExecutor

        def one(group):
            return group, subprocess.run(
                [sys.executable, "-c", _IMPORT_SCRIPT, tmp, json.dumps(group)],
                stdout=subprocess.PIPE, stderr=subprocess.PIPE, text=True,
                env=env, cwd=tmp, timeout=600)
        with ThreadPoolExecutor(8) as ex:
            for group, p in ex.map(one, [["pyrex"]] + [[m] for m in mods if m != "pyrex"]):
                require(p.returncode == 0 and p.stdout.strip(),
                        "import driver failed for %r: %s", group, p.stderr[-800:])
                results.update(json.loads(p.stdout.strip().splitlines()[-1]))
    finally:
        shutil.rmtree(tmp, ignore_errors=True)
    bad = []
    for m, err in sorted(results.items()):
        data_pkg = any(m == d or m.startswith(d + ".") for d in DATA_PACKAGES)
        rec.case([m], nontrivial=True,
                 classes=["data_package" if data_pkg else "importable", "ok" if err is None else "failed"],
                 sample=dict(module=m, result=err))
        if err is None:
            continue
        if m == "pyrex.custom.pyspice":
            # documented optional dependency: must degrade, never raise
            bad.append("%s: %s: %s" % (m, err["type"], err["msg"]))
            continue
        name_lookup = err["type"] in ("AttributeError", "ImportError", "ModuleNotFoundError",
                                      "NameError", "DeprecationWarning", "FutureWarning",
                                      "PendingDeprecationWarning")
        in_own_pkg = any(("/" + d.replace(".", "/") + "/") in (err["pyrex_file"] or "")
                         for d in DATA_PACKAGES)
        if data_pkg and not name_lookup and in_own_pkg:
            continue   # fails while digesting its (here emptied) data files
        bad.append("%s: %s: %s (at %s:%s in %s)" % (m, err["type"], err["msg"],
                                                    err["pyrex_file"], err["pyrex_line"], err["pyrex_func"]))
    require(len(results) >= 20, "only %d modules found", len(results))
    require(not bad, "%d module(s) fail to import: %s", len(bad), "; ".join(bad[:6]))


def _sub(name, fn, rule):
    return SubCheck(name, st.just(None), fn, quick=1, thorough=1, rule=rule, exhaustive=True,
                    quick_shards=1)


PROPERTY = Property(
    "C20", "Package uses only library interfaces present in its declared dependency range",
    [
        _sub("resolve", check_resolve,
             "every `import m`, `from m import n` and Name.attr... chain rooted at a module alias, in every "
             ".py under pyrex/ (incl. custom packages), resolved by importlib+getattr against the installed "
             "numpy/scipy/h5py/stdlib unless guarded by try/except (ImportError|AttributeError) or hasattr; "
             "distinct = (file, line, dotted path)"),
        _sub("lifetimes", check_lifetimes,
             "same enumeration, each dotted path (and its prefixes) looked up in a table of names removed "
             "from or added to numpy/scipy/h5py/stdlib inside the declared range; plus AST node kinds newer "
             "than Python 3.6"),
        _sub("submodules", check_submodules,
             "references into scipy/h5py sub-packages need an explicit import of that sub-package in the "
             "same file or in a core module imported by pyrex/__init__"),
        _sub("optional", check_optional,
             "every import statement: modules outside numpy/scipy/h5py/stdlib/pyrex must be the documented "
             "optional dependency (PySpice) and sit inside try/except or a function"),
        _sub("import_all", check_import_all,
             "every module under pyrex/ imported alone in a fresh interpreter from a scratch copy of the "
             "working tree, Deprecation/FutureWarnings as errors; ara/arianna/irex may fail only inside "
             "their data readers (data files are emptied here) and never with a name-lookup error"),
    ],
    assumptions=[
        "only one dependency set is installed (numpy 2.5.3, scipy 1.18.1, h5py 3.16, Python 3.12): the "
        "'every supported version' quantifier is decided for this set plus a curated lifetime table",
        "references reached through objects (method calls on arrays, datasets) are not statically "
        "enumerable; the other 19 checks exercise them dynamically",
        "pyrex.custom.ara/arianna/irex are covered statically and up to their data readers only",
    ],
    design_ref="3/C20",
)
PROPERTY.technique = ("exhaustive enumeration of the finite reference space from the AST with an executable "
                      "resolution oracle + fresh-interpreter import of every module (degenerate generated-input "
                      "search: the whole input space is generated)")
PROPERTY.level_text = ("All library references under pyrex/ are enumerated completely and resolved against the "
                       "installed dependency set and a lifetime table; every module is imported in a fresh "
                       "interpreter. Exhaustive for the installed versions, partial (table-based) for the rest "
                       "of the declared range.")
