"""C15 - Earth density and slant depth (DESIGN 3/C15).

Oracles (pbt/ref_earth.py, no pyrex import): the density tables transcribed
from the published models with half-open shells, and the column density as
adaptive quadrature (scipy.integrate.quad) over the pieces of the chord
between shell crossings, cross-checked against closed-form antiderivatives.
The chord geometry of the oracle is the impact-parameter form.

Discretisation tolerance (rigorous for a trapezoid sum of a function of
bounded variation V with node spacing h):  |X - X_ref| <= 100 * h * V / 2.
The node spacing that pyrex derives from `step` is h = L / (ceil(L/step) - 1)
(<= 2 step); a chord not longer than one step is allowed to be lost
completely (<= 100 * rho_max * step).
"""

import math

import numpy as np
from hypothesis import strategies as st

from ..core import HarnessError, Property, SubCheck, Violation, require
from .. import gens
from .. import ref_earth as ref
from ..gens import floats, log_floats

EPS = 2.220446049250313e-16
MODEL_NAMES = ["PREM", "CoreMantleCrustModel"]
N_MAX = 20000          # nodes of the coarse integration (the fine one has 8x)
SLACK = 1.05           # DESIGN 3/C15: 5 % on the bounded-variation bound
RND = 1e-9             # relative rounding allowance on a column density


_MEM_CAP = 3 * 2**30
_guarded = []


def _guard_memory():
    """
    slant_depth allocates ~20 arrays of distance/step nodes.  A wrong distance (e.g. a
    direction that is not normalised) asks for 1e10 nodes; without a cap the kernel's
    OOM killer takes the worker (and the pool then waits for ever) instead of numpy
    raising MemoryError inside pyrex, which the runner reports as a violation.  The
    legitimate cases need < 100 MB.  Address-space cap of the worker, set once.
    """
    if _guarded:
        return
    _guarded.append(True)
    try:
        import resource
        soft, hard = resource.getrlimit(resource.RLIMIT_AS)
        if soft == resource.RLIM_INFINITY or soft > _MEM_CAP:
            resource.setrlimit(resource.RLIMIT_AS, (_MEM_CAP, hard))
    except Exception:
        pass


def build_model(name):
    _guard_memory()
    import pyrex.earth_model as em
    return getattr(em, name)()


# ---------------------------------------------------------------------------
# generators


@st.composite
def radii_lists(draw, model, n_min=1, n_max=8):
    m = ref.MODELS[model]
    R = m["R"]
    out = []
    for _ in range(draw(st.integers(n_min, n_max))):
        kind = draw(st.sampled_from(["uni", "uni", "uni", "shell", "shell", "shell+",
                                     "shell-", "shell+1m", "shell-1m", "zero", "neg",
                                     "outside", "int"]))
        s = draw(st.sampled_from(m["radii"]))
        if kind == "uni":
            r = draw(floats(-0.1 * R, 1.2 * R))
        elif kind == "shell":
            r = s
        elif kind == "shell+":
            r = math.nextafter(s, math.inf)
        elif kind == "shell-":
            r = math.nextafter(s, -math.inf)
        elif kind == "shell+1m":
            r = s + 1.0
        elif kind == "shell-1m":
            r = s - 1.0
        elif kind == "zero":
            r = draw(st.sampled_from([0.0, -0.0, 5e-324, 1e-3]))
        elif kind == "neg":
            r = -draw(log_floats(1e-9, 1e6))
        elif kind == "outside":
            r = R + draw(log_floats(1e-6, 1e7))
        else:
            r = float(draw(st.integers(-1000, int(1.2 * R))))
        out.append(r)
    return out


@st.composite
def density_scalar_cases(draw):
    model = draw(st.sampled_from(MODEL_NAMES))
    rs = draw(radii_lists(model, 1, 8))
    kind = draw(st.sampled_from(["float", "np.float64", "int_if_integral", "0d"]))
    return dict(model=model, rs=rs, kind=kind)


@st.composite
def density_array_cases(draw):
    model = draw(st.sampled_from(MODEL_NAMES))
    container = draw(st.sampled_from(["list", "1d", "2d", "int_array", "tuple", "0d",
                                      "noncontig", "int_list"]))
    if container == "2d":
        rows = draw(st.integers(1, 3))
        cols = draw(st.integers(1, 4))
        rs = draw(radii_lists(model, rows * cols, rows * cols))
        shape = [rows, cols]
    elif container == "0d":
        rs = draw(radii_lists(model, 1, 1))
        shape = []
    else:
        rs = draw(radii_lists(model, 0 if container in ("list", "1d") else 1, 10))
        shape = [len(rs)]
    if container in ("int_array", "int_list"):
        rs = [float(math.floor(r)) for r in rs]
    return dict(model=model, rs=rs, shape=shape, container=container)


def _local_frame(P):
    """Radial unit vector and two tangents (pure python)."""
    p = math.sqrt(sum(c * c for c in P))
    rad = [c / p for c in P]
    # tangent 1: derivative of rad towards +x (or +y when rad is along x)
    ref_ax = [1.0, 0.0, 0.0] if abs(rad[0]) < 0.9 else [0.0, 1.0, 0.0]
    d = sum(a * b for a, b in zip(ref_ax, rad))
    e1 = [a - d * b for a, b in zip(ref_ax, rad)]
    n = math.sqrt(sum(c * c for c in e1))
    e1 = [c / n for c in e1]
    e2 = [rad[1] * e1[2] - rad[2] * e1[1], rad[2] * e1[0] - rad[0] * e1[2],
          rad[0] * e1[1] - rad[1] * e1[0]]
    return p, rad, e1, e2


def _dir_from_zenith(P, alpha, phi):
    """Unit vector at angle alpha from the outward radial, azimuth phi about it."""
    p, rad, e1, e2 = _local_frame(P)
    ca, sa = math.cos(alpha), math.sin(alpha)
    cp, sp = math.cos(phi), math.sin(phi)
    return [ca * rad[i] + sa * (cp * e1[i] + sp * e2[i]) for i in range(3)]


@st.composite
def endpoints(draw, model):
    """Endpoint in pyrex coordinates: depth 0..3 km, |x|,|y| <= 1e5 m."""
    R = ref.MODELS[model]["R"]
    kxy = draw(st.sampled_from(["zero", "zero", "wide", "wide", "small", "x_only"]))
    if kxy == "zero":
        x = y = 0.0
    elif kxy == "wide":
        x, y = draw(floats(-1e5, 1e5)), draw(floats(-1e5, 1e5))
    elif kxy == "small":
        x, y = draw(floats(-100, 100)), draw(floats(-100, 100))
    else:
        x, y = draw(floats(-1e5, 1e5)), 0.0
    kd = draw(st.sampled_from(["uni", "uni", "uni", "surface", "3km", "shallow", "int"]))
    if kd == "uni":
        depth = draw(floats(0.0, 3000.0))
    elif kd == "surface":
        depth = 0.0
    elif kd == "3km":
        depth = 3000.0
    elif kd == "shallow":
        depth = draw(log_floats(1e-3, 30.0))
    else:
        depth = float(draw(st.integers(0, 3000)))
    return [x, y, -depth if depth else 0.0]


@st.composite
def directions(draw, model, endpoint, unit=False):
    """Direction (pyrex coordinates), mixture of the interesting geometries."""
    m = ref.MODELS[model]
    R = m["R"]
    P = [endpoint[0], endpoint[1], endpoint[2] + R]
    p = math.sqrt(sum(c * c for c in P))
    kind = draw(st.sampled_from(["iso", "iso", "down", "up", "horizontal", "tangent",
                                 "near_tangent", "graze_shell", "graze_shell", "radial_down",
                                 "steep", "upward"]))
    phi = draw(floats(0.0, 2 * math.pi))
    if kind == "iso":
        u = draw(gens.unit_vectors())
    elif kind == "down":
        u = [0.0, 0.0, -1.0]
    elif kind == "up":
        u = [0.0, 0.0, 1.0]
    elif kind == "horizontal":
        u = draw(st.sampled_from([[1.0, 0.0, 0.0], [0.0, -1.0, 0.0],
                                  [math.cos(phi), math.sin(phi), 0.0]]))
    elif kind == "tangent":
        u = _dir_from_zenith(P, math.pi / 2, phi)
    elif kind == "near_tangent":
        d = draw(st.sampled_from([-1.0, 1.0])) * draw(log_floats(1e-9, 0.05))
        u = _dir_from_zenith(P, math.pi / 2 + d, phi)
    elif kind == "graze_shell":
        # impact parameter = shell radius + delta  (sin(nadir angle) = b / p)
        s = draw(st.sampled_from(m["radii"]))
        delta = draw(st.sampled_from([0.0, 1e-3, -1e-3, 1.0, -1.0, 1000.0, -1000.0]))
        if s == R and delta == 0.0:
            delta = draw(st.sampled_from([1e-3, -1e-3]))
        b = min(max(s + delta, 0.0), p)
        u = _dir_from_zenith(P, math.pi - math.asin(b / p), phi)
    elif kind == "radial_down":
        u = _dir_from_zenith(P, math.pi, 0.0)
    elif kind == "steep":
        u = _dir_from_zenith(P, math.pi - draw(log_floats(1e-6, 0.5)), phi)
    else:
        u = _dir_from_zenith(P, draw(floats(0.0, math.pi / 2)), phi)
    if unit:
        return u, kind
    scale = draw(st.sampled_from(["1", "1", "1", "log", "2", "tiny", "huge"]))
    k = {"1": 1.0, "2": 2.0, "tiny": 1e-6, "huge": 1e6}.get(scale)
    if k is None:
        k = draw(log_floats(1e-3, 1e3))
    return [k * c for c in u], kind


def _raise_step(step, L, n_max=N_MAX):
    """Cost guard by construction: at most n_max nodes on the coarse grid."""
    if L > 0 and L / step > n_max:
        return L / (n_max - 0.37)      # not an integer number of steps
    return step


@st.composite
def steps(draw, L):
    kind = draw(st.sampled_from(["log", "log", "int", "short"]))
    if kind == "int":
        step = draw(st.sampled_from([5, 10, 50, 100, 500, 1000, 5000]))
    elif kind == "short" and 0 < L < 5000.0:
        # chord shorter than (or comparable with) one step
        step = max(5.0, min(5000.0, L * draw(floats(0.3, 4.0))))
    else:
        step = draw(log_floats(5.0, 5000.0))
    return _raise_step(step, L)


@st.composite
def slant_cases(draw):
    model = draw(st.sampled_from(MODEL_NAMES))
    ep = draw(endpoints(model))
    u, dkind = draw(directions(model, ep))
    g = ref.chord(model, ep, u)
    step = draw(steps(g["L"]))
    default = False
    if g["L"] / 500.0 <= 2 * N_MAX and draw(st.integers(0, 7)) == 0:
        step, default = 500, True
    cont = draw(st.sampled_from(["list", "tuple", "ndarray"]))
    return dict(model=model, endpoint=ep, direction=u, step=step, default_step=default,
                container=cont, dkind=dkind)


@st.composite
def zero_cases(draw):
    model = draw(st.sampled_from(MODEL_NAMES))
    m = ref.MODELS[model]
    R = m["R"]
    kind = draw(st.sampled_from(["surface_up", "outside_away", "outside_miss",
                                 "outside_hit", "inside", "inside_up"]))
    phi = draw(floats(0.0, 2 * math.pi))
    if kind == "surface_up":
        ep = [0.0, 0.0, 0.0]
        cz = draw(st.one_of(st.sampled_from([0.0, 1.0]), floats(0.0, 1.0),
                            log_floats(1e-9, 1e-2)))
        s = math.sqrt(max(0.0, 1 - cz * cz))
        u = [s * math.cos(phi), s * math.sin(phi), cz]
    elif kind in ("outside_away", "outside_miss", "outside_hit"):
        # a point above the sphere: horizontal offset large, depth small
        big = draw(st.sampled_from([-1.0, 1.0])) * draw(floats(3e4, 1e5))
        other = draw(floats(-1e5, 1e5))
        x, y = (big, other) if draw(st.booleans()) else (other, big)
        rho2 = x * x + y * y
        depth = draw(floats(0.0, min(3000.0, 0.45 * rho2 / R)))   # keeps r - R > 0
        ep = [x, y, -depth if depth else 0.0]
        P = [ep[0], ep[1], ep[2] + R]
        p = math.sqrt(sum(c * c for c in P))
        if kind == "outside_away":
            u = _dir_from_zenith(P, draw(floats(0.0, math.pi / 2)), phi)
        else:
            if kind == "outside_miss":
                # impact parameter above R by 1 mm .. (p - R)
                b = min(p, R + draw(log_floats(1e-3, max(2e-3, p - R))))
            else:
                b = R - draw(log_floats(1e-2, R))
            u = _dir_from_zenith(P, math.pi - math.asin(min(1.0, max(0.0, b) / p)), phi)
    else:
        ep = draw(endpoints(model))
        if kind == "inside_up":
            P = [ep[0], ep[1], ep[2] + R]
            u = _dir_from_zenith(P, draw(floats(0.0, math.pi / 2)), phi)
        else:
            u, _ = draw(directions(model, ep, unit=True))
    k = draw(st.sampled_from([1.0, 1.0, 3.0, 1e-3, 1e4]))
    u = [k * c for c in u]
    g = ref.chord(model, ep, u)
    step = _raise_step(draw(st.one_of(log_floats(5.0, 5000.0),
                                      st.sampled_from([5, 500, 5000]))), g["L"])
    return dict(model=model, endpoint=ep, direction=u, step=step, kind=kind)


@st.composite
def invariance_cases(draw):
    model = draw(st.sampled_from(MODEL_NAMES))
    ep = draw(endpoints(model))
    u, dkind = draw(directions(model, ep, unit=True))
    g = ref.chord(model, ep, u)
    step = draw(steps(g["L"]))
    scale = draw(st.one_of(log_floats(1e-6, 1e6), st.sampled_from([2.0, 0.5, 10.0, 1e-9, 1e9])))
    return dict(model=model, endpoint=ep, direction=u, step=step, scale=scale,
                phi_z=draw(floats(0.0, 2 * math.pi)),
                phi_r=draw(st.one_of(floats(0.0, 2 * math.pi),
                                     st.sampled_from([math.pi / 2, math.pi]))),
                dkind=dkind)


@st.composite
def monotone_cases(draw):
    model = draw(st.sampled_from(MODEL_NAMES))
    ep = draw(endpoints(model))
    kind = draw(st.sampled_from(["any", "any", "close", "around_tangent", "steep"]))
    if kind == "any":
        a1, a2 = sorted([draw(floats(0.0, math.pi)), draw(floats(0.0, math.pi))])
    elif kind == "close":
        a1 = draw(floats(0.0, math.pi - 1e-3))
        a2 = min(math.pi, a1 + draw(log_floats(1e-6, 1e-1)))
    elif kind == "around_tangent":
        a1 = math.pi / 2 - draw(log_floats(1e-6, 0.05))
        a2 = math.pi / 2 + draw(log_floats(1e-6, 0.05))
    else:
        a2 = math.pi - draw(log_floats(1e-6, 0.3))
        a1 = a2 - draw(log_floats(1e-4, 1.0))
    same_azimuth = draw(st.booleans())
    phi1 = draw(floats(0.0, 2 * math.pi))
    phi2 = phi1 if same_azimuth else draw(floats(0.0, 2 * math.pi))
    R = ref.MODELS[model]["R"]
    P = [ep[0], ep[1], ep[2] + R]
    u1 = _dir_from_zenith(P, a1, phi1)
    u2 = _dir_from_zenith(P, a2, phi2)
    L = max(ref.chord(model, ep, u1)["L"], ref.chord(model, ep, u2)["L"])
    step = _raise_step(draw(log_floats(5.0, 5000.0)), L)
    return dict(model=model, endpoint=ep, shallow=u1, deep=u2, step=step,
                alphas=[a1, a2])


# ---------------------------------------------------------------------------
# checks: density


def _as_scalar(r, kind):
    if kind == "np.float64":
        return np.float64(r)
    if kind == "0d":
        return np.array(r)
    if kind == "int_if_integral" and float(r).is_integer() and abs(r) < 2**53:
        return int(r)
    return float(r)


def _radius_classes(model, r):
    m = ref.MODELS[model]
    R = m["R"]
    out = set()
    if r < 0:
        out.add("negative")
    elif r >= R:
        out.add("outside")
    else:
        out.add("inside")
    for s in m["radii"]:
        if r == s:
            out.add("on_shell")
        elif r in (math.nextafter(s, math.inf), math.nextafter(s, -math.inf)):
            out.add("ulp_from_shell")
    if r == 0:
        out.add("centre")
    return out


def _dens_tol(model):
    # polynomial of <= 4 terms evaluated in a different order than the harness:
    # a few roundings of terms of size <= sum|c_k|
    return 16 * EPS * ref.max_coef_sum(model)


def check_density_scalar(case, rec):
    model = case["model"]
    earth = build_model(model)
    tol = _dens_tol(model)
    classes = set()
    for r in case["rs"]:
        arg = _as_scalar(r, case["kind"])
        d = earth.density(arg)
        require(np.ndim(d) == 0, "density(%r) of a scalar radius has shape %r", arg, np.shape(d))
        d = float(d)
        want = ref.density(model, r)
        require(abs(d - want) <= tol,
                "%s.density(%r) = %r but the reference table gives %r (shell %r)",
                model, arg, d, want, ref.shell_index(model, r))
        if want == 0.0:
            require(d == 0.0, "%s.density(%r) = %r must be exactly zero outside the Earth",
                    model, arg, d)
        else:
            require(d > 0.0, "%s.density(%r) = %r must be positive inside the Earth",
                    model, arg, d)
        classes |= _radius_classes(model, r)
    classes.add(model)
    rec.case(case, nontrivial=bool(classes & {"on_shell", "ulp_from_shell", "centre"})
             or len(classes & {"negative", "outside", "inside"}) >= 2,
             classes=classes | {"kind=" + case["kind"]})


def _build_container(case):
    rs, shape, c = case["rs"], case["shape"], case["container"]
    if c == "list":
        return list(rs)
    if c == "tuple":
        return tuple(rs)
    if c == "1d":
        return np.array(rs, dtype=float)
    if c == "2d":
        return np.array(rs, dtype=float).reshape(shape)
    if c == "0d":
        return np.array(rs[0])
    if c == "int_array":
        return np.array([int(r) for r in rs], dtype=np.int64)
    if c == "int_list":
        return [int(r) for r in rs]
    if c == "noncontig":
        buf = np.zeros(2 * len(rs))
        buf[::2] = rs
        return buf[::2]
    raise HarnessError("container " + c)


def check_density_array(case, rec):
    model = case["model"]
    earth = build_model(model)
    tol = _dens_tol(model)
    arg = _build_container(case)
    keep = np.array(arg, copy=True) if isinstance(arg, np.ndarray) else None
    out = earth.density(arg)
    require(isinstance(out, np.ndarray), "density(array) returned %r", type(out))
    require(list(out.shape) == case["shape"], "density of input shape %r has shape %r",
            case["shape"], list(out.shape))
    if keep is not None:
        require(np.array_equal(keep, arg), "density() modified its argument")
    flat = [float(v) for v in np.ravel(out)]
    classes = set()
    for r, v in zip(case["rs"], flat):
        want = ref.density(model, r)
        require(abs(v - want) <= tol,
                "%s.density(%s)[r=%r] = %r but the reference table gives %r",
                model, case["container"], r, v, want)
        if want == 0.0:
            require(v == 0.0, "%s.density(%s)[r=%r] = %r must be exactly zero outside the Earth",
                    model, case["container"], r, v)
        s = float(earth.density(float(r)))
        # same table, possibly another pow() kernel for arrays: 4 ulp
        require(abs(v - s) <= 4 * EPS * max(abs(s), abs(v)),
                "%s.density(%s)[r=%r] = %r differs from the scalar call %r",
                model, case["container"], r, v, s)
        classes |= _radius_classes(model, r)
    kinds = classes & {"negative", "outside", "inside"}
    rec.case(case, nontrivial=len(case["rs"]) >= 2 and
             (len(kinds) >= 2 or bool(classes & {"on_shell", "ulp_from_shell"})),
             classes=classes | {"container=" + case["container"], model})


# ---------------------------------------------------------------------------
# checks: slant depth


def _ambiguous(g):
    """The line touches the surface within rounding ahead of the point: whether the chord
    enters the Earth is a rounding question (a 1e-5 m graze is a chord of <= 23 m)."""
    return g["tc"] > 0.0 and abs(g["b"] - g["R"]) < 1e-5


def _container(v, kind):
    if kind == "tuple":
        return tuple(v)
    if kind == "ndarray":
        return np.array(v, dtype=float)
    return list(v)


def _scalar_result(x, what):
    require(np.ndim(x) == 0, "%s is not a scalar: %r", what, x)
    x = float(x)
    require(math.isfinite(x) and x >= 0.0, "%s = %r is not a finite non-negative number",
            what, x)
    return x


def _reference(model, g):
    """Quadrature reference, cross-checked with the closed form (harness self-test)."""
    xq, eq = ref.column_quad(model, g)
    xc = ref.column_closed_form(model, g)
    if abs(xq - xc) > 1e-9 * max(xq, xc) + 1e-6:
        raise HarnessError("reference integrals disagree: quad %r closed form %r (%r)"
                           % (xq, xc, g))
    return xq


def _disc_bound(g, V, rho_max, step, x_ref):
    """Allowed |X - X_ref| for integration step `step` (see module docstring)."""
    L = g["L"]
    q = L / step
    ks = {math.ceil(q * (1 - 1e-9)), math.ceil(q * (1 + 1e-9))}
    b = 0.0
    for k in ks:
        if k <= 1:
            b = max(b, 100.0 * rho_max * step)
        else:
            b = max(b, 100.0 * (L / (k - 1)) * V / 2.0 * SLACK)
    return b + RND * x_ref


def _geometry_classes(model, g, step, pcs):
    cl = set()
    R = g["R"]
    u, P = g["u"], g["P"]
    if not g["enters"]:
        cl.add("miss")
        return cl
    cosrad = -g["tc"] / g["p"]           # cosine of the angle to the outward radial
    if abs(cosrad) < 1e-6 or abs(u[2]) < 1e-9:
        cl.add("tangential")
    if abs(abs(u[2]) - 1.0) < 1e-12 or abs(abs(cosrad) - 1.0) < 1e-12:
        cl.add("vertical")
    if g["L"] <= step:
        cl.add("shorter_than_step")
    elif g["L"] <= 3 * step:
        cl.add("few_steps")
    if g["a"] > 0:
        cl.add("starts_outside")
    shells = set(i for _, _, i in pcs)
    if len(shells) >= 2:
        cl.add("crosses_shell")
    if len(shells) >= 5:
        cl.add("deep")
    for s in ref.MODELS[model]["radii"][:-1]:
        if abs(g["b"] - s) <= 1.5:
            cl.add("grazes_shell")
    if cosrad < 0:
        cl.add("downgoing")
    else:
        cl.add("upgoing")
    return cl


def check_slant_reference(case, rec):
    model = case["model"]
    earth = build_model(model)
    ep, u, step = case["endpoint"], case["direction"], case["step"]
    g = ref.chord(model, ep, u)
    pcs = ref.pieces(model, g)
    a_ep = _container(ep, case["container"])
    a_u = _container(u, case["container"])
    x = _scalar_result(earth.slant_depth(a_ep, a_u, step),
                       "slant_depth(%r, %r, %r)" % (ep, u, step))
    if case["default_step"]:
        xd = _scalar_result(earth.slant_depth(a_ep, a_u), "slant_depth with default step")
        require(xd == x, "default step: slant_depth(%r, %r) = %r but step=500 gives %r",
                ep, u, xd, x)
    classes = _geometry_classes(model, g, step, pcs)
    top = ref.MODELS[model]["coef"][-1][0]
    if _ambiguous(g):
        # (a graze within 1e-5 m is a chord of at most 2 sqrt(2 R 1e-5) = 22.6 m, which is
        # longer than two steps when the step is a few metres)
        require(x <= 100.0 * top * (2 * step + 23.0),
                "surface-grazing line gave %r > 100*rho*(2*step + 23 m) (%r, %r, step %r)", x, ep, u, step)
        rec.case(case, nontrivial=False, classes=["ambiguous_surface_graze"])
        return
    if not g["enters"]:
        require(x == 0.0, "chord that never enters the Earth has slant depth %r "
                "(endpoint %r direction %r: impact parameter %r, R %r, exit parameter %r)",
                x, ep, u, g["b"], g["R"], g["t_out"])
        rec.case(case, nontrivial=False, classes=classes)
        return
    x_ref = _reference(model, g)
    V, rho_max = ref.variation(model, g)
    bound = _disc_bound(g, V, rho_max, step, x_ref)
    require(abs(x - x_ref) <= bound,
            "%s.slant_depth(%r, %r, step=%r) = %r, integral of the density along the chord "
            "(length %r) = %r; |difference| %r > discretisation bound %r",
            model, ep, u, step, x, g["L"], x_ref, abs(x - x_ref), bound)
    # convergence: 8 times smaller step, 8 times smaller bound
    fine = step / 8.0
    x8 = _scalar_result(earth.slant_depth(a_ep, a_u, fine), "slant_depth at step/8")
    bound8 = _disc_bound(g, V, rho_max, fine, x_ref)
    require(abs(x8 - x_ref) <= bound8,
            "%s.slant_depth(%r, %r, step=%r) = %r does not converge: reference %r, "
            "|difference| %r > bound %r (at step %r the difference was %r)",
            model, ep, u, fine, x8, x_ref, abs(x8 - x_ref), bound8, step, abs(x - x_ref))
    if isinstance(step, int):
        classes.add("int_step")
    n = math.sqrt(sum(c * c for c in u))
    if abs(n - 1.0) > 1e-6:
        classes.add("nonunit")
    if case["default_step"]:
        classes.add("default_step")
    classes.add(model)
    rec.case(case, nontrivial="crosses_shell" in classes, classes=classes)


def _density_range(model):
    """Smallest and largest density anywhere inside the Earth (33 samples per shell)."""
    m = ref.MODELS[model]
    lo, hi = math.inf, 0.0
    low = 0.0
    for i, up in enumerate(m["radii"]):
        for j in range(33):
            v = ref.shell_density(model, i, low + (up - low) * j / 32.0)
            lo, hi = min(lo, v), max(hi, v)
        low = up
    return lo, hi


def check_slant_zero(case, rec):
    model = case["model"]
    m = ref.MODELS[model]
    earth = build_model(model)
    ep, u, step = case["endpoint"], case["direction"], case["step"]
    g = ref.chord(model, ep, u)
    x = _scalar_result(earth.slant_depth(ep, u, step),
                       "slant_depth(%r, %r, %r)" % (ep, u, step))
    classes = {"kind=" + case["kind"]}
    if _ambiguous(g):
        rec.case(case, nontrivial=False, classes=["ambiguous_surface_graze"])
        return
    l_in = (g["t_out"] - g["a"]) if g["enters"] else 0.0
    if not g["enters"]:
        classes.add("no_entry")
        if g["t_out"] is not None:
            classes.add("earth_behind")
        require(x == 0.0, "chord that never enters the Earth has slant depth %r "
                "(%s endpoint %r direction %r: radius %r, impact parameter %r, R %r, "
                "exit parameter %r)", x, model, ep, u, g["p"], g["b"], g["R"], g["t_out"])
    else:
        rho_lo, rho_hi = _density_range(model)
        # spacing of the integration nodes: at most 4/3 step when the chord is >= 4 steps
        if g["L"] >= 4 * step:
            h = step / (1.0 - step / g["L"])
            if l_in >= 4 * step:
                classes.add("enters_4steps")
                require(x > 0.0, "chord with %r m inside the Earth (step %r) has slant depth 0 "
                        "(%s endpoint %r direction %r)", l_in, step, model, ep, u)
            lo = 100.0 * rho_lo * (l_in - 2 * h) * (1 - RND)
            hi = 100.0 * rho_hi * (l_in + 2 * h) * (1 + RND)
            require(lo <= x <= hi, "slant depth %r outside the crude bracket [%r, %r] = "
                    "100*rho_min/max*(length inside %r -/+ 2 node spacings) "
                    "(%s endpoint %r direction %r step %r)", x, lo, hi, l_in, model, ep, u, step)
        else:
            classes.add("enters_short")
            require(x <= 100.0 * rho_hi * (l_in + 2 * max(step, g["L"])) * (1 + RND),
                    "slant depth %r of a %r m chord at step %r", x, l_in, step)
    rec.case(case, nontrivial=case["kind"] != "inside", classes=classes)


def _rot_z(v, phi):
    c, s = math.cos(phi), math.sin(phi)
    return [c * v[0] - s * v[1], s * v[0] + c * v[1], v[2]]


def _rot_axis(v, axis, phi):
    """Rodrigues rotation of v about the unit vector axis."""
    c, s = math.cos(phi), math.sin(phi)
    d = sum(a * b for a, b in zip(axis, v))
    cr = [axis[1] * v[2] - axis[2] * v[1], axis[2] * v[0] - axis[0] * v[2],
          axis[0] * v[1] - axis[1] * v[0]]
    return [v[i] * c + cr[i] * s + axis[i] * d * (1 - c) for i in range(3)]


def check_slant_invariance(case, rec):
    model = case["model"]
    m = ref.MODELS[model]
    R = m["R"]
    earth = build_model(model)
    ep, u, step = case["endpoint"], case["direction"], case["step"]
    g = ref.chord(model, ep, u)
    x0 = _scalar_result(earth.slant_depth(ep, u, step), "slant_depth")
    top = m["coef"][-1][0]
    V, rho_max = ref.variation(model, g)
    # The last node sits on the surface itself, where rounding decides between the
    # density of the top shell and zero: one half node spacing (<= step) of top-shell
    # material is the discretisation freedom between two equivalent calls.
    tol = 100.0 * top * step * (1 + 1e-9) + RND * x0
    # a shell touched within 1e-6 m at the closest approach: one node (spacing <= 2 step)
    # sits on either side of it depending on rounding
    tol += 100.0 * ref.graze_jump(model, g) * 2 * step
    q = g["L"] / step if g["L"] > 0 else 0.5
    if _ambiguous(g):
        # entering or not is decided by rounding: one node (spacing <= 2 step) may or may
        # not see top-shell material
        tol = 100.0 * top * 2 * step * (1 + 1e-9) + RND * x0
        near_integer = True
    elif abs(q - round(q)) < 1e-9 * max(1.0, q):
        # the number of nodes itself is decided by rounding: both results only obey the
        # discretisation bound around the true integral
        if g["enters"]:
            tol = max(tol, 2 * _disc_bound(g, V, max(rho_max, top), step, x0))
        near_integer = True
    else:
        near_integer = False
    classes = set()
    # (1) length of the direction vector
    us = [case["scale"] * c for c in u]
    x1 = _scalar_result(earth.slant_depth(ep, us, step), "slant_depth (scaled direction)")
    require(abs(x1 - x0) <= tol,
            "%s.slant_depth(%r, direction, %r): direction %r gives %r, the same direction "
            "scaled by %r gives %r (allowed difference %r)",
            model, ep, step, u, x0, case["scale"], x1, tol)
    # (2) azimuth: rotate endpoint and direction together about the polar axis
    ep2 = _rot_z(ep, case["phi_z"])
    u2 = _rot_z(u, case["phi_z"])
    x2 = _scalar_result(earth.slant_depth(ep2, u2, step), "slant_depth (rotated about z)")
    require(abs(x2 - x0) <= tol,
            "%s: slant depth changes under a rotation of endpoint and direction about the "
            "vertical axis by %r rad: (%r, %r) -> %r, (%r, %r) -> %r (allowed %r, step %r)",
            model, case["phi_z"], ep, u, x0, ep2, u2, x2, tol, step)
    # (3) azimuth about the local vertical (Earth-centre direction) through the endpoint
    P = [ep[0], ep[1], ep[2] + R]
    p, rad, _, _ = _local_frame(P)
    u3 = _rot_axis(u, rad, case["phi_r"])
    x3 = _scalar_result(earth.slant_depth(ep, u3, step), "slant_depth (rotated about radial)")
    require(abs(x3 - x0) <= tol,
            "%s: slant depth depends on the azimuth about the local vertical: endpoint %r, "
            "direction %r -> %r, rotated by %r rad to %r -> %r (allowed %r, step %r)",
            model, ep, u, x0, case["phi_r"], u3, x3, tol, step)
    # (4) containers
    x4 = _scalar_result(earth.slant_depth(tuple(ep), np.array(us), step), "slant_depth (tuple/ndarray)")
    require(x4 == x1, "tuple/ndarray arguments give %r, lists give %r", x4, x1)
    if g["enters"]:
        classes.add("enters")
        if x0 > 100 * tol:
            classes.add("resolving")
    if ep[0] != 0 or ep[1] != 0:
        classes.add("offset_xy")
    if abs(math.log10(case["scale"])) > 2:
        classes.add("scale>100x")
    if near_integer:
        classes.add("node_count_ambiguous")
    rec.case(case, nontrivial="resolving" in classes, classes=classes)


def check_slant_monotone(case, rec):
    model = case["model"]
    earth = build_model(model)
    ep, step = case["endpoint"], case["step"]
    R = ref.MODELS[model]["R"]
    res = []
    for u in (case["shallow"], case["deep"]):
        g = ref.chord(model, ep, u)
        x = _scalar_result(earth.slant_depth(ep, u, step), "slant_depth")
        if g["enters"] and not _ambiguous(g):
            V, rho_max = ref.variation(model, g)
            x_ref = _reference(model, g)
            b = _disc_bound(g, V, rho_max, step, x_ref)
        else:
            x_ref = 0.0
            b = 100.0 * ref.MODELS[model]["coef"][-1][0] * 2 * step if g["t_out"] else 0.0
        res.append((x, x_ref, b, g))
    (x1, r1, b1, g1), (x2, r2, b2, g2) = res
    if r2 < r1 - RND * r1 - 1.0 and g2["enters"] and not _ambiguous(g2):
        raise HarnessError("reference column depth not monotone in dip: %r" % (case,))
    require(x2 >= x1 - (b1 + b2),
            "%s: the deeper chord has the smaller slant depth: endpoint %r step %r, zenith "
            "angles %r: %r -> %r, %r -> %r (discretisation bounds %r + %r)",
            model, ep, step, case["alphas"], case["shallow"], x1, case["deep"], x2, b1, b2)
    classes = set()
    if r2 - r1 > 2 * (b1 + b2):
        classes.add("resolved")
        require(x2 > x1, "%s: slant depth does not grow with the dip: endpoint %r step %r, "
                "%r -> %r, %r -> %r (reference %r -> %r)", model, ep, step,
                case["shallow"], x1, case["deep"], x2, r1, r2)
    if g1["enters"] != g2["enters"]:
        classes.add("one_misses")
    if g1["enters"] and g2["enters"]:
        classes.add("both_enter")
    rec.case(case, nontrivial="resolved" in classes, classes=classes)


# ---------------------------------------------------------------------------

PROPERTY = Property(
    "C15", "Earth density and slant depth equal the reference profile and its line integral",
    [
        SubCheck("density_scalar", density_scalar_cases(), check_density_scalar,
                 quick=3000, thorough=150000,
                 rule="model x 1-8 radii (uniform in [-0.1R,1.2R], shell radii +-{0,1ulp,1m}, 0, "
                      "negative, outside, ints) passed as float / np.float64 / int / 0-d array; "
                      "non-trivial = a radius on or 1 ulp from a shell or the centre, or radii of "
                      ">=2 of inside/outside/negative",
                 floors={"on_shell": 0.2, "ulp_from_shell": 0.18, "outside": 0.2,
                         "negative": 0.2, "centre": 0.05}),
        SubCheck("density_array", density_array_cases(), check_density_array,
                 quick=3000, thorough=150000,
                 rule="model x radii in a list / tuple / 1-d / 2-d / 0-d / int / strided array; "
                      "shape kept, each entry equals table and scalar call; non-trivial = >=2 radii "
                      "with mixed regions or a shell-boundary radius",
                 floors={"on_shell": 0.25, "container=2d": 0.05, "container=int_array": 0.05,
                         "outside": 0.25}),
        SubCheck("slant_reference", slant_cases(), check_slant_reference,
                 quick=3000, thorough=150000,
                 rule="model x endpoint (depth 0-3 km, |x|,|y|<=1e5) x direction (isotropic, "
                      "vertical, horizontal, tangent, grazing a shell, any length) x step 5-5000 m "
                      "(int/float/default, raised so that <=2e4 nodes): X and X(step/8) against the "
                      "quadrature integral within the bounded-variation trapezoid bound; "
                      "non-trivial = chord enters the Earth and crosses >=1 shell boundary",
                 floors={"tangential": 0.05, "vertical": 0.05, "shorter_than_step": 0.02,
                         "crosses_shell": 0.15, "starts_outside": 0.03, "grazes_shell": 0.04,
                         "nonunit": 0.15, "miss": 0.03}),
        SubCheck("slant_zero", zero_cases(), check_slant_zero, quick=3000, thorough=150000,
                 rule="chords built to miss (surface point going up, outside point going away, "
                      "outside point with impact parameter > R) must give exactly 0; chords with "
                      ">=4 steps inside must be > 0 and inside a crude rho_min/rho_max bracket; "
                      "non-trivial = all constructed kinds except plain inside points",
                 floors={"no_entry": 0.2, "earth_behind": 0.05, "enters_4steps": 0.15}),
        SubCheck("slant_invariance", invariance_cases(), check_slant_invariance,
                 quick=2400, thorough=120000,
                 rule="same chord given with the direction scaled (1e-9..1e9), with endpoint and "
                      "direction rotated about the polar axis, with the direction rotated about the "
                      "local vertical, and as tuple/ndarray; non-trivial = slant depth > 100x the "
                      "allowed difference",
                 floors={"resolving": 0.25, "offset_xy": 0.3, "scale>100x": 0.15}),
        SubCheck("slant_monotone", monotone_cases(), check_slant_monotone,
                 quick=2400, thorough=120000,
                 rule="one endpoint, two directions at zenith angles a1<a2 from the local vertical "
                      "(same or different azimuth): X(a2) >= X(a1) up to both discretisation "
                      "bounds, strictly greater when the reference gap exceeds twice their sum; "
                      "non-trivial = gap resolved",
                 floors={"resolved": 0.2, "both_enter": 0.2}),
    ],
    assumptions=[
        "shell membership is half-open [lower, upper) as documented in pyrex; density is required "
        "to be exactly 0 for r < 0 and r >= R",
        "discretisation error is judged against 100*h*V/2*1.05 with h = L/(ceil(L/step)-1), the node "
        "spacing pyrex derives from step (up to 2*step); a chord not longer than one step may be "
        "lost entirely (error <= 100*rho_max*step)",
        "lines whose impact parameter is within 1e-5 m of the Earth radius are only bounded, not "
        "decided (entering or not is a rounding question)",
        "steps are raised so that the coarse integration has at most 2e4 nodes (step >= L/2e4): "
        "steps of 5 m are exercised on chords up to 100 km only",
        "NaN/inf radii, zero-length directions and endpoints deeper than 3 km are not generated",
    ],
    design_ref="3/C15",
)
