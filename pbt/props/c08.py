"""C08 - antenna response: linear, rotation-covariant, field / antenna factor (DESIGN 3/C08).

Observed at ``antenna.apply_response(...)`` and ``antenna.receive(...); antenna.signals[-1]``
for harness-defined ``Antenna`` subclasses, ``DipoleAntenna`` and ``AntennaSystem`` wrappers.

Oracles (none of them uses pyrex's route: transformation matrix -> arccos/arctan2 ->
gain, scipy.fft of the mirrored response):

* the harness antenna ``HAntenna`` has gains that are *polynomials of the Cartesian
  components* of the arrival direction / polarization in the antenna frame; the oracle
  evaluates the same polynomials on components obtained by plain dot products with the
  frame the case was built from (theta = angle(z_ant, -d), phi = atan2 never appear);
  the (theta, phi) and polarization vectors pyrex hands to the gain functions are logged
  and converted back to a unit vector for comparison;
* the frequency-filtered signal is the definition: DFT of the signal zero-padded to 2N
  (direct O(N^2) matrix, numpy.fft above 2N = 128) times the response at the signed bin
  frequencies (force_real: response at |f|, conjugated for f < 0), real part, first N;
* dipole: sin(theta) = |axis x direction|, polarization gain = p.axis, H(s) =
  B s / (s^2 + B s + w_lo w_hi) of the first-order analog Butterworth band-pass,
  antenna factor 1 / effective height (default c / (2 f0));
* metamorphic: linearity, common rotation + arbitrary translation, AntennaSystem against
  an identically built bare twin, re-orientation against direct construction.

Tolerances.  Filtering: |y_k| <= sum|x| * max|H| =: bound, and the rounding error of one
forward/inverse transform pair of length <= 128 (direct) or <= 1024 (FFT) is below
1e-13 * bound; TOL_FFT = 1e-11 of that bound is used.  Direction: pyrex forms
``position - d`` and subtracts ``position`` again (absolute error of the unit vector
~ eps * (1 + |position|)) and takes arccos(z / r), which loses half of the digits at the
poles; ``_du_tol`` bounds the resulting error of the unit vector by
lin + 2 lin / max(sin(theta), sqrt(lin)), lin = 16 eps (1 + |position|); gains inherit it
through their Lipschitz constants (sum of |coefficients|).
"""

import math

import numpy as np
from hypothesis import strategies as st

from pyrex.antenna import Antenna, DipoleAntenna
from pyrex.detector import AntennaSystem
from pyrex.signals import EmptySignal, FunctionSignal, Signal

from ..core import Property, SubCheck, Violation, require
from .. import gens
from ..gens import floats, log_floats

EPS = 2.220446049250313e-16
C_LIGHT = 299792458.0
TOL_FFT = 1e-11
TINY = 1e-290          # absolute term of every tolerance: responses that underflow (exp(-700))
TYPE_VALUES = {"undefined": 0, "unknown": 0, "voltage": 1, "field": 2, "power": 3}
KEY_COMPLEX_FUNCTION = "complex gain x FunctionSignal: imaginary part of the gain dropped"


# ---------------------------------------------------------------------------
# small helpers


def _c(v):
    """JSON number or [re, im] -> python float / complex."""
    if isinstance(v, (list, tuple)):
        return complex(v[0], v[1])
    return float(v)


def _vec(v, style):
    v = [float(c) for c in v]
    if style == "tuple":
        return tuple(v)
    if style == "array":
        return np.array(v)
    return v


def _unit(v):
    v = np.asarray(v, dtype=float)
    return v / math.sqrt(float(v[0] * v[0] + v[1] * v[1] + v[2] * v[2]))


def _axes(fr):
    """Orthonormal right-handed frame (x, y, z) of the case as global vectors."""
    m = gens.quat_matrix(fr["q"])
    return m[:, 0].copy(), m[:, 1].copy(), m[:, 2].copy()


def _to_global(axes, local):
    return local[0] * axes[0] + local[1] * axes[1] + local[2] * axes[2]


def _components(axes, v):
    return [float(np.dot(v, a)) for a in axes]


def _du_tol(sin_theta, posmag):
    lin = 16 * EPS * (1.0 + posmag)
    return lin + 2 * lin / max(sin_theta, math.sqrt(lin))


# ---------------------------------------------------------------------------
# harness-defined gains / response (inputs of the code under test, also evaluated
# by the oracle on its own arguments)


def _dir_poly(c, u):
    ux, uy, uz = u
    return (c[0] + c[1] * ux + c[2] * uy + c[3] * uz + c[4] * ux * uy + c[5] * uy * uz)


def _pol_poly(c, p):
    return c[0] + c[1] * p[0] + c[2] * p[1] + c[3] * p[2]


def _lip(c):
    return float(sum(abs(v) for v in c[1:]))


def _response(spec, f, dt):
    """Vectorised complex response of the harness antenna at signed frequencies f."""
    f = np.asarray(f, dtype=float)
    fn = 0.5 / dt
    fam, p, g = spec["fam"], spec["p"], _c(spec["g"])
    if fam == "one":
        return np.ones(len(f))
    if fam == "const":
        return np.full(len(f), complex(g))
    if fam == "lowpass":
        return g / (1 + 1j * f / (p[0] * fn))
    if fam == "highpass":
        x = 1j * f / (p[0] * fn)
        return g * x / (1 + x)
    if fam == "delay":
        return g * np.exp(-2j * math.pi * f * (p[0] * dt))
    if fam == "gauss":      # centred on a signed frequency: not Hermitian
        return g * np.exp(-((f - p[0] * fn) / (p[1] * fn)) ** 2)
    if fam == "onesided":
        return np.where(f >= 0, complex(g), complex(p[0], p[1]))
    if fam == "poly":
        return g * (1 + complex(p[0], p[1]) * f / fn)
    raise ValueError(fam)


HERMITIAN = {"one", "lowpass", "highpass", "delay"}


class HAntenna(Antenna):
    """Antenna with polynomial gains in antenna-frame components; logs its calls."""

    def __init__(self, position, z_axis, x_axis, antenna_factor, efficiency,
                 dg, pg, resp, dt):
        super().__init__(position=position, z_axis=z_axis, x_axis=x_axis,
                         antenna_factor=antenna_factor, efficiency=efficiency,
                         noisy=False)
        self.dg = [_c(v) for v in dg]
        self.pg = [_c(v) for v in pg]
        self.resp = resp
        self.resp_dt = dt
        self.calls = {"dir": [], "pol": [], "freq": 0}

    def directional_gain(self, theta, phi):
        theta, phi = float(theta), float(phi)
        self.calls["dir"].append((theta, phi))
        s = math.sin(theta)
        return _dir_poly(self.dg, (s * math.cos(phi), s * math.sin(phi), math.cos(theta)))

    def polarization_gain(self, polarization):
        p = np.array(polarization, dtype=float)
        self.calls["pol"].append(p.tolist())
        y_axis = np.cross(self.z_axis, self.x_axis)
        return _pol_poly(self.pg, (float(np.dot(p, self.x_axis)), float(np.dot(p, y_axis)),
                                   float(np.dot(p, self.z_axis))))

    def frequency_response(self, frequencies):
        self.calls["freq"] += 1
        return _response(self.resp, frequencies, self.resp_dt)


def _h_kwargs(ant, dt, axes=None, position=None):
    fr = ant["frame"]
    ax = _axes(fr) if axes is None else axes
    pos = ant["pos"] if position is None else position
    return dict(position=_vec(pos, ant["pos_style"]),
                z_axis=_vec(fr["zs"] * ax[2], fr["style"]),
                x_axis=_vec(fr["xs"] * ax[0], fr["style"]),
                antenna_factor=ant["af"], efficiency=ant["eff"],
                dg=ant["dg"], pg=ant["pg"], resp=ant["resp"], dt=dt)


def _dipole_params(ant, dt):
    f0 = ant["fc_rel"] * 0.5 / dt
    bw = 2.0 * ant["bw_rel"] * f0
    heff = ant["heff"]
    return f0, bw, heff


def _build_dipole(ant, dt, axes=None, position=None):
    f0, bw, heff = _dipole_params(ant, dt)
    fr = ant["frame"]
    ax = _axes(fr) if axes is None else axes
    pos = ant["pos"] if position is None else position
    np.random.seed(ant["seed"])
    return DipoleAntenna(name="dip", position=_vec(pos, ant["pos_style"]),
                         center_frequency=f0, bandwidth=bw, temperature=300.0,
                         resistance=100.0, orientation=_vec(fr["zs"] * ax[2], fr["style"]),
                         trigger_threshold=ant["thr"], effective_height=heff, noisy=False)


def _build(ant, dt, axes=None, position=None):
    if ant["kind"] == "dipole":
        return _build_dipole(ant, dt, axes, position)
    return HAntenna(**_h_kwargs(ant, dt, axes, position))


def _butter(ant, dt):
    """Analytic first-order Butterworth band-pass of the dipole, as a function of f."""
    f0, bw, _ = _dipole_params(ant, dt)
    w_lo = 2 * math.pi * (f0 - bw / 2)
    w_hi = 2 * math.pi * (f0 + bw / 2)
    band, w0sq = w_hi - w_lo, w_lo * w_hi

    def h(f):
        w = 2 * math.pi * np.asarray(f, dtype=float)
        return 1j * w * band / (w0sq - w * w + 1j * w * band)
    return h


# ---------------------------------------------------------------------------
# the oracle model of one antenna


class Model:
    """Expected gains of the antenna described by `ant` (axes may be overridden)."""

    def __init__(self, ant, dt, axes=None, position=None):
        self.ant = ant
        self.dt = dt
        self.axes = _axes(ant["frame"]) if axes is None else axes
        pos = ant["pos"] if position is None else position
        self.posmag = math.sqrt(sum(float(c) ** 2 for c in pos))
        if ant["kind"] == "dipole":
            f0, _, heff = _dipole_params(ant, dt)
            self.heff = C_LIGHT / f0 / 2 if heff is None else heff
            self.af, self.eff = 1.0 / self.heff, 1.0
            self.hfun = _butter(ant, dt)
        else:
            self.af, self.eff = float(ant["af"]), float(ant["eff"])
            self.hfun = lambda f: _response(ant["resp"], f, dt)

    def dir_gain(self, d_global):
        """(gain, tolerance, u, sin_theta); direction None -> gain 1."""
        if d_global is None:
            return 1.0, 0.0, None, None
        dh = _unit(d_global)
        u = [-c for c in _components(self.axes, dh)]
        s = math.sqrt(u[0] * u[0] + u[1] * u[1])
        du = _du_tol(s, self.posmag)
        if self.ant["kind"] == "dipole":
            # |axis x direction|, no inverse trigonometric function involved
            cr = np.cross(self.axes[2], dh)
            return math.sqrt(float(np.dot(cr, cr))), du, u, s
        c = [_c(v) for v in self.ant["dg"]]
        return _dir_poly(c, u), 2 * _lip(c) * du, u, s

    def pol_gain(self, p_global):
        if p_global is None:
            return 1.0, 0.0, None
        ph = _unit(p_global)
        comp = _components(self.axes, ph)
        if self.ant["kind"] == "dipole":
            return comp[2], 8 * EPS, ph
        c = [_c(v) for v in self.ant["pg"]]
        return _pol_poly(c, comp), 8 * EPS * (abs(c[0]) + _lip(c)), ph

    def factor(self, d_global, p_global, vtype):
        gd, td, _, _ = self.dir_gain(d_global)
        gp, tp, _ = self.pol_gain(p_global)
        scale = self.eff / self.af if vtype == "field" else self.eff
        fac = gd * gp * scale
        tol = (td * abs(gp) + abs(gd) * tp + td * tp) * abs(scale)
        return fac, tol

    def hmax(self, n):
        # (with force_real the response is looked up at |f|: a response that is not even in f -
        # a Gaussian centred on a positive frequency - is larger there than at the signed bins)
        f = _bin_freqs(2 * n, self.dt)
        return float(max(np.max(np.abs(self.hfun(f))), np.max(np.abs(self.hfun(np.abs(f))))))


# ---------------------------------------------------------------------------
# reference filter (definition of the zero-padded, frequency-domain filter)

_DFT_CACHE = {}


def _dft_matrix(n2):
    if n2 not in _DFT_CACHE:
        k = np.arange(n2)
        _DFT_CACHE[n2] = np.exp(-2j * math.pi * np.outer(k, k) / n2)
    return _DFT_CACHE[n2]


def _bin_freqs(n2, dt):
    k = np.arange(n2, dtype=float)
    return np.where(k < n2 / 2, k, k - n2) / (n2 * dt)


def ref_filter(x, dt, hfun, force_real):
    x = np.asarray(x, dtype=float)
    n = len(x)
    n2 = 2 * n
    f = _bin_freqs(n2, dt)
    if force_real:
        h = np.asarray(hfun(np.abs(f)), dtype=complex)
        h = np.where(f < 0, np.conj(h), h)
    else:
        h = np.asarray(hfun(f), dtype=complex)
    xp = np.concatenate((x, np.zeros(n)))
    if n2 <= 128:
        # direct O(N^2) sums (element-wise, no BLAS)
        w = _dft_matrix(n2)
        spec = (w[:, :n] * xp[:n]).sum(axis=1)
        y = (np.conj(w[:n, :]) * (h * spec)).sum(axis=1) / n2
        return np.real(y)
    else:
        y = np.fft.ifft(h * np.fft.fft(xp))
    return np.real(y[:n])


# ---------------------------------------------------------------------------
# signals


def _values(vs, n):
    if vs["mode"] == "list":
        x = np.array(vs["v"], dtype=float)
    else:
        i = np.arange(n, dtype=float)
        x = np.full(n, float(vs["dc"]))
        for idx, amp in vs["impulses"]:
            x[int(idx) % n] += amp
        for cyc, amp, ph in vs["tones"]:
            x += amp * np.sin(2 * math.pi * cyc * i / n + ph)
    if len(x) != n:
        raise ValueError("value list does not match the grid")
    return x * float(vs["scale"])


def _sig_values(sig):
    """The sample values the signal spec stands for (harness side)."""
    n = sig["grid"]["n"]
    if sig["kind"] == "empty":
        return np.zeros(n)
    x = _values(sig["values"], n)
    if sig["kind"] == "int":
        x = np.rint(x)
    return x


def _table_function(t0, dt, x):
    x = np.asarray(x, dtype=float)

    def samples(t):
        idx = np.rint((np.asarray(t, dtype=float) - t0) / dt).astype(np.int64)
        ok = (idx >= 0) & (idx < len(x))
        return np.where(ok, x[np.clip(idx, 0, len(x) - 1)], 0.0)
    return samples


def _type_arg(name, style):
    if name == "none":
        return None
    if style == "str":
        return name
    if style == "int":
        return TYPE_VALUES[name]
    return getattr(Signal.Type, name)


def _make_signal(kind, times, x, vtype):
    if kind == "sampled":
        return Signal(np.array(times), np.array(x, dtype=float), vtype)
    if kind == "int":
        return Signal(np.array(times), np.array([int(v) for v in x]), vtype)
    if kind == "lists":
        return Signal([float(t) for t in times], [float(v) for v in x], vtype)
    if kind == "function":
        return FunctionSignal(np.array(times),
                              _table_function(float(times[0]), float(times[1] - times[0]), x),
                              vtype)
    if kind == "empty":
        return EmptySignal(np.array(times), vtype)
    raise ValueError(kind)


def _signal(sig, x=None, type_name=None):
    times = gens.build_times(sig["grid"])
    x = _sig_values(sig) if x is None else x
    vt = _type_arg(sig["type"] if type_name is None else type_name, sig["type_style"])
    return _make_signal(sig["kind"], times, x, vt), times, np.asarray(x, dtype=float)


def _snapshot(s):
    return (np.array(s.times), np.array(s.values), np.asarray(s.values).dtype, s.value_type)


def _require_unmodified(s, snap, what):
    require(np.array_equal(np.asarray(s.times), snap[0]), "%s: times of the input signal changed", what)
    v = np.asarray(s.values)
    require(v.dtype == snap[2] and np.array_equal(v, snap[1]),
            "%s: values of the input signal changed: %r -> %r", what, snap[1].tolist()[:8],
            v.tolist()[:8])
    require(s.value_type == snap[3], "%s: value_type of the input signal changed to %r",
            what, s.value_type)


def _out_values(out, times, what, allow_complex=False, source=None):
    require(isinstance(out, Signal), "%s returned %r, not a Signal", what, type(out))
    require(out.value_type == Signal.Type.voltage, "%s has value_type %r, expected voltage",
            what, out.value_type)
    t = np.asarray(out.times)
    require(t.shape == times.shape and np.array_equal(t, times), "%s: times differ from the input", what)
    y = np.asarray(out.values)
    require(y.shape == times.shape, "%s: values have shape %r, expected %r", what, y.shape, times.shape)
    if not allow_complex:
        require(np.isrealobj(y), "%s: values have dtype %r with real gains", what, y.dtype)
    require(bool(np.all(np.isfinite(y))), "%s: non-finite values", what)
    if source is not None:
        require(out is not source, "%s returned the input object", what)
        require(not np.shares_memory(t, np.asarray(source.times)), "%s shares its times with the input", what)
        if not isinstance(source, FunctionSignal):
            require(not np.shares_memory(y, np.asarray(source.values)),
                    "%s shares its values with the input", what)
    return np.array(y)


def _dir_global(axes, d):
    if d is None:
        return None, None
    g = -float(d["scale"]) * _to_global(axes, d["u"])
    return g, _vec(g, d["style"])


def _pol_global(axes, p):
    if p is None:
        return None, None
    g = float(p["scale"]) * _to_global(axes, p["u"])
    return g, _vec(g, p["style"])


def _apply(obj, sig, d, p, fr, call):
    if call == "pos":
        return obj.apply_response(sig, d, p, fr)
    return obj.apply_response(signal=sig, direction=d, polarization=p, force_real=fr)


def _maxdiff(a, b):
    return float(np.max(np.abs(np.asarray(a) - np.asarray(b)))) if len(a) else 0.0


# ---------------------------------------------------------------------------
# strategies

VEC_STYLES = ["list", "tuple", "array"]
SCALES = [1.0, 1.0, 1.0, 2.0, 0.5, 1e-3, 37.0, 1e4]

# Strategy objects are built once (module level) and combined with tuples / fixed_dictionaries / map:
# re-creating them inside @composite functions costs more than running the checks.
S_STYLE = st.sampled_from(VEC_STYLES)
S_SCALE = st.sampled_from(SCALES)
S_BOOL = st.booleans()
S_CALL = st.sampled_from(["kw", "pos"])
S_F1 = floats(-1.0, 1.0)
S_F2 = floats(-2.0, 2.0)


def _ident(v):
    return v


def _weighted(*pairs):
    """one_of with integer weights (one_of drops repeated branches, hence the distinct mapped copies)."""
    out = []
    for strat, w in pairs:
        out.append(strat)
        out.extend(strat.map(_ident) for _ in range(w - 1))
    return st.one_of(*out)


def _frac(k, m):
    """Low-discrepancy value in [0, 1) from an integer (Hypothesis favours 0, +-1 when drawing floats,
    which would put most 'isotropic' directions on an axis; exact axes have their own branch)."""
    x = (k + 1) * m
    return x - math.floor(x)


S_K = st.integers(0, 2 ** 20)


def _iso(t):
    cz, ph = 2 * _frac(t[0], 0.6180339887498949) - 1, 2 * math.pi * _frac(t[1], 0.7548776662466927)
    s = math.sqrt(max(0.0, 1 - cz * cz))
    return [s * math.cos(ph), s * math.sin(ph), cz]


def _axis(t):
    v = [0.0, 0.0, 0.0]
    v[t[0]] = t[1]
    return v


def _near(t):
    v, ax, sg, eps = t
    w = [eps * c for c in v]
    w[ax] += sg
    n = math.sqrt(sum(c * c for c in w))
    return [c / n for c in w]


S_ISO = st.tuples(S_K, S_K).map(_iso)
S_AXIS = st.tuples(st.integers(0, 2), st.sampled_from([1.0, -1.0])).map(_axis)
S_NEAR = st.tuples(S_ISO, st.integers(0, 2), st.sampled_from([1.0, -1.0]),
                   st.sampled_from([1e-9, 1e-6, 1e-3])).map(_near)
# same mixture as gens.unit_vectors(): isotropic, exactly on an axis, 1e-9 .. 1e-3 off an axis
S_UNITV = _weighted((S_ISO, 3), (S_AXIS, 1), (S_NEAR, 1))


def _norm_q(t):
    q = [2 * _frac(k, m) - 1 for k, m in zip(t, (0.6180339887498949, 0.7548776662466927,
                                                 0.5698402909980532, 0.8191725133961645))]
    n = math.sqrt(sum(c * c for c in q))
    if n < 1e-3:
        return [1.0, 0.0, 0.0, 0.0]
    return [c / n for c in q]


def _quarter(t):
    ax, k = t
    q = [math.cos(k * math.pi / 4), 0.0, 0.0, 0.0]
    q[1 + ax] = math.sin(k * math.pi / 4)
    return q


S_QRAND = st.tuples(S_K, S_K, S_K, S_K).map(_norm_q)
# same mixture as gens.quaternions(): random rotations and exact quarter / half turns about an axis
S_QUAT = _weighted((S_QRAND, 3), (st.tuples(st.integers(0, 2), st.integers(1, 3)).map(_quarter), 1))

S_FRAME = st.fixed_dictionaries(dict(q=S_QUAT, zs=S_SCALE, xs=S_SCALE, style=S_STYLE))
S_POSITION = _weighted(
    (st.just([0.0, 0.0, 0.0]), 1),
    (st.tuples(floats(-500.0, 500.0), floats(-500.0, 500.0), floats(-3000.0, 0.0)).map(list), 2),
    (st.tuples(floats(-1e4, 1e4), floats(-1e4, 1e4), floats(-3000.0, 0.0)).map(list), 1))
# a vector given by its antenna-frame unit vector, a length and a container style
S_VECTOR = st.fixed_dictionaries(dict(u=S_UNITV, scale=S_SCALE, style=S_STYLE))
S_VECTOR_OPT = _weighted((S_VECTOR, 7), (st.none(), 1))


S_GRID = gens.grids(min_n=2, max_n=48)
S_T0 = st.sampled_from([None, None, None, 1e3, -1e3, 1e6, -777.7, 0.1, -33.3])


def _grid_fix(t):
    g, k = t
    if k is not None:
        g = dict(g, t0=g["dt"] * k)
    return g


def grid_specs():
    return st.tuples(S_GRID, S_T0).map(_grid_fix)


S_VSCALE = st.sampled_from([1.0, 1.0, 1e-6, 1e6, 37.5])
S_DC = st.sampled_from([0.0, 0.0, 1.0, -3.5])
S_MODE = st.integers(0, 2)
S_F10 = floats(-10.0, 10.0)
S_F100 = floats(-100.0, 100.0)
S_TONES = st.lists(st.tuples(floats(0.0, 0.5), floats(-5.0, 5.0), floats(0.0, 6.283)).map(list),
                   min_size=0, max_size=2)
S_IMPULSES = st.lists(st.tuples(st.integers(0, 47), S_F10).map(list), min_size=1, max_size=3)


@st.composite
def value_specs(draw, n):
    scale = draw(S_VSCALE)
    if n <= 16 and draw(S_MODE) > 0:
        return dict(mode="list", v=draw(st.lists(S_F100, min_size=n, max_size=n)), scale=scale)
    # impulses at (index mod n), tones given in cycles per sample
    return dict(mode="synth", impulses=draw(S_IMPULSES),
                tones=[[c * n, a, ph] for c, a, ph in draw(S_TONES)], dc=draw(S_DC), scale=scale)


S_TYPE_STYLE = st.sampled_from(["enum", "enum", "str", "int"])
_KIND_ST = {}


def _sampled(options):
    key = tuple(options)
    if key not in _KIND_ST:
        _KIND_ST[key] = st.sampled_from(list(options))
    return _KIND_ST[key]


@st.composite
def signal_specs(draw, grid=None, kinds=("sampled", "sampled", "int", "lists", "function", "empty"),
                 types=("voltage", "field")):
    g = draw(grid_specs()) if grid is None else grid
    kind = draw(_sampled(kinds))
    spec = dict(kind=kind, grid=g, type=draw(_sampled(types)), type_style=draw(S_TYPE_STYLE))
    if kind != "empty":
        spec["values"] = draw(value_specs(g["n"]))
    return spec


S_GAIN_G = st.tuples(S_F2, st.one_of(st.sampled_from([0.0, 0.0, 1.0]), S_F2)).map(list)
S_PAIR2 = st.tuples(S_F2, S_F2).map(list)


def _resp(fam, p_strategy):
    return st.fixed_dictionaries(dict(fam=st.just(fam), p=p_strategy, g=S_GAIN_G))


S_RESPONSE = st.one_of(
    _resp("one", st.just([])), _resp("const", st.just([])),
    _resp("lowpass", st.tuples(log_floats(0.02, 2.0)).map(list)),
    _resp("highpass", st.tuples(log_floats(0.02, 2.0)).map(list)),
    _resp("delay", st.tuples(st.one_of(st.sampled_from([0.0, 1.0, 2.0, 3.0]), floats(0.0, 8.0))).map(list)),
    _resp("gauss", st.tuples(S_F1, log_floats(0.05, 2.0)).map(list)),
    _resp("onesided", S_PAIR2), _resp("poly", S_PAIR2))


S_AF = st.one_of(st.sampled_from([1.0, 2.0, 0.5]), log_floats(1e-3, 1e3))
S_EFF = st.one_of(st.sampled_from([1.0, 0.5]), floats(0.05, 2.0))


def _h_strategy(cplx):
    num = S_PAIR2 if cplx else S_F2
    dg = st.lists(num, min_size=6, max_size=6)
    pg = st.lists(num, min_size=4, max_size=4)
    if not cplx:
        # one antenna in ten has the base class's unit gains
        dg = _weighted((dg, 9), (st.just([1.0, 0.0, 0.0, 0.0, 0.0, 0.0]), 1))
        pg = _weighted((pg, 9), (st.just([1.0, 0.0, 0.0, 0.0]), 1))
    return st.fixed_dictionaries(dict(kind=st.just("H"), pos=S_POSITION, pos_style=S_STYLE, frame=S_FRAME,
                                      af=S_AF, eff=S_EFF, dg=dg, pg=pg, resp=S_RESPONSE))


S_H = _h_strategy(False)
S_H_COMPLEX = _h_strategy(True)
S_DIPOLE = st.fixed_dictionaries(dict(
    kind=st.just("dipole"), pos=S_POSITION, pos_style=S_STYLE, frame=S_FRAME,
    fc_rel=floats(0.05, 0.9), bw_rel=floats(0.02, 0.95),
    heff=st.one_of(st.none(), log_floats(1e-2, 10.0)),
    thr=st.sampled_from([0.0, 1e-3, 1.0]), seed=gens.seeds32))
S_ANY_ANTENNA = _weighted((S_H, 2), (S_DIPOLE, 1))


def _is_identity(q):
    return abs(abs(q[0]) - 1.0) < 1e-12


def _generic_dir(d):
    return d is not None and max(abs(c) for c in d["u"]) < 0.999


# ---------------------------------------------------------------------------
# 1. reference: apply_response == filtered x gains x efficiency (/ antenna factor)


def reference_cases():
    return st.fixed_dictionaries(dict(ant=S_H, sig=signal_specs(), dir=S_VECTOR_OPT, pol=S_VECTOR_OPT,
                                      force_real=S_BOOL, call=S_CALL))


def _check_logged(ant_obj, model, d_glob, p_glob, what):
    """(theta, phi) and polarization handed to the gain functions, recomputed by dot products."""
    if d_glob is None:
        require(not ant_obj.calls["dir"], "%s: directional_gain consulted without a direction", what)
    else:
        _, _, u, s = model.dir_gain(d_glob)
        tol = _du_tol(s, model.posmag)
        require(len(ant_obj.calls["dir"]) >= 1, "%s: directional_gain never consulted", what)
        for theta, phi in ant_obj.calls["dir"]:
            # (arctan2(y, x) % 2pi rounds to 2pi itself for y = -1e-17: the closed interval is meant)
            require(0.0 <= theta <= math.pi and 0.0 <= phi <= 2 * math.pi,
                    "%s: angles outside [0,pi] x [0,2pi]: theta=%r phi=%r", what, theta, phi)
            got = (math.sin(theta) * math.cos(phi), math.sin(theta) * math.sin(phi), math.cos(theta))
            err = max(abs(a - b) for a, b in zip(got, u))
            require(err <= tol,
                    "%s: directional_gain got theta=%r phi=%r, i.e. antenna-frame unit vector %r; "
                    "the arrival direction -d has components %r in the antenna frame (tol %.3g)",
                    what, theta, phi, got, u, tol)
    if p_glob is None:
        require(not ant_obj.calls["pol"], "%s: polarization_gain consulted without a polarization", what)
    else:
        ph = _unit(p_glob)
        require(len(ant_obj.calls["pol"]) >= 1, "%s: polarization_gain never consulted", what)
        for p in ant_obj.calls["pol"]:
            require(max(abs(a - b) for a, b in zip(p, ph)) <= 8 * EPS,
                    "%s: polarization_gain got %r, expected the unit vector %r", what, p, ph.tolist())


def check_reference(case, rec):
    ant, sig = case["ant"], case["sig"]
    s, times, x = _signal(sig)
    dt = float(times[1] - times[0])
    a = _build(ant, dt)
    model = Model(ant, dt)
    d_glob, d_arg = _dir_global(model.axes, case["dir"])
    p_glob, p_arg = _pol_global(model.axes, case["pol"])
    snap = _snapshot(s)
    out = _apply(a, s, d_arg, p_arg, case["force_real"], case["call"])
    y = _out_values(out, times, "apply_response", source=s)
    _require_unmodified(s, snap, "apply_response")
    _check_logged(a, model, d_glob, p_glob, "apply_response")
    fac, ftol = model.factor(d_glob, p_glob, sig["type"])
    filt = ref_filter(x, dt, model.hfun, case["force_real"])
    bound = float(np.sum(np.abs(x))) * model.hmax(len(x))
    tol = ftol * bound + TOL_FFT * abs(fac) * bound + TINY
    err = _maxdiff(y, fac * filt)
    require(err <= tol,
            "apply_response differs from filtered signal x gains: max |diff| %.3g > tol %.3g "
            "(type %s, expected factor %r = dir x pol x efficiency%s; got/expected at worst sample %r / %r)",
            err, tol, sig["type"], fac, " / antenna_factor" if sig["type"] == "field" else "",
            float(y[int(np.argmax(np.abs(y - fac * filt)))]),
            float((fac * filt)[int(np.argmax(np.abs(y - fac * filt)))]))
    require(not a.signals, "apply_response stored a signal in the antenna")
    classes = [sig["kind"], sig["type"], "force_real" if case["force_real"] else "not_forced"]
    if case["dir"] is None:
        classes.append("no_direction")
    elif not _generic_dir(case["dir"]):
        classes.append("pole_or_axis")
    if case["pol"] is None:
        classes.append("no_polarization")
    if ant["resp"]["fam"] not in HERMITIAN:
        classes.append("non_hermitian")
    if ant["pos"] != [0.0, 0.0, 0.0]:
        classes.append("displaced")
    live = float(np.max(np.abs(fac * filt))) > 1e3 * tol
    if live:
        classes.append("live")
    nontrivial = (live and case["dir"] is not None and _lip([_c(v) for v in ant["dg"]]) > 0
                  and not _is_identity(ant["frame"]["q"]) and _generic_dir(case["dir"]))
    rec.case(case, nontrivial=nontrivial, classes=classes)


# ---------------------------------------------------------------------------
# 2. rejects: anything but voltage / field is refused, everywhere


def reject_cases():
    return st.fixed_dictionaries(dict(
        ant=S_ANY_ANTENNA, sig=signal_specs(types=("undefined", "unknown", "power", "none")),
        wrap=st.sampled_from(["bare", "bare", "system_class", "system_instance"]),
        method=st.sampled_from(["apply", "receive", "receive_list", "receive_pair"]),
        good_type=st.sampled_from(["voltage", "field"]),
        dir=S_VECTOR_OPT, pol=S_VECTOR, force_real=S_BOOL))


def _wrap(ant, dt, how):
    if how == "bare":
        obj = _build(ant, dt)
        return obj, obj
    if how == "system_instance":
        inner = _build(ant, dt)
        system = AntennaSystem(inner)
        require(system.antenna is inner, "AntennaSystem(instance) does not hold the given antenna")
        return system, inner
    if ant["kind"] == "dipole":
        system = AntennaSystem(DipoleAntenna)
        f0, bw, heff = _dipole_params(ant, dt)
        axes = _axes(ant["frame"])
        np.random.seed(ant["seed"])
        system.setup_antenna(name="dip", position=_vec(ant["pos"], ant["pos_style"]),
                             center_frequency=f0, bandwidth=bw, temperature=300.0, resistance=100.0,
                             orientation=_vec(ant["frame"]["zs"] * axes[2], ant["frame"]["style"]),
                             trigger_threshold=ant["thr"], effective_height=heff, noisy=False)
        require(type(system.antenna) is DipoleAntenna, "setup_antenna built %r", type(system.antenna))
    else:
        system = AntennaSystem(HAntenna)
        system.setup_antenna(**_h_kwargs(ant, dt))
        require(type(system.antenna) is HAntenna, "setup_antenna built %r", type(system.antenna))
    return system, system.antenna


def check_rejects(case, rec):
    ant, sig = case["ant"], case["sig"]
    bad, times, x = _signal(sig)
    good, _, _ = _signal(sig, type_name=case["good_type"])
    dt = float(times[1] - times[0])
    obj, inner = _wrap(ant, dt, case["wrap"])
    axes = _axes(ant["frame"])
    _, d_arg = _dir_global(axes, case["dir"])
    _, p_arg = _pol_global(axes, case["pol"])
    require(bad.value_type in (Signal.Type.undefined, Signal.Type.power),
            "harness: value type %r", bad.value_type)
    method = case["method"]
    what = "%s(%s signal of type %s)" % (method, sig["kind"], sig["type"])
    try:
        if method == "apply":
            obj.apply_response(bad, direction=d_arg, polarization=p_arg, force_real=case["force_real"])
        elif method == "receive":
            obj.receive(bad, direction=d_arg, polarization=p_arg, force_real=case["force_real"])
        elif method == "receive_list":
            obj.receive([bad], direction=d_arg, polarization=[p_arg], force_real=case["force_real"])
        else:
            obj.receive([good, bad], direction=d_arg, polarization=[p_arg, p_arg],
                        force_real=case["force_real"])
    except ValueError:
        pass
    else:
        raise Violation("%s was accepted; only voltage and field inputs may be" % what)
    require(len(inner.signals) == 0, "%s was refused but %d signal(s) were stored",
            what, len(inner.signals))
    # control: the same samples tagged voltage / field are accepted
    if method == "apply":
        out = obj.apply_response(good, direction=d_arg, polarization=p_arg, force_real=case["force_real"])
        _out_values(out, times, "apply_response(control)")
    else:
        obj.receive(good, direction=d_arg, polarization=p_arg, force_real=case["force_real"])
        require(len(inner.signals) == 1, "control receive stored %d signals", len(inner.signals))
        _out_values(inner.signals[-1], times, "received control signal")
    rec.case(case, nontrivial=sig["kind"] != "empty",
             classes=[sig["type"], method, case["wrap"], ant["kind"], sig["kind"], "style_" + sig["type_style"]])


# ---------------------------------------------------------------------------
# 3. linearity


S_COEF_A = st.one_of(st.sampled_from([1.0, -1.0, 0.0]), floats(-3.0, 3.0))
S_COEF_B = st.one_of(st.sampled_from([1.0, -1.0]), floats(-3.0, 3.0))


@st.composite
def linear_cases(draw):
    s1 = draw(signal_specs(kinds=("sampled", "sampled", "function", "lists")))
    s2 = dict(s1, values=draw(value_specs(s1["grid"]["n"])))
    rest = draw(S_LINEAR_REST)
    return dict(rest, s1=s1, s2=s2)


S_LINEAR_REST = st.fixed_dictionaries(dict(ant=S_ANY_ANTENNA, a=S_COEF_A, b=S_COEF_B, dir=S_VECTOR_OPT,
                                           pol=S_VECTOR_OPT, force_real=S_BOOL))


def check_linear(case, rec):
    ant, s1, s2 = case["ant"], case["s1"], case["s2"]
    x1, x2 = _sig_values(s1), _sig_values(s2)
    a_, b_ = float(case["a"]), float(case["b"])
    sig1, times, _ = _signal(s1)
    sig2, _, _ = _signal(s2)
    sig3, _, x3 = _signal(s1, x=a_ * x1 + b_ * x2)
    dt = float(times[1] - times[0])
    a = _build(ant, dt)
    model = Model(ant, dt)
    d_glob, d_arg = _dir_global(model.axes, case["dir"])
    p_glob, p_arg = _pol_global(model.axes, case["pol"])
    ys = []
    for s in (sig1, sig2, sig3):
        out = a.apply_response(s, direction=d_arg, polarization=p_arg, force_real=case["force_real"])
        ys.append(_out_values(out, times, "apply_response"))
    fac, ftol = model.factor(d_glob, p_glob, s1["type"])
    hmax = model.hmax(len(x1))
    # |fac| + ftol: the factor pyrex really applies is only known up to ftol (a dipole hit end-on has
    # expected gain 0, pyrex has sin(pi) = 1.2e-16), and rounding is relative to the applied factor
    bound = ((abs(a_) * float(np.sum(np.abs(x1))) + abs(b_) * float(np.sum(np.abs(x2)))) * hmax
             * (abs(fac) + ftol))
    tol = 4 * TOL_FFT * bound + TINY
    err = _maxdiff(ys[2], a_ * ys[0] + b_ * ys[1])
    require(err <= tol,
            "response not linear: R(%r s1 + %r s2) differs from %r R(s1) + %r R(s2) by %.3g (tol %.3g, "
            "antenna %s, type %s)", a_, b_, a_, b_, err, tol, ant["kind"], s1["type"])
    size = max(float(np.max(np.abs(ys[0]))) * abs(a_), float(np.max(np.abs(ys[1]))) * abs(b_))
    live = size > 1e3 * tol and size > 0
    # independent inputs: s2 not a multiple of s1
    n1, n2 = float(np.dot(x1, x1)), float(np.dot(x2, x2))
    indep = n1 > 0 and n2 > 0 and abs(float(np.dot(x1, x2))) < 0.999 * math.sqrt(n1 * n2)
    rec.case(case, nontrivial=live and indep and a_ != 0 and b_ != 0,
             classes=[ant["kind"], s1["kind"], s1["type"]] + (["live"] if live else [])
             + (["independent"] if indep else []))


# ---------------------------------------------------------------------------
# 4. covariance under a common rotation (and any translation)


def covariance_cases():
    return st.fixed_dictionaries(dict(
        ant=S_ANY_ANTENNA, sig=signal_specs(kinds=("sampled", "sampled", "function")), rot=S_QUAT,
        new_pos=S_POSITION, dir=S_VECTOR, pol=S_VECTOR, force_real=S_BOOL))


def check_covariance(case, rec):
    ant, sig = case["ant"], case["sig"]
    s, times, x = _signal(sig)
    dt = float(times[1] - times[0])
    axes = _axes(ant["frame"])
    rot = gens.quat_matrix(case["rot"])
    axes_r = tuple(rot @ a for a in axes)
    a0 = _build(ant, dt)
    a1 = _build(ant, dt, axes=axes_r, position=case["new_pos"])
    m0 = Model(ant, dt)
    m1 = Model(ant, dt, axes=axes_r, position=case["new_pos"])
    d_glob, d_arg = _dir_global(axes, case["dir"])
    p_glob, p_arg = _pol_global(axes, case["pol"])
    d_rot, p_rot = rot @ d_glob, rot @ p_glob
    y0 = _out_values(a0.apply_response(s, direction=d_arg, polarization=p_arg,
                                       force_real=case["force_real"]), times, "apply_response")
    s_again, _, _ = _signal(sig)
    y1 = _out_values(a1.apply_response(s_again, direction=_vec(d_rot, case["dir"]["style"]),
                                       polarization=_vec(p_rot, case["pol"]["style"]),
                                       force_real=case["force_real"]), times, "apply_response (rotated)")
    fac, t0 = m0.factor(d_glob, p_glob, sig["type"])
    _, t1 = m1.factor(d_rot, p_rot, sig["type"])
    bound = float(np.sum(np.abs(x))) * m0.hmax(len(x))
    tol = (t0 + t1) * bound + 2 * TOL_FFT * abs(fac) * bound + TINY
    err = _maxdiff(y0, y1)
    require(err <= tol,
            "response changed under a common rotation of axes, direction and polarization "
            "(and a move to %r): max |diff| %.3g > tol %.3g; expected factor %r (antenna %s)",
            case["new_pos"], err, tol, fac, ant["kind"])
    size = float(np.max(np.abs(y0)))
    live = size > 1e3 * tol and size > 0
    rotated = not _is_identity(case["rot"])
    rec.case(case, nontrivial=live and rotated and _generic_dir(case["dir"]),
             classes=[ant["kind"]] + (["live"] if live else []) + (["rotated"] if rotated else [])
             + (["pole_or_axis"] if not _generic_dir(case["dir"]) else [])
             + (["moved"] if case["new_pos"] != ant["pos"] else []))


# ---------------------------------------------------------------------------
# 5. dipole: sin(theta), p.axis, Butterworth band-pass, 1 / effective height


def dipole_cases():
    return st.fixed_dictionaries(dict(
        ant=S_DIPOLE, sig=signal_specs(), dir=S_VECTOR_OPT, pol=S_VECTOR_OPT,
        theta=st.one_of(st.sampled_from([0.0, math.pi / 2, math.pi]), floats(0.0, math.pi)),
        phi=floats(0.0, 6.2831),
        freqs=st.lists(log_floats(1e-3, 10.0), min_size=1, max_size=4),
        force_real=S_BOOL, call=S_CALL))


def check_dipole(case, rec):
    ant, sig = case["ant"], case["sig"]
    s, times, x = _signal(sig)
    dt = float(times[1] - times[0])
    a = _build_dipole(ant, dt)
    model = Model(ant, dt)
    f0, bw, _ = _dipole_params(ant, dt)
    zh = model.axes[2]
    # attributes that enter the response
    require(abs(a.antenna_factor * model.heff - 1.0) <= 8 * EPS,
            "dipole antenna_factor %r is not 1 / effective height (%r)", a.antenna_factor, model.heff)
    require(abs(a.effective_height - model.heff) <= 8 * EPS * model.heff,
            "effective_height %r, expected %r (default c / (2 f0))", a.effective_height, model.heff)
    require(a.efficiency == 1, "dipole efficiency %r", a.efficiency)
    require(float(np.max(np.abs(np.asarray(a.z_axis) - zh))) <= 8 * EPS,
            "dipole z_axis %r is not the normalised orientation %r", a.z_axis, zh)
    require(abs(float(np.dot(a.x_axis, a.z_axis))) <= 1e-8 and
            abs(float(np.dot(a.x_axis, a.x_axis)) - 1) <= 8 * EPS,
            "dipole x_axis %r is not a unit vector perpendicular to the orientation", a.x_axis)
    lo, hi = a.freq_range
    require(abs(lo - (f0 - bw / 2)) <= 4 * EPS * f0 and abs(hi - (f0 + bw / 2)) <= 4 * EPS * (f0 + bw),
            "freq_range %r for centre %r and bandwidth %r", (lo, hi), f0, bw)
    # the three gain functions called directly
    th, ph_ = case["theta"], case["phi"]
    g = a.directional_gain(theta=th, phi=ph_)
    require(abs(complex(g) - math.sin(th)) <= 4 * EPS,
            "dipole directional_gain(theta=%r, phi=%r) = %r, expected sin(theta) = %r", th, ph_, g, math.sin(th))
    if case["pol"] is not None:
        pu = _unit(_to_global(model.axes, case["pol"]["u"]))
        gp = a.polarization_gain(pu)
        require(abs(complex(gp) - float(np.dot(pu, zh))) <= 8 * EPS,
                "dipole polarization_gain(%r) = %r, expected the projection on the axis %r",
                pu.tolist(), gp, float(np.dot(pu, zh)))
    fs = np.array([0.0, f0 - bw / 2, f0, f0 + bw / 2] + [f0 * r for r in case["freqs"]])
    for fsign in (fs, -fs[1:]):
        got = np.asarray(a.frequency_response(fsign))
        exp = model.hfun(fsign)
        require(got.shape == exp.shape, "frequency_response returned shape %r", got.shape)
        # scipy builds the polynomial coefficients in floating point: relative 1e-12 of max|H| = 1
        require(_maxdiff(got, exp) <= 1e-12,
                "dipole frequency_response(%r) = %r, first-order Butterworth band-pass (%r .. %r Hz) gives %r",
                fsign.tolist(), got.tolist(), f0 - bw / 2, f0 + bw / 2, exp.tolist())
    # complete response
    d_glob, d_arg = _dir_global(model.axes, case["dir"])
    p_glob, p_arg = _pol_global(model.axes, case["pol"])
    snap = _snapshot(s)
    out = _apply(a, s, d_arg, p_arg, case["force_real"], case["call"])
    y = _out_values(out, times, "dipole apply_response", source=s)
    _require_unmodified(s, snap, "dipole apply_response")
    fac, ftol = model.factor(d_glob, p_glob, sig["type"])
    filt = ref_filter(x, dt, model.hfun, case["force_real"])
    bound = float(np.sum(np.abs(x))) * model.hmax(len(x))
    tol = ftol * bound + TOL_FFT * max(abs(fac), model.heff * EPS) * bound + TINY
    err = _maxdiff(y, fac * filt)
    require(err <= tol,
            "dipole response differs from band-passed signal x sin(theta) x (p.axis)%s: max |diff| %.3g > "
            "tol %.3g (expected factor %r, type %s)",
            " x effective height" if sig["type"] == "field" else "", err, tol, fac, sig["type"])
    # the band-pass is Hermitian: forcing the output real changes nothing
    s2, _, _ = _signal(sig)
    y2 = _out_values(a.apply_response(s2, direction=d_arg, polarization=p_arg,
                                      force_real=not case["force_real"]), times, "dipole apply_response")
    require(_maxdiff(y, y2) <= 2 * TOL_FFT * abs(fac) * bound + TINY,
            "dipole response depends on force_real (max |diff| %.3g)", _maxdiff(y, y2))
    live = float(np.max(np.abs(fac * filt))) > 1e3 * tol
    classes = [sig["type"], sig["kind"], "default_height" if ant["heff"] is None else "given_height"]
    if case["dir"] is None:
        classes.append("no_direction")
    elif not _generic_dir(case["dir"]):
        classes.append("pole_or_axis")
    if live:
        classes.append("live")
    rec.case(case, nontrivial=live and case["dir"] is not None and case["pol"] is not None
             and _generic_dir(case["dir"]), classes=classes)


# ---------------------------------------------------------------------------
# 6. receive: exactly one stored signal = sum of the individually applied responses


S_FORM = st.sampled_from(["bare", "bare", "list1", "pair", "pair", "pair",
                          "count_2_1", "count_1_2", "count_2_3", "count_bare_pol", "times"])
S_RECEIVE_REST = st.fixed_dictionaries(dict(
    ant=S_ANY_ANTENNA, no_pol_draw=st.integers(0, 4), seq=st.sampled_from(["list", "tuple"]),
    pol_seq=st.sampled_from(["list", "tuple", "array"]), dir=S_VECTOR_OPT, force_real=S_BOOL,
    before=st.integers(0, 2), shift=st.sampled_from([1.0 / 3, 1.5, -2.0, 1e-6]),
    wrap=st.sampled_from(["bare", "bare", "system_instance"])))


@st.composite
def receive_cases(draw):
    g = draw(grid_specs())
    form = draw(S_FORM)
    n_sig = 1 if form in ("bare", "list1", "count_1_2", "count_bare_pol") else 2
    sigs = [draw(signal_specs(grid=g)) for _ in range(n_sig)]
    n_pol = {"count_2_1": 1, "count_1_2": 2, "count_2_3": 3}.get(form, n_sig)
    pols = [draw(S_VECTOR) for _ in range(n_pol)]
    rest = draw(S_RECEIVE_REST)
    rest["no_pol"] = form == "bare" and rest.pop("no_pol_draw") == 0
    rest.pop("no_pol_draw", None)
    return dict(rest, form=form, sigs=sigs, pols=pols)


def _pol_container(vectors, how):
    if how == "array":
        return np.array([[float(c) for c in v] for v in vectors])
    if how == "tuple":
        return tuple(vectors)
    return list(vectors)


def check_receive(case, rec):
    ant, form = case["ant"], case["form"]
    times = gens.build_times(case["sigs"][0]["grid"])
    dt = float(times[1] - times[0])
    obj, inner = _wrap(ant, dt, case["wrap"])
    twin = _build(ant, dt)
    model = Model(ant, dt)
    d_glob, d_arg = _dir_global(model.axes, case["dir"])
    # history: some earlier hits
    earlier = []
    for k in range(case["before"]):
        obj.receive(Signal(times, np.full(len(times), 1.0 + k), "voltage"))
        earlier.append((inner.signals[-1], np.array(inner.signals[-1].values)))
    require(len(inner.signals) == case["before"], "%d receive calls stored %d signals",
            case["before"], len(inner.signals))
    built = [_signal(sp) for sp in case["sigs"]]
    if form == "times":
        # second component on a grid displaced by a fraction of a step
        sp = dict(case["sigs"][1], grid=dict(case["sigs"][1]["grid"]))
        sp["grid"]["t0"] = sp["grid"]["t0"] + case["shift"] * sp["grid"]["dt"]
        built[1] = _signal(sp)
        require(not np.array_equal(built[1][1], times), "harness: shifted grid equals the grid")
    sig_objs = [b[0] for b in built]
    snaps = [_snapshot(s) for s in sig_objs]
    pol_glob = [_pol_global(model.axes, p) for p in case["pols"]]
    if form in ("bare", "count_bare_pol"):
        sig_arg = sig_objs[0]
        if form == "count_bare_pol":
            sig_arg = [sig_objs[0]]
        pol_arg = None if case["no_pol"] else pol_glob[0][1]
    else:
        sig_arg = list(sig_objs) if case["seq"] == "list" else tuple(sig_objs)
        pol_arg = _pol_container([pg[1] for pg in pol_glob], case["pol_seq"])
    should_fail = form.startswith("count") or form == "times"
    try:
        obj.receive(sig_arg, direction=d_arg, polarization=pol_arg, force_real=case["force_real"])
    except ValueError:
        require(should_fail, "receive(%s) raised ValueError for matching signals and polarizations", form)
        require(len(inner.signals) == case["before"],
                "refused receive (%s) changed the number of stored signals to %d", form, len(inner.signals))
    else:
        require(not should_fail,
                "receive accepted %s", "components with different times" if form == "times"
                else "%d signal(s) with %d polarization(s)" % (len(sig_objs), len(case["pols"])
                                                               if form != "count_bare_pol" else 3))
        require(len(inner.signals) == case["before"] + 1,
                "one receive call changed the number of stored signals from %d to %d",
                case["before"], len(inner.signals))
        total = _out_values(inner.signals[-1], times, "stored signal")
        expected = np.zeros(len(times))
        by_parts = np.zeros(len(times))
        tol = 0.0
        for (s, _, x), sp, pg in zip(built, case["sigs"], pol_glob):
            p_glob, p_arg = (None, None) if case["no_pol"] else pg
            fac, ftol = model.factor(d_glob, p_glob, sp["type"])
            bound = float(np.sum(np.abs(x))) * model.hmax(len(x))
            expected = expected + fac * ref_filter(x, dt, model.hfun, case["force_real"])
            tol += ftol * bound + TOL_FFT * abs(fac) * bound + TINY
            part = twin.apply_response(_signal(sp)[0], direction=d_arg, polarization=p_arg,
                                       force_real=case["force_real"])
            by_parts = by_parts + _out_values(part, times, "apply_response")
        err = _maxdiff(total, expected)
        require(err <= tol, "stored signal differs from the sum of filtered x gain components: "
                "max |diff| %.3g > tol %.3g (%d component(s))", err, tol, len(built))
        scale = float(np.max(np.abs(by_parts))) if len(by_parts) else 0.0
        require(_maxdiff(total, by_parts) <= 8 * EPS * scale * len(built) + tol * 1e-3,
                "stored signal differs from the sum of the individually applied responses by %.3g",
                _maxdiff(total, by_parts))
    for s, snap in zip(sig_objs, snaps):
        _require_unmodified(s, snap, "receive")
    for k, (old, vals) in enumerate(earlier):
        require(inner.signals[k] is old and np.array_equal(np.asarray(old.values), vals),
                "receive changed the earlier stored signal %d", k)
    kinds = set(sp["kind"] for sp in case["sigs"])
    types = set(sp["type"] for sp in case["sigs"])
    classes = ["form_" + form, ant["kind"], case["wrap"]]
    if len(built) == 2 and not should_fail:
        classes.append("two_components")
        if len(kinds) == 2:
            classes.append("mixed_kinds")
        if len(types) == 2:
            classes.append("mixed_types")
    if should_fail:
        classes.append("refused")
    rec.case(case, nontrivial=(len(built) == 2 or should_fail) and kinds != {"empty"}, classes=classes)


# ---------------------------------------------------------------------------
# 7. AntennaSystem delegates apply_response / receive / set_orientation / trigger unchanged


def system_cases():
    return st.fixed_dictionaries(dict(
        ant=S_ANY_ANTENNA, wrap=st.sampled_from(["system_class", "system_instance"]),
        sig=signal_specs(), dir=S_VECTOR_OPT, pol=S_VECTOR_OPT, force_real=S_BOOL, call=S_CALL,
        new_frame=S_FRAME, orient_call=S_CALL, tilt=st.sampled_from([1e-6, 1e-3, 0.1, 1.0]),
        level=st.sampled_from([0.25, 0.999, 1.001, 4.0])))


def _same(a, b):
    a, b = np.asarray(a), np.asarray(b)
    return a.shape == b.shape and bool(np.all(a == b))


def check_system(case, rec):
    ant, sig = case["ant"], case["sig"]
    s, times, x = _signal(sig)
    dt = float(times[1] - times[0])
    system, inner = _wrap(ant, dt, case["wrap"])
    twin = _build(ant, dt)
    model = Model(ant, dt)
    d_glob, d_arg = _dir_global(model.axes, case["dir"])
    p_glob, p_arg = _pol_global(model.axes, case["pol"])
    fr = case["force_real"]

    def compare(what, axes_model):
        out = _apply(system, _signal(sig)[0], d_arg, p_arg, fr, case["call"])
        ref = twin.apply_response(_signal(sig)[0], direction=d_arg, polarization=p_arg, force_real=fr)
        y = _out_values(out, times, "AntennaSystem.apply_response")
        yr = _out_values(ref, times, "apply_response")
        require(_same(y, yr), "%s: AntennaSystem.apply_response differs from the bare antenna's by %.3g",
                what, _maxdiff(y, yr))
        fac, ftol = axes_model.factor(d_glob, p_glob, sig["type"])
        bound = float(np.sum(np.abs(x))) * axes_model.hmax(len(x))
        tol = ftol * bound + TOL_FFT * abs(fac) * bound + TINY
        err = _maxdiff(y, fac * ref_filter(x, dt, axes_model.hfun, fr))
        require(err <= tol, "%s: AntennaSystem.apply_response differs from filtered signal x gains: "
                "max |diff| %.3g > tol %.3g (factor %r)", what, err, tol, fac)
        return y, tol

    y, tol = compare("as built", model)
    # receive through the system lands in the wrapped antenna, once
    system.receive(_signal(sig)[0], direction=d_arg, polarization=p_arg, force_real=fr)
    require(len(inner.signals) == 1, "AntennaSystem.receive stored %d signals in its antenna", len(inner.signals))
    stored = _out_values(inner.signals[-1], times, "signal stored by AntennaSystem.receive")
    require(_same(stored, y), "AntennaSystem.receive stored a signal that differs from apply_response by %.3g",
            _maxdiff(stored, y))
    # trigger is the antenna's trigger
    peak = float(np.max(np.abs(y))) if len(y) else 0.0
    thr_signal = Signal(times, np.asarray(y, dtype=float) * 1.0, "voltage")
    if ant["kind"] == "dipole" and peak > 0:
        inner.threshold = peak / case["level"]
        twin.threshold = peak / case["level"]
        expect = peak > inner.threshold
    else:
        expect = bool(twin.trigger(thr_signal))
    got = system.trigger(thr_signal)
    require(bool(got) == bool(expect), "AntennaSystem.trigger returned %r, its antenna's condition gives %r "
            "(peak %r, threshold %r)", got, expect, peak, getattr(inner, "threshold", None))
    # re-orientation through the system
    new_axes = _axes(case["new_frame"])
    nf = case["new_frame"]
    z_arg, x_arg = _vec(nf["zs"] * new_axes[2], nf["style"]), _vec(nf["xs"] * new_axes[0], nf["style"])
    if case["orient_call"] == "pos":
        system.set_orientation(z_arg, x_arg)
    else:
        system.set_orientation(x_axis=x_arg, z_axis=z_arg)
    twin.set_orientation(z_axis=z_arg, x_axis=x_arg)
    require(float(np.max(np.abs(np.asarray(inner.z_axis) - new_axes[2]))) <= 8 * EPS and
            float(np.max(np.abs(np.asarray(inner.x_axis) - new_axes[0]))) <= 8 * EPS,
            "AntennaSystem.set_orientation(z=%r, x=%r) left the antenna with z_axis %r, x_axis %r",
            z_arg, x_arg, inner.z_axis, inner.x_axis)
    model2 = Model(ant, dt, axes=new_axes)
    compare("after set_orientation", model2)
    # a tilted x axis is refused through the system as well
    t = case["tilt"]
    bad_x = math.cos(t) * new_axes[0] + math.sin(t) * new_axes[2]
    try:
        system.set_orientation(z_axis=z_arg, x_axis=_vec(nf["xs"] * bad_x, nf["style"]))
    except ValueError:
        pass
    else:
        raise Violation("AntennaSystem.set_orientation accepted an x axis %.3g rad off the perpendicular" % t)
    live = peak > 1e3 * tol and peak > 0
    rec.case(case, nontrivial=live and case["dir"] is not None and _generic_dir(case["dir"]),
             classes=[case["wrap"], ant["kind"], "call_" + case["call"], "orient_" + case["orient_call"]]
             + (["live"] if live else []) + (["force_real"] if fr else [])
             + (["non_hermitian"] if ant["kind"] == "H" and ant["resp"]["fam"] not in HERMITIAN else [])
             + (["trigger_" + ("yes" if expect else "no")]))


# ---------------------------------------------------------------------------
# 8. orientation: axes stored normalised, tilted frames refused, re-orientation == construction


def orientation_cases():
    return st.fixed_dictionaries(dict(
        ant=S_H, frame2=S_FRAME, sig=signal_specs(kinds=("sampled", "function")),
        dir=S_VECTOR, pol=S_VECTOR,
        tilt=st.sampled_from([0.0, 0.0, 1e-6, 1e-4, 1e-2, 0.3, 1.2, -0.5]),
        tilt_toward=st.sampled_from(["x_to_z", "z_to_x"]),
        via=st.sampled_from(["init", "set", "base_init"])))


def check_orientation(case, rec):
    ant, sig = case["ant"], case["sig"]
    s, times, x = _signal(sig)
    dt = float(times[1] - times[0])
    f2 = case["frame2"]
    ax2 = _axes(f2)
    t = case["tilt"]
    z_vec, x_vec = ax2[2], ax2[0]
    if case["tilt_toward"] == "x_to_z":
        x_vec = math.cos(t) * ax2[0] + math.sin(t) * ax2[2]
    else:
        z_vec = math.cos(t) * ax2[2] + math.sin(t) * ax2[0]
    z_arg, x_arg = _vec(f2["zs"] * z_vec, f2["style"]), _vec(f2["xs"] * x_vec, f2["style"])
    kw = _h_kwargs(ant, dt)

    def make():
        if case["via"] == "init":
            return HAntenna(**dict(kw, z_axis=z_arg, x_axis=x_arg))
        if case["via"] == "base_init":
            return Antenna(position=kw["position"], z_axis=z_arg, x_axis=x_arg, noisy=False)
        a = HAntenna(**kw)
        a.set_orientation(z_axis=z_arg, x_axis=x_arg)
        return a

    if t != 0.0:
        try:
            make()
        except ValueError:
            pass
        else:
            raise Violation("axes %.3g rad off the perpendicular accepted (z=%r, x=%r, via %s)"
                            % (t, z_arg, x_arg, case["via"]))
        rec.case(case, nontrivial=True, classes=["tilted", "via_" + case["via"]])
        return
    a = make()
    require(float(np.max(np.abs(np.asarray(a.z_axis) - ax2[2]))) <= 8 * EPS and
            float(np.max(np.abs(np.asarray(a.x_axis) - ax2[0]))) <= 8 * EPS,
            "axes z=%r, x=%r are stored as z_axis %r, x_axis %r, expected the unit vectors %r, %r",
            z_arg, x_arg, a.z_axis, a.x_axis, ax2[2].tolist(), ax2[0].tolist())
    live = False
    if case["via"] != "base_init":
        model = Model(ant, dt, axes=ax2)
        d_glob, d_arg = _dir_global(ax2, case["dir"])
        p_glob, p_arg = _pol_global(ax2, case["pol"])
        y = _out_values(a.apply_response(s, direction=d_arg, polarization=p_arg), times, "apply_response")
        fac, ftol = model.factor(d_glob, p_glob, sig["type"])
        bound = float(np.sum(np.abs(x))) * model.hmax(len(x))
        tol = ftol * bound + TOL_FFT * abs(fac) * bound + TINY
        err = _maxdiff(y, fac * ref_filter(x, dt, model.hfun, False))
        require(err <= tol, "after orientation via %s the response differs from the one of the new frame: "
                "max |diff| %.3g > tol %.3g", case["via"], err, tol)
        live = float(np.max(np.abs(y))) > 1e3 * tol
    else:
        # the base class has unit gains whatever the orientation
        y = _out_values(a.apply_response(s, direction=_dir_global(ax2, case["dir"])[1],
                                         polarization=_pol_global(ax2, case["pol"])[1]),
                        times, "Antenna.apply_response")
        require(_maxdiff(y, x) <= TOL_FFT * float(np.sum(np.abs(x))),
                "base Antenna (unit gains, flat response) changed the signal by %.3g", _maxdiff(y, x))
    rec.case(case, nontrivial=live or case["via"] == "base_init",
             classes=["orthogonal", "via_" + case["via"]] + (["live"] if live else []))


# ---------------------------------------------------------------------------
# 9. complex gains


def complex_cases():
    return st.fixed_dictionaries(dict(
        ant=S_H_COMPLEX, sig=signal_specs(kinds=("sampled", "sampled", "int", "function", "empty")),
        dir=S_VECTOR_OPT, pol=S_VECTOR_OPT, force_real=S_BOOL, via=st.sampled_from(["apply", "receive"])))


def check_complex(case, rec):
    ant, sig = case["ant"], case["sig"]
    s, times, x = _signal(sig)
    dt = float(times[1] - times[0])
    a = _build(ant, dt)
    model = Model(ant, dt)
    d_glob, d_arg = _dir_global(model.axes, case["dir"])
    p_glob, p_arg = _pol_global(model.axes, case["pol"])
    if case["via"] == "apply":
        out = a.apply_response(s, direction=d_arg, polarization=p_arg, force_real=case["force_real"])
    else:
        a.receive(s, direction=d_arg, polarization=p_arg, force_real=case["force_real"])
        require(len(a.signals) == 1, "receive stored %d signals", len(a.signals))
        out = a.signals[-1]
    y = _out_values(out, times, "apply_response (complex gains)", allow_complex=True)
    fac, ftol = model.factor(d_glob, p_glob, sig["type"])
    filt = ref_filter(x, dt, model.hfun, case["force_real"])
    bound = float(np.sum(np.abs(x))) * model.hmax(len(x))
    tol = ftol * bound + TOL_FFT * abs(fac) * bound + TINY
    err = _maxdiff(y, fac * filt)
    require(err <= tol,
            "complex gains: response differs from filtered signal x (dir x pol x efficiency%s) = x %r: "
            "max |diff| %.3g > tol %.3g; |imag part| of result %.3g, of expectation %.3g (%s signal)",
            " / antenna_factor" if sig["type"] == "field" else "", fac, err, tol,
            float(np.max(np.abs(np.imag(y)))), float(np.max(np.abs(np.imag(fac * filt)))), sig["kind"])
    live = float(np.max(np.abs(np.imag(fac * filt)))) > 1e3 * tol
    rec.case(case, nontrivial=live, classes=[sig["kind"], case["via"]] + (["live"] if live else []))


def classify_complex(case, exc):
    try:
        if case["sig"]["kind"] == "function" and isinstance(exc, Violation) and \
                str(exc).startswith("complex gains: response differs"):
            return KEY_COMPLEX_FUNCTION
    except Exception:
        pass
    return None


# ---------------------------------------------------------------------------

PROPERTY = Property(
    "C08", "Antenna response is linear, rotation-covariant, scales fields by antenna factor",
    [
        SubCheck("reference", reference_cases(), check_reference, quick=2400, thorough=120000,
                 rule="harness antenna (random frame, position, factor, efficiency, polynomial gains, complex "
                      "response) x signal (sampled/int/list/function/empty, voltage|field) x direction x "
                      "polarization x force_real; non-trivial = output above 1e3 tol, direction given and "
                      "generic, directional gain not constant, frame not the identity",
                 floors={"field": 0.17, "voltage": 0.3, "function": 0.045, "no_direction": 0.03,
                         "no_polarization": 0.035, "non_hermitian": 0.16, "pole_or_axis": 0.09,
                         "force_real": 0.13, "live": 0.25}),
        SubCheck("rejects", reject_cases(), check_rejects, quick=1600, thorough=80000,
                 rule="undefined/unknown/None/power signal (enum, str, int spelling) x apply_response | receive "
                      "(bare, list, second of a pair) x bare antenna | AntennaSystem; non-trivial = signal "
                      "not an EmptySignal",
                 floors={"power": 0.09, "undefined": 0.19, "none": 0.08, "receive_pair": 0.07,
                         "system_class": 0.06, "system_instance": 0.06, "dipole": 0.15}),
        SubCheck("linearity", linear_cases(), check_linear, quick=1800, thorough=90000,
                 rule="R(a s1 + b s2) = a R(s1) + b R(s2) for harness antennas and dipoles; non-trivial = "
                      "a, b != 0, s1 and s2 not parallel, output above 1e3 tol",
                 floors={"dipole": 0.13, "function": 0.1, "field": 0.2, "live": 0.38, "independent": 0.34}),
        SubCheck("covariance", covariance_cases(), check_covariance, quick=2000, thorough=100000,
                 rule="axes, direction, polarization rotated by one quaternion, antenna moved elsewhere; "
                      "non-trivial = rotation not the identity, direction generic, output above 1e3 tol",
                 floors={"dipole": 0.14, "rotated": 0.5, "live": 0.3, "pole_or_axis": 0.1}),
        SubCheck("dipole", dipole_cases(), check_dipole, quick=1800, thorough=90000,
                 rule="DipoleAntenna (any axis, band, effective height given or default): gain functions, "
                      "Butterworth response and complete response vs analytic model; non-trivial = direction "
                      "and polarization given, direction generic, output above 1e3 tol",
                 floors={"field": 0.2, "default_height": 0.26, "pole_or_axis": 0.11, "live": 0.26}),
        SubCheck("receive", receive_cases(), check_receive, quick=1800, thorough=90000,
                 rule="receive with a bare signal, a 1-list or two polarized components (list/tuple/array "
                      "containers), after 0-2 earlier hits; count and time-grid mismatches must raise; "
                      "non-trivial = two components or a refused call",
                 floors={"two_components": 0.11, "refused": 0.19, "mixed_types": 0.04, "form_times": 0.035}),
        SubCheck("system", system_cases(), check_system, quick=1600, thorough=80000,
                 rule="AntennaSystem(class)+setup_antenna | AntennaSystem(instance) against a bare twin and "
                      "the model: apply_response, receive, trigger, set_orientation (good and tilted); "
                      "non-trivial = direction generic, output above 1e3 tol",
                 floors={"system_class": 0.27, "system_instance": 0.18, "call_pos": 0.18, "force_real": 0.13,
                         "trigger_yes": 0.37, "trigger_no": 0.11, "live": 0.25}),
        SubCheck("orientation", orientation_cases(), check_orientation, quick=1200, thorough=60000,
                 rule="axes given at construction or by set_orientation: stored normalised, tilted pairs "
                      "(1e-6 .. 1.2 rad) refused, response follows the new frame",
                 floors={"tilted": 0.22, "orthogonal": 0.23, "via_set": 0.12}),
        SubCheck("complex_gain", complex_cases(), check_complex, quick=1200, thorough=60000,
                 rule="harness antenna with complex directional / polarization gains; result = filtered "
                      "signal x complex factor; non-trivial = imaginary part of the expectation above 1e3 tol",
                 floors={"live": 0.19}, classify=classify_complex),
    ],
    assumptions=[
        "signals have at least two samples on a uniform grid (a single sample defines no frequencies)",
        "antenna axes are either orthogonal to rounding or at least 1e-6 rad off; the region between "
        "pyrex's 1e-8 acceptance threshold and 1e-6 is not exercised",
        "gains of the harness antenna are polynomials of antenna-frame Cartesian components, so that the "
        "half-precision loss of arccos at the poles enters with a known Lipschitz constant",
        "two-component receive with polarization=None is not exercised (the documentation is ambiguous)",
        "directions and polarizations are non-zero vectors",
    ],
    design_ref="3/C08",
)
