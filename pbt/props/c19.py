"""C19 - detector composition: flattening, addition, triggers, clears, keyword
dispatch, position test (DESIGN 3/C19).

The oracle never uses pyrex's own flattening: the harness generates a *shape
tree* (JSON), realises it as Detector subclasses written here, and derives the
expected flat antenna list by a depth-first walk of that JSON tree, resolving
leaf antennas through the plain ``subsets`` list of each leaf detector (whose
length, order, positions and creation order are validated against the tree).
Hit states of the antennas are decided by construction (signal amplitude and
noise level relative to the trigger threshold are orders of magnitude apart),
so the expected trigger value of any detector is a pure function of the case.
"""

import json

import numpy as np
from hypothesis import strategies as st

from pyrex.antenna import Antenna
from pyrex.detector import AntennaSystem, CombinedDetector, Detector
from pyrex.signals import Signal

from ..core import Property, SubCheck, Violation, require
from .. import gens
from ..gens import floats

# ---------------------------------------------------------------------------
# harness runtime state (reset at the start of every check call)


class _S:
    log = []        # ("build"|"trig", hid, received-kwargs)
    created = []    # antenna-like objects in creation order
    reg = {}        # detector id -> detector object
    pre = {}        # prebuilt antenna id -> object
    labels = {}     # id(obj) -> label


def _reset():
    _S.log = []
    _S.created = []
    _S.reg = {}
    _S.pre = {}
    _S.labels = {}


class _Missing:
    def __repr__(self):
        return "<not passed>"

    def __eq__(self, other):
        return isinstance(other, _Missing)

    def __hash__(self):
        return 7


_M = _Missing()

THRESHOLD = 1.0           # trigger level of every harness antenna (V)
AMP_WEAK, AMP_STRONG = 0.3, 5.0   # received pulse heights: 2 x weak < THRESHOLD < strong
RMS_LOW, RMS_HIGH = 1e-4, 1e3     # thermal noise rms: far below / far above THRESHOLD
CONST_LOW, CONST_HIGH = 1e-3, 3.0  # constant "noise" level of the RNG-free antenna kind
TIMES = np.arange(32) * 1e-9


class HAnt(Antenna):
    """Threshold antenna; accepts (and remembers) any build keyword."""

    def __init__(self, position, **kw):
        super().__init__(position=position, noisy=False,
                         freq_range=(100e6, 400e6), noise_rms=RMS_LOW)
        self.build_kw = dict(kw)
        self.threshold = THRESHOLD
        self.const_noise = None
        _S.created.append(self)

    def trigger(self, signal):
        return bool(np.max(np.abs(signal.values)) > self.threshold)

    def make_noise(self, times):
        if self.const_noise is not None:
            return Signal(times, np.full(len(times), self.const_noise),
                          value_type=Signal.Type.voltage)
        return super().make_noise(times)


class HSys(AntennaSystem):
    """Antenna-like front-end object (has .position like the shipped ones)."""

    def __init__(self, position, **kw):
        super().__init__(HAnt)
        self.setup_antenna(position=position)
        _S.created.pop()          # the inner HAnt; the system is the unit
        self.position = position
        self.build_kw = dict(kw)
        _S.created.append(self)


ANT_CLASSES = {"ant": HAnt, "sys": HSys}


def _inner(obj):
    return obj.antenna if isinstance(obj, HSys) else obj


def _pulse(amp):
    v = np.zeros(len(TIMES))
    v[10:14] = amp
    return Signal(TIMES, v, Signal.Type.voltage)


def _apply_state(obj, a):
    """Configure noise and feed the signals of antenna spec `a`."""
    inner = _inner(obj)
    noise = a.get("noise", "off")
    inner.noisy = noise != "off"
    inner.noise_rms = RMS_HIGH if noise == "high" else RMS_LOW
    inner.const_noise = {"clow": CONST_LOW, "chigh": CONST_HIGH}.get(noise)
    for amp in a.get("amps", []):
        obj.receive(_pulse(amp))


def _expect_state(a):
    """(is_hit, is_hit_mc_truth) by construction."""
    amps = a.get("amps", [])
    received = len(amps) > 0
    strong = any(x > THRESHOLD for x in amps)
    high = a.get("noise", "off") in ("high", "chigh")
    return (received and (strong or high)), (received and strong and not high)


# ---------------------------------------------------------------------------
# Detector subclasses generated from signature specs


def _jsonable(received):
    return {k: (v.__name__ if isinstance(v, type) else v) for k, v in received.items()}


def _count_hits(det, mc):
    n = 0
    for a in det:
        if (a.is_hit_mc_truth if mc else a.is_hit):
            n += 1
    return n


def _trig_semantics(det, received):
    """What a harness sub-detector answers, given the keywords that reached it."""
    if received.get("veto", False):
        return False
    return _count_hits(det, received.get("require_mc_truth", False)) >= received.get("min_hits", 1)


def _h_trig(self, named, extra):
    received = {k: v for k, v in named.items() if v is not _M}
    received.update(extra)
    _S.log.append(("trig", self.hid, _jsonable(received)))
    return _trig_semantics(self, received)


def _h_build(self, named, extra):
    received = {k: v for k, v in named.items() if v is not _M}
    received.update(extra)
    _S.log.append(("build", self.hid, _jsonable(received)))
    cls = received.get("antenna_class", HAnt)
    self.subsets = []
    for p in self.antenna_positions:
        ant = cls(position=p)
        _inner(ant).threshold = received.get("threshold", THRESHOLD)
        self.subsets.append(ant)


def _make_method(name, params, varkw, handler):
    src = "def %s(self%s%s):\n    return _h(self, {%s}, %s)\n" % (
        name,
        "".join(", %s=_M" % p for p in params),
        ", **kwargs" if varkw else "",
        ", ".join("%r: %s" % (p, p) for p in params),
        "kwargs" if varkw else "{}")
    ns = {"_M": _M, "_h": handler}
    exec(src, ns)
    return ns[name]


def _star_build(self, *args, **kwargs):
    _S.log.append(("build", self.hid, _jsonable(kwargs)))
    return Detector.build_antennas(self, *args, **kwargs)


_star_build.__name__ = "build_antennas"


def _star_trig(self, *args, require_mc_truth=False, **kwargs):
    received = dict(kwargs, require_mc_truth=require_mc_truth)
    _S.log.append(("trig", self.hid, _jsonable(received)))
    return _trig_semantics(self, received)


_star_trig.__name__ = "triggered"


class _HLeaf(Detector):
    def set_positions(self, spec):
        self.hid = spec["id"]
        _S.reg[self.hid] = self
        for a in spec["ants"]:
            self.antenna_positions.append(tuple(a["pos"]))


class _HNode(Detector):
    def set_positions(self, spec):
        self.hid = spec["id"]
        _S.reg[self.hid] = self
        for kid in spec["kids"]:
            self.subsets.append(_realise(kid))


_CLASS_CACHE = {}


def _sig_key(sig):
    if sig is None or sig == "star":
        return sig
    return (tuple(sig["params"]), bool(sig["varkw"]))


def _det_class(base, build=None, trig=None, flag=True):
    key = (base.__name__, _sig_key(build), _sig_key(trig), bool(flag))
    if key not in _CLASS_CACHE:
        ns = {}
        if build == "star":
            ns["build_antennas"] = _star_build
        elif build is not None:
            ns["build_antennas"] = _make_method("build_antennas", build["params"],
                                                build["varkw"], _h_build)
        if trig == "star":
            ns["triggered"] = _star_trig
        elif trig is not None:
            ns["triggered"] = _make_method("triggered", trig["params"], trig["varkw"], _h_trig)
        if not flag:
            ns["test_antenna_positions"] = False
        _CLASS_CACHE[key] = type("H%s%d" % (base.__name__.strip("_H"), len(_CLASS_CACHE)),
                                 (base,), ns)
    return _CLASS_CACHE[key]


# ---------------------------------------------------------------------------
# realising a structure spec


DET_KINDS = ("leaf", "node", "comb")


def _number(spec, counter=None):
    """Depth-first ids: detectors get 'id', prebuilt antennas get 'pid'."""
    if counter is None:
        counter = [0, 0]
    k = spec["k"]
    if k in DET_KINDS:
        spec["id"] = counter[0]
        counter[0] += 1
        for kid in spec.get("kids", []):
            _number(kid, counter)
    elif k == "ant":
        spec["pid"] = counter[1]
        counter[1] += 1
    else:
        for a in spec["ants"]:
            a["pid"] = counter[1]
            counter[1] += 1
    return spec


def _fresh(obj):
    return json.loads(json.dumps(obj))


def _make_ant(a):
    obj = ANT_CLASSES["sys" if a.get("sys") else "ant"](position=tuple(a["pos"]))
    _S.pre[a["pid"]] = obj
    _S.labels[id(obj)] = "P%d" % a["pid"]
    return obj


def _realise(spec):
    k = spec["k"]
    if k == "leaf":
        return _det_class(_HLeaf, spec.get("build"), spec.get("trig"),
                          spec.get("flag", True))(spec)
    if k == "node":
        return _det_class(_HNode, None, spec.get("trig"), spec.get("flag", True))(spec)
    if k == "comb":
        kids = [_realise(kid) for kid in spec["kids"]]
        if spec.get("via", "ctor") == "ctor":
            c = CombinedDetector(*kids)
        else:
            c = CombinedDetector()
            for kid in kids:
                c += kid
        _S.reg[spec["id"]] = c
        return c
    if k == "ant":
        return _make_ant(spec)
    return [_make_ant(a) for a in spec["ants"]]


def _walk(spec):
    """All specs of the structure in depth-first order."""
    yield spec
    for kid in spec.get("kids", []):
        yield from _walk(kid)


def _leaf_ants(spec):
    """Antenna specs below `spec` in reference (depth-first) order, tagged."""
    k = spec["k"]
    if k == "leaf":
        return [("L", spec["id"], i, a) for i, a in enumerate(spec["ants"])]
    if k == "ant":
        return [("P", spec["pid"], None, spec)]
    if k == "list":
        return [("P", a["pid"], None, a) for a in spec["ants"]]
    out = []
    for kid in spec["kids"]:
        out.extend(_leaf_ants(kid))
    return out


def _lab(obj):
    return _S.labels.get(id(obj), "<%s>" % type(obj).__name__)


def _labs(objs):
    return [_lab(o) for o in objs]


def _validate_leaf(spec, built, cls=None):
    """The leaf's own `subsets` list is the construction order of its antennas."""
    leaf = _S.reg[spec["id"]]
    subs = leaf.subsets
    require(isinstance(subs, list), "leaf %d: subsets is %r", spec["id"], type(subs))
    if not built:
        require(len(subs) == 0, "leaf %d never built but holds %d objects", spec["id"], len(subs))
        return
    require(len(subs) == len(spec["ants"]),
            "leaf %d built %d antennas for %d positions", spec["id"], len(subs), len(spec["ants"]))
    for i, (obj, a) in enumerate(zip(subs, spec["ants"])):
        require(tuple(obj.position) == tuple(a["pos"]),
                "leaf %d antenna %d sits at %r, position %d of the leaf is %r",
                spec["id"], i, tuple(obj.position), i, tuple(a["pos"]))
        if cls is not None:
            require(type(obj) is cls, "leaf %d antenna %d is a %s, asked for %s",
                    spec["id"], i, type(obj).__name__, cls.__name__)
        _S.labels[id(obj)] = "L%d.%d" % (spec["id"], i)
    require(len(set(id(o) for o in subs)) == len(subs), "leaf %d holds one object twice", spec["id"])


def _ref_flat(spec, built_leaves):
    """Expected flat antenna objects below `spec` (depth-first, construction order)."""
    out = []
    for tag, ident, i, _a in _leaf_ants(spec):
        if tag == "P":
            out.append(_S.pre[ident])
        elif ident in built_leaves:
            out.append(_S.reg[ident].subsets[i])
    return out


def _same(a, b):
    return len(a) == len(b) and all(x is y for x, y in zip(a, b))


def _check_flat(det, ref, what, slices=()):
    got = list(det)
    require(_same(got, ref), "%s: iteration visits %r, the shape tree holds %r",
            what, _labs(got), _labs(ref))
    again = [a for a in det]
    require(_same(again, ref), "%s: second iteration visits %r, expected %r",
            what, _labs(again), _labs(ref))
    n = len(ref)
    require(len(det) == n, "%s: len() = %r for %d antennas %r", what, len(det), n, _labs(ref))
    for i in range(-n, n):
        got_i = det[i]
        require(got_i is ref[i], "%s: [%d] is %s, expected %s", what, i, _lab(got_i), _lab(ref[i]))
    for bad in (n, -n - 1):
        try:
            x = det[bad]
        except IndexError:
            pass
        else:
            raise Violation("%s: [%d] returned %s for a detector of %d antennas"
                            % (what, bad, _lab(x), n))
    for sl in slices:
        s = slice(*sl)
        got_s = det[s]
        require(_same(list(got_s), ref[s]), "%s: [%r] gives %r, expected %r",
                what, sl, _labs(got_s), _labs(ref[s]))


# ---------------------------------------------------------------------------
# generators


Z_OK = [0.0, -0.0, -5e-324, -1e-9, -1.0, -2.5, -100.0, -2800.0]
Z_BAD = [5e-324, 1e-9, 0.5, 1.0, 120.0]


@st.composite
def _positions(draw, bad=False):
    x = float(draw(st.integers(-40, 40)))
    y = float(draw(st.integers(-40, 40)))
    if bad:
        z = draw(st.one_of(st.sampled_from(Z_BAD), floats(1e-3, 500.0)))
    else:
        z = draw(st.one_of(st.sampled_from(Z_OK), st.sampled_from(Z_OK), floats(-3000.0, 0.0)))
    return [x, y, z]


@st.composite
def _ants(draw, states=False, bad_p=0, prebuilt=False, quiet=False):
    bad = bad_p > 0 and draw(st.integers(0, 99)) < bad_p
    a = {"pos": draw(_positions(bad=bad))}
    if prebuilt:
        a["sys"] = draw(st.booleans())
    if states:
        if quiet and draw(st.integers(0, 2)) > 0:
            a["noise"] = draw(st.sampled_from(["off", "low", "clow"]))
            a["amps"] = draw(st.sampled_from([[], [AMP_WEAK], [AMP_WEAK, AMP_WEAK]]))
            return a
        a["noise"] = draw(st.sampled_from(["off", "off", "low", "high", "clow", "chigh"]))
        a["amps"] = draw(st.sampled_from([[], [], [AMP_WEAK], [AMP_STRONG], [AMP_STRONG],
                                          [AMP_WEAK, AMP_WEAK], [AMP_WEAK, AMP_STRONG]]))
    return a


def _draw_kwargs(draw, values, accepted, everything):
    """Keyword set: names some sub-detector takes with probability 1/2, names
    nobody takes with probability 1/12."""
    kw = {}
    for name in sorted(values):
        taken = everything or name in accepted
        if draw(st.integers(0, 11)) < (6 if taken else 1):
            kw[name] = draw(st.sampled_from(values[name]))
    return kw


@st.composite
def structs(draw, depth, kinds=DET_KINDS, states=False, ant_only_ok=False,
            bad_leaf=0, bad_pre=0, leaf_extra=None, max_kids=3, max_ants=3, flag=True):
    """Shape tree.  leaf = Detector subclass with positions; node = Detector
    subclass holding sub-detectors; comb = CombinedDetector over detectors,
    prebuilt antennas and antenna lists."""
    choices = [k for k in kinds if depth > 0 or k != "node"]
    k = draw(st.sampled_from(choices))
    sub = dict(states=states, ant_only_ok=ant_only_ok, bad_leaf=bad_leaf, bad_pre=bad_pre,
               leaf_extra=leaf_extra, max_kids=max_kids, max_ants=max_ants, flag=flag)
    if k == "leaf":
        n = draw(st.integers(0, max_ants))
        spec = {"k": "leaf", "ants": [draw(_ants(states, bad_leaf)) for _ in range(n)]}
        if not flag:
            spec["flag"] = False
        if leaf_extra is not None:
            spec.update(draw(leaf_extra))
        return spec
    if k == "node":
        n = draw(st.sampled_from([0, 1, 1, 2, 2, 2, 3, 3][:2 * max_kids + 1]))
        spec = {"k": "node", "kids": [draw(structs(depth - 1, DET_KINDS, **sub)) for _ in range(n)]}
        if not flag:
            spec["flag"] = False
        return spec
    n = draw(st.integers(0, max_kids + 1))
    kids = []
    only_ants = ant_only_ok and draw(st.integers(0, 3)) == 0
    for _ in range(n):
        kk = draw(st.sampled_from(["ant"] if only_ants else
                                  ["det", "det", "ant", "list"] if depth > 0 else
                                  ["leaf", "ant", "ant", "list"]))
        if kk == "det":
            kids.append(draw(structs(depth - 1, DET_KINDS, **sub)))
        elif kk == "leaf":
            kids.append(draw(structs(0, ("leaf",), **sub)))
        elif kk == "ant":
            a = draw(_ants(states, bad_pre, prebuilt=True))
            a["k"] = "ant"
            kids.append(a)
        else:
            m = draw(st.integers(0, 3))
            kids.append({"k": "list",
                         "ants": [draw(_ants(states, bad_pre, prebuilt=True)) for _ in range(m)]})
    spec = {"k": "comb", "kids": kids, "via": draw(st.sampled_from(["ctor", "ctor", "iadd"]))}
    if _is_ant_only(spec) and not ant_only_ok:
        # a CombinedDetector holding bare antennas only is a separate finding
        # (sub-check `prebuilt`); everywhere else it is excluded by construction
        kids.append({"k": "list", "ants": [draw(_ants(states, bad_pre, prebuilt=True))]})
    return spec


def _eff_subsets(spec):
    """Sub-objects a CombinedDetector really holds: `+=` splices the subsets of a
    CombinedDetector operand instead of nesting it."""
    if spec.get("via", "ctor") == "ctor":
        return list(spec["kids"])
    out = []
    for kid in spec["kids"]:
        if kid["k"] == "comb":
            out.extend(_eff_subsets(kid))
        else:
            out.append(kid)
    return out


def _is_ant_only(spec):
    eff = _eff_subsets(spec)
    return bool(eff) and all(x["k"] == "ant" for x in eff)


def _n_detectors(spec):
    return sum(1 for s in _walk(spec) if s["k"] in DET_KINDS)


def _depth(spec):
    if spec["k"] not in ("node", "comb"):
        return 0
    return 1 + max([_depth(k) for k in spec["kids"]] or [0])


slices3 = st.lists(st.tuples(st.one_of(st.none(), st.integers(-9, 9)),
                             st.one_of(st.none(), st.integers(-9, 9)),
                             st.sampled_from([None, None, 1, 2, -1, -2, 3])).map(list),
                   min_size=1, max_size=3)


@st.composite
def flatten_cases(draw, ant_only_ok=False):
    root = draw(structs(draw(st.integers(1, 4)), ("node", "comb", "node", "leaf"),
                        ant_only_ok=ant_only_ok))
    builds = draw(st.lists(st.integers(0, 40), min_size=0, max_size=4))
    if draw(st.integers(0, 3)) > 0:
        builds.append(0)          # usually finish by building from the root
    return {"root": root, "builds": builds, "cls": draw(st.sampled_from(["ant", "sys"])),
            "slices": draw(slices3)}


# ---------------------------------------------------------------------------
# flatten / prebuilt


def _ant_only_combs(root):
    return [s["id"] for s in _walk(root) if s["k"] == "comb" and _is_ant_only(s)]


def check_flatten(case, rec):
    _reset()
    root = _number(_fresh(case["root"]))
    cls = ANT_CLASSES[case["cls"]]
    top = _realise(root)
    dets = [s for s in _walk(root) if s["k"] in DET_KINDS]
    built = set()

    def check_all(stage):
        for s in dets:
            if s["k"] == "leaf":
                _validate_leaf(s, s["id"] in built, cls)
        for s in dets:
            _check_flat(_S.reg[s["id"]], _ref_flat(s, built),
                        "%s: %s %d" % (stage, s["k"], s["id"]), case["slices"])

    check_all("before any build")
    n_pre = len(_S.created)
    require(n_pre == len(_S.pre), "harness: %d prebuilt objects for %d specs", n_pre, len(_S.pre))
    rebuilt = partly = False
    n_leaves = sum(1 for s in dets if s["k"] == "leaf")
    for step, sel in enumerate(case["builds"]):
        target = dets[sel % len(dets)]
        leaves = [s for s in _walk(target) if s["k"] == "leaf"]
        mark = len(_S.created)
        _S.reg[target["id"]].build_antennas(antenna_class=cls)
        rebuilt = rebuilt or any(s["id"] in built for s in leaves)
        built.update(s["id"] for s in leaves)
        partly = partly or 0 < len(built) < n_leaves
        # every leaf below the target built exactly once, in depth-first order
        made = _S.created[mark:]
        want = [tuple(a["pos"]) for s in leaves for a in s["ants"]]
        require([tuple(o.position) for o in made] == want,
                "build #%d on %s %d created antennas at %r; the leaves below it list %r",
                step, target["k"], target["id"], [tuple(o.position) for o in made], want)
        for s in _walk(target):
            if s["k"] == "comb" and s["id"] in _ant_only_combs(root):
                got = list(_S.reg[s["id"]])
                require(_same(got, _ref_flat(s, built)),
                        "build_antennas on %s %d emptied the antenna-only CombinedDetector %d: "
                        "it visits %r, was made of %r", target["k"], target["id"], s["id"],
                        _labs(got), _labs(_ref_flat(s, built)))
        check_all("after build #%d on %s %d" % (step, target["k"], target["id"]))
    n_ant = len(_ref_flat(root, built))
    classes = ["depth=%d" % min(_depth(root), 4), "root=" + root["k"]]
    if any(s["k"] == "comb" for s in dets[1:]):
        classes.append("nested_comb")
    if any(s["k"] in ("ant", "list") for s in _walk(root)):
        classes.append("prebuilt")
    if rebuilt:
        classes.append("rebuilt")
    if partly:
        classes.append("partly_built")
    if _ant_only_combs(root):
        classes.append("ant_only_comb")
    rec.case(case, nontrivial=n_ant >= 2 and _depth(root) >= 2, classes=classes)


def _classify_prebuilt(case, exc):
    if "emptied the antenna-only CombinedDetector" in str(exc):
        return "build_antennas empties antenna-only CombinedDetector"
    return None


# ---------------------------------------------------------------------------
# combine: +, +=, sum in every parenthesisation


@st.composite
def operands(draw, states=True, bad_pre=0, flag=True, bad_leaf=0):
    n = draw(st.integers(2, 6))
    ops = []
    prev_det = True
    for _ in range(n):
        pool = ["leaf", "leaf", "node", "comb", "ant", "list"] if prev_det else \
            ["leaf", "node", "comb"]
        k = draw(st.sampled_from(pool))
        if k in ("leaf", "node"):
            o = draw(structs(2 if k == "node" else 0, (k,), states=states, max_kids=2,
                             max_ants=2, flag=flag, bad_leaf=bad_leaf))
            o["unbuilt"] = draw(st.integers(0, 7)) == 0
        elif k == "comb":
            o = draw(structs(1, ("comb",), states=states, max_kids=2, max_ants=2, flag=flag,
                             bad_leaf=bad_leaf))
            o["via"] = "ctor"
        elif k == "ant":
            o = draw(_ants(states, bad_pre, prebuilt=True))
            o["k"] = "ant"
        else:
            o = {"k": "list", "ants": [draw(_ants(states, bad_pre, prebuilt=True))
                                       for _ in range(draw(st.integers(0, 3)))]}
        prev_det = k in DET_KINDS
        ops.append(o)
    return ops


def _is_det(e, kinds):
    return ("i" not in e) or kinds[e["i"]] in DET_KINDS


@st.composite
def exprs(draw, kinds, lo, hi, ops=("+", "+", "+=", "sum")):
    if hi - lo == 1:
        return {"i": lo}
    op = draw(st.sampled_from(ops))
    if op == "sum" and hi - lo >= 2:
        ncut = draw(st.integers(1, min(3, hi - lo - 1)))
        cuts = sorted(draw(st.lists(st.integers(lo + 1, hi - 1), min_size=ncut, max_size=ncut,
                                    unique=True)))
        bounds = [lo] + cuts + [hi]
        items = [draw(exprs(kinds, a, b, ops)) for a, b in zip(bounds[:-1], bounds[1:])]
        if _is_det(items[0], kinds):
            return {"op": "sum", "items": items,
                    "start": draw(st.sampled_from(["none", "none", "0", "0.0"]))}
        e = items[0]
        for it in items[1:]:
            e = {"op": "+", "l": e, "r": it}
        return e
    m = draw(st.integers(lo + 1, hi - 1))
    left = draw(exprs(kinds, lo, m, ops))
    right = draw(exprs(kinds, m, hi, ops))
    if op == "+=" and not _is_det(left, kinds):
        op = "+"
    return {"op": op, "l": left, "r": right}


def _fold(n, left=True):
    if left:
        e = {"i": 0}
        for i in range(1, n):
            e = {"op": "+", "l": e, "r": {"i": i}}
        return e
    e = {"i": n - 1}
    for i in range(n - 2, -1, -1):
        e = {"op": "+", "l": {"i": i}, "r": e}
    return e


@st.composite
def combine_cases(draw):
    ops = draw(operands())
    kinds = [o["k"] for o in ops]
    n = len(ops)
    es = [_fold(n, True), _fold(n, False)]
    for _ in range(3):
        es.append(draw(exprs(kinds, 0, n)))
    return {"ops": ops, "exprs": es, "cls": draw(st.sampled_from(["ant", "sys"])),
            "clear": draw(st.integers(0, 4)), "seed": draw(gens.seeds32)}


class _Rejected(Exception):
    pass


def _setup_operands(ops_in, cls, states=True):
    """Realise the operands once; returns (specs, factory of fresh operand lists)."""
    wrapper = _number({"k": "comb", "kids": _fresh(ops_in), "via": "ctor"})
    ops = wrapper["kids"]
    base = []
    for o in ops:
        if o["k"] == "comb":
            base.append([_realise(kid) for kid in o["kids"]])   # kids once, wrapper per use
        else:
            base.append(_realise(o))
    built = set()
    for o, obj in zip(ops, base):
        if o["k"] == "comb":
            for kid, kobj in zip(o["kids"], obj):
                if kid["k"] in DET_KINDS:
                    kobj.build_antennas(antenna_class=cls)
        elif o["k"] in DET_KINDS and not o.get("unbuilt"):
            obj.build_antennas(antenna_class=cls)
        if o["k"] in ("comb",) or (o["k"] in DET_KINDS and not o.get("unbuilt")):
            built.update(s["id"] for s in _walk(o) if s["k"] == "leaf")
    for o in ops:
        for s in _walk(o):
            if s["k"] == "leaf":
                _validate_leaf(s, s["id"] in built, cls)
    if states:
        for o in ops:
            for tag, ident, i, a in _leaf_ants(o):
                if tag == "P":
                    _apply_state(_S.pre[ident], a)
                elif ident in built:
                    _apply_state(_S.reg[ident].subsets[i], a)

    def fresh():
        out = []
        for o, obj in zip(ops, base):
            out.append(CombinedDetector(*obj) if o["k"] == "comb" else obj)
        return out
    return ops, built, fresh


def _union_expect(ops, built, lo, hi):
    hit = mc = False
    for o in ops[lo:hi]:
        for tag, ident, i, a in _leaf_ants(o):
            if tag == "L" and ident not in built:
                continue
            h, m = _expect_state(a)
            hit, mc = hit or h, mc or m
    return hit, mc


def _expr_str(e):
    if "i" in e:
        return "o%d" % e["i"]
    if e["op"] == "sum":
        return "sum([%s]%s)" % (", ".join(_expr_str(x) for x in e["items"]),
                                "" if e["start"] == "none" else ", " + e["start"])
    return "(%s %s %s)" % (_expr_str(e["l"]), e["op"], _expr_str(e["r"]))


def _evaluate(e, objs, refs, bad=None):
    """Returns (object, lo, hi).  `refs[i]` = expected flat list of operand i.
    With `bad` (list of bool per operand) the position test is judged at every
    operator: it must raise ValueError exactly when its operand range holds an
    antenna above the ice."""
    if "i" in e:
        return objs[e["i"]], e["i"], e["i"] + 1
    if e["op"] == "sum":
        parts = [_evaluate(x, objs, refs, bad) for x in e["items"]]
    else:
        parts = [_evaluate(e["l"], objs, refs, bad), _evaluate(e["r"], objs, refs, bad)]
    lo, hi = parts[0][1], parts[-1][2]
    vals = [p[0] for p in parts]
    before = [list(v) if isinstance(v, Detector) else None for v in vals]
    what = _expr_str(e)
    try:
        if e["op"] == "sum":
            start = {"none": None, "0": 0, "0.0": 0.0}[e["start"]]
            res = sum(vals) if start is None else sum(vals, start)
        elif e["op"] == "+":
            res = vals[0] + vals[1]
        else:
            res = vals[0]
            res += vals[1]
    except ValueError as exc:
        if bad is None or "outside of ice" not in str(exc):
            raise
        require(any(bad[lo:hi]), "%s raised %r although every antenna of its operands is at "
                "z <= 0 (or exempt by test_antenna_positions=False)", what, str(exc))
        raise _Rejected(what)
    if bad is not None:
        require(not any(bad[lo:hi]), "%s accepted an antenna above the ice surface (operand "
                "flags %r)", what, bad[lo:hi])
    ref = [x for r in refs[lo:hi] for x in r]
    require(isinstance(res, Detector), "%s gives a %s", what, type(res).__name__)
    got = list(res)
    require(_same(got, ref), "%s visits %r, the operand sequence holds %r",
            what, _labs(got), _labs(ref))
    # operands of + and sum (and the right operand of +=) keep their own content
    for j, (v, b) in enumerate(zip(vals, before)):
        if b is None or (e["op"] == "+=" and j == 0):
            continue
        require(_same(list(v), b), "%s changed its operand #%d from %r to %r",
                what, j, _labs(b), _labs(list(v)))
    return res, lo, hi


def check_combine(case, rec):
    _reset()
    np.random.seed(case["seed"])
    cls = ANT_CLASSES[case["cls"]]
    ops, built, fresh = _setup_operands(case["ops"], cls)
    n = len(ops)
    refs = [_ref_flat(o, built) for o in ops]
    hit, mc = _union_expect(ops, built, 0, n)
    results = []
    for e in case["exprs"]:
        res, lo, hi = _evaluate(e, fresh(), refs)
        ref = [x for r in refs for x in r]
        _check_flat(res, ref, _expr_str(e))
        for kw, want in (({}, hit), ({"require_mc_truth": False}, hit),
                         ({"require_mc_truth": True}, mc)):
            got = res.triggered(**kw)
            require(got is want or got == want,
                    "%s .triggered(%r) = %r, but the antennas of its operands are %s",
                    _expr_str(e), kw, got, "hit" if want else "not hit")
        results.append(res)
    res = results[case["clear"] % len(results)]
    res.clear()
    for a in [x for r in refs for x in r]:
        require(len(a.signals) == 0 and not a.is_hit, "clear() of the combination left %s with "
                "%d signals", _lab(a), len(a.signals))
    for r2 in results:
        require(not r2.triggered() and not r2.triggered(require_mc_truth=True),
                "combination triggers after all its antennas were cleared")
    kinds = [o["k"] for o in ops]
    flat_ops = json.dumps(case["exprs"])
    classes = ["n=%d" % n]
    for c, cond in (("has_ant", "ant" in kinds), ("has_list", "list" in kinds),
                    ("has_comb", "comb" in kinds), ("iadd", '"+="' in flat_ops),
                    ("sum", '"sum"' in flat_ops), ("hit", hit), ("mc_differs", hit != mc),
                    ("left_non_det", kinds[0] not in DET_KINDS)):
        if cond:
            classes.append(c)
    rec.case(case, nontrivial=n >= 3 and sum(len(r) for r in refs) >= 2, classes=classes)


# ---------------------------------------------------------------------------
# default trigger and clear over nested structures


@st.composite
def trigger_cases(draw):
    root = draw(structs(draw(st.integers(1, 3)), ("node", "comb", "comb", "leaf"), states=True,
                        max_ants=2))
    return {"root": root, "cls": draw(st.sampled_from(["ant", "sys"])),
            "seed": draw(gens.seeds32), "target": draw(st.integers(0, 40)),
            "reset_noise": draw(st.sampled_from([None, False, True]))}


def _build_with_states(case):
    _reset()
    np.random.seed(case["seed"])
    root = _number(_fresh(case["root"]))
    cls = ANT_CLASSES[case["cls"]]
    top = _realise(root)
    dets = [s for s in _walk(root) if s["k"] in DET_KINDS]
    top.build_antennas(antenna_class=cls)
    built = set(s["id"] for s in dets if s["k"] == "leaf")
    for s in dets:
        if s["k"] == "leaf":
            _validate_leaf(s, True, cls)
    ants = []       # (object, spec) in depth-first order
    for tag, ident, i, a in _leaf_ants(root):
        obj = _S.pre[ident] if tag == "P" else _S.reg[ident].subsets[i]
        _apply_state(obj, a)
        ants.append((obj, a))
    return root, dets, built, ants


def _state_classes(ants):
    cl = set()
    for _o, a in ants:
        h, m = _expect_state(a)
        cl.add("hit_mc" if m else ("hit_noise_only" if h else "quiet"))
    return cl


def check_trigger(case, rec):
    root, dets, built, ants = _build_with_states(case)
    for obj, a in ants:
        h, m = _expect_state(a)
        require(bool(obj.is_hit) == h and bool(obj.is_hit_mc_truth) == m,
                "antenna %s (%r): is_hit=%r is_hit_mc_truth=%r, constructed to be %r/%r",
                _lab(obj), a, obj.is_hit, obj.is_hit_mc_truth, h, m)
    differs = 0
    for s in dets:
        det = _S.reg[s["id"]]
        below = [_expect_state(a) for _t, _i, _j, a in _leaf_ants(s)]
        hit = any(h for h, _m in below)
        mc = any(m for _h, m in below)
        differs += hit != mc
        for kw, want in (({}, hit), ({"require_mc_truth": False}, hit),
                         ({"require_mc_truth": True}, mc)):
            got = det.triggered(**kw)
            require(isinstance(got, (bool, np.bool_)) and bool(got) == want,
                    "%s %d .triggered(%r) = %r but %d of its %d antennas are hit "
                    "(%d by Monte-Carlo truth)", s["k"], s["id"], kw, got,
                    sum(h for h, _m in below), len(below), sum(m for _h, m in below))
    cl = _state_classes(ants)
    classes = sorted(cl) + ["root=" + root["k"]]
    if differs:
        classes.append("mc_differs")
    if any(s["k"] == "comb" and any(k["k"] in DET_KINDS for k in s["kids"]) and
           any(k["k"] in ("ant", "list") for k in s["kids"]) for s in dets):
        classes.append("comb_mixed")
    rec.case(case, nontrivial=len(ants) >= 2 and len(cl) >= 2, classes=classes)


def check_clear(case, rec):
    root, dets, built, ants = _build_with_states(case)
    tspec = dets[case["target"] % len(dets)]
    target = _S.reg[tspec["id"]]
    inside = set(id(_S.pre[ident] if tag == "P" else _S.reg[ident].subsets[i])
                 for tag, ident, i, _a in _leaf_ants(tspec))
    # evaluate every antenna first so that waveforms, triggers and noise exist
    before = {}
    for obj, a in ants:
        noise = None
        if a.get("noise") in ("low", "high") and a.get("amps"):
            noise = np.array(obj.make_noise(TIMES).values)
        before[id(obj)] = (len(_inner(obj).signals), bool(obj.is_hit), noise)
    kw = {} if case["reset_noise"] is None else {"reset_noise": case["reset_noise"]}
    target.clear(**kw)
    n_noise = 0
    for obj, a in ants:
        n_sig, was_hit, noise = before[id(obj)]
        if id(obj) in inside:
            require(len(_inner(obj).signals) == 0 and len(obj.signals) == 0,
                    "%s %d .clear() left antenna %s with %d signals", tspec["k"], tspec["id"],
                    _lab(obj), len(_inner(obj).signals))
            require(len(obj.all_waveforms) == 0 and len(obj.waveforms) == 0 and not obj.is_hit,
                    "%s %d .clear() left antenna %s with waveforms / hit", tspec["k"],
                    tspec["id"], _lab(obj))
            if noise is not None:
                n_noise += 1
                after = np.array(obj.make_noise(TIMES).values)
                if case["reset_noise"]:
                    # a recalibrated noise master draws fresh phases and amplitudes
                    require(not np.array_equal(after, noise),
                            "clear(reset_noise=True) kept the noise of antenna %s", _lab(obj))
                else:
                    require(np.array_equal(after, noise),
                            "clear(%r) changed the noise of antenna %s", kw, _lab(obj))
        else:
            require(len(_inner(obj).signals) == n_sig and bool(obj.is_hit) == was_hit,
                    "%s %d .clear() touched antenna %s which is not part of it",
                    tspec["k"], tspec["id"], _lab(obj))
    # triggers afterwards: a detector is triggered by its remaining hit antennas
    for s in dets:
        below = [(_S.pre[ident] if tag == "P" else _S.reg[ident].subsets[i], a)
                 for tag, ident, i, a in _leaf_ants(s)]
        hit = any(_expect_state(a)[0] for o, a in below if id(o) not in inside)
        got = _S.reg[s["id"]].triggered()
        require(bool(got) == hit, "after clearing %s %d, %s %d .triggered() = %r, expected %r",
                tspec["k"], tspec["id"], s["k"], s["id"], got, hit)
    n_in = len(inside)
    classes = ["target=" + tspec["k"],
               "reset=%s" % case["reset_noise"]]
    if 0 < n_in < len(ants):
        classes.append("partial")
    if n_noise:
        classes.append("noise_observed")
    if any(before[i][1] for i in inside):
        classes.append("cleared_a_hit")
    rec.case(case, nontrivial=n_in >= 1 and any(before[i][0] for i in inside), classes=classes)


# ---------------------------------------------------------------------------
# keyword dispatch of CombinedDetector.triggered


TRIG_POOL = ["require_mc_truth", "min_hits", "veto", "tag"]


@st.composite
def _trig_sigs(draw):
    kind = draw(st.sampled_from(["default", "star", "explicit", "explicit", "explicit"]))
    if kind == "default":
        return None
    if kind == "star":
        return "star"
    params = [p for p in TRIG_POOL if draw(st.booleans())]
    return {"params": params, "varkw": draw(st.integers(0, 4)) == 0}


@st.composite
def trigkw_cases(draw):
    n_sigs = draw(st.sampled_from([1, 2, 3, 3]))
    sigs = [draw(_trig_sigs()) for _ in range(n_sigs)]
    # one case in four is shaped for a positional call: one shared explicit signature that starts
    # with an ordinary parameter and takes require_mc_truth, no nested combination
    friendly = draw(st.integers(0, 3)) == 0
    if friendly:
        lead = [p for p in ["min_hits", "veto", "tag"] if draw(st.booleans())] or ["min_hits"]
        sigs = [{"params": lead + ["require_mc_truth"], "varkw": draw(st.booleans())}]

    def leaf():
        return {"k": "leaf", "trig": draw(st.sampled_from(sigs)),
                "ants": [draw(_ants(states=True, quiet=True))
                         for _ in range(draw(st.integers(0, 3)))]}

    def comb(depth):
        kids = []
        for _ in range(draw(st.integers(1, 4))):
            kk = draw(st.sampled_from(["leaf", "leaf", "leaf", "ant", "list", "comb"]))
            if kk == "leaf":
                kids.append(leaf())
            elif kk == "comb" and depth > 0 and not friendly:
                kids.append(comb(depth - 1))
            elif kk == "list":
                kids.append({"k": "list", "ants": [draw(_ants(True, prebuilt=True, quiet=True))
                                                   for _ in range(draw(st.integers(0, 2)))]})
            else:
                a = draw(_ants(True, prebuilt=True, quiet=True))
                a["k"] = "ant"
                kids.append(a)
        if all(k["k"] == "ant" for k in kids):
            kids.append(leaf())
        return {"k": "comb", "kids": kids, "via": "ctor"}

    root = comb(2)
    leaf_sigs = [s.get("trig") for s in _walk(root) if s["k"] == "leaf"]
    everything = any(sg in (None, "star") or sg["varkw"] for sg in leaf_sigs)
    accepted = set(p for sg in leaf_sigs if isinstance(sg, dict) for p in sg["params"])
    kwargs = _draw_kwargs(draw, {"min_hits": [1, 2, 3], "veto": [False, False, True],
                                 "tag": ["a", "b"]}, accepted, everything)
    if friendly:
        first = sigs[0]["params"][0]
        kwargs.setdefault(first, {"min_hits": 2, "veto": False, "tag": "a"}[first])
    if draw(st.integers(0, 11)) == 0:
        kwargs["orphan"] = 1
    # pos: how many leading parameters of the (shared) signature are passed positionally, which
    # CombinedDetector.triggered allows when all its sub-detectors have the same signature
    return {"root": root, "kwargs": kwargs, "mc": draw(st.sampled_from([None, False, True])),
            "seed": draw(gens.seeds32), "pos": draw(st.sampled_from([0, 0, 1, 2, 3]))}


def _accepts(sig, key):
    """Does a sub-detector with signature spec `sig` accept keyword `key`?"""
    if sig is None or sig == "star":
        return True          # (*args, require_mc_truth=False, **kwargs) / (*args, **kwargs)
    return key in sig["params"] or sig["varkw"]


def _ref_trigger(spec, offered, log):
    """Reference of CombinedDetector.triggered: the union, with each
    sub-detector receiving exactly the keywords it accepts; evaluation stops at
    the first sub-detector / antenna that answers True."""
    k = spec["k"]
    if k == "comb":
        for kid in spec["kids"]:
            if _ref_trigger(kid, offered, log):
                return True
        return False
    mc = offered.get("require_mc_truth", False)
    if k == "ant":
        return _expect_state(spec)[1 if mc else 0]
    if k == "list":
        return any(_expect_state(a)[1 if mc else 0] for a in spec["ants"])
    sig = spec.get("trig")
    received = {key: val for key, val in offered.items() if _accepts(sig, key)}
    states = [_expect_state(a) for a in spec["ants"]]
    if sig is None:
        # pyrex's own default trigger: any antenna, keywords other than
        # require_mc_truth ignored; not logged
        return any(s[1 if received.get("require_mc_truth", False) else 0] for s in states)
    log.append(("trig", spec["id"], received))
    if received.get("veto", False):
        return False
    use_mc = received.get("require_mc_truth", False)
    return sum(1 for s in states if s[1 if use_mc else 0]) >= received.get("min_hits", 1)


def _matched_without(spec, keys):
    """Combined detectors (any level) whose sub-detectors all share one explicit
    trigger signature that does not take one of `keys` (known-finding shape)."""
    out = []
    for s in _walk(spec):
        if s["k"] != "comb":
            continue
        sigs = [_sig_key(k.get("trig")) if k["k"] == "leaf" else "comb"
                for k in s["kids"] if k["k"] in DET_KINDS]
        if sigs and len(set(sigs)) == 1 and sigs[0] not in (None, "star", "comb") \
                and not sigs[0][1] and any(key not in sigs[0][0] for key in keys):
            out.append(s["id"])
    return out


def _anyone_accepts(spec, key):
    return any(_accepts(s.get("trig"), key) for s in _walk(spec) if s["k"] == "leaf")


def check_trigkw(case, rec):
    _reset()
    np.random.seed(case["seed"])
    root = _number(_fresh(case["root"]))
    top = _realise(root)
    for s in _walk(root):
        if s["k"] == "leaf":
            _S.reg[s["id"]].build_antennas(antenna_class=HAnt)
            _validate_leaf(s, True, HAnt)
    for tag, ident, i, a in _leaf_ants(root):
        _apply_state(_S.pre[ident] if tag == "P" else _S.reg[ident].subsets[i], a)
    user = dict(case["kwargs"])
    if case["mc"] is not None:
        user["require_mc_truth"] = case["mc"]
    offered = dict(user)
    offered.setdefault("require_mc_truth", False)
    ref_log = []
    want = _ref_trigger(root, offered, ref_log)
    orphans = [k for k in user if k != "require_mc_truth" and not _anyone_accepts(root, k)]
    _S.log = []
    classes = []
    args = ()
    leaf_sigs = [s_.get("trig") for s_ in _walk(root) if s_["k"] == "leaf"]
    if case.get("pos") and leaf_sigs and isinstance(leaf_sigs[0], dict) \
            and all(sg == leaf_sigs[0] for sg in leaf_sigs) \
            and all(k_["k"] != "comb" for k_ in root["kids"]) \
            and any(k_["k"] == "leaf" for k_ in root["kids"]):
        sg = leaf_sigs[0]
        take = []
        for p_ in sg["params"][:case["pos"]]:
            if p_ == "require_mc_truth" or p_ not in user:
                break
            take.append(p_)
        rest = [k_ for k_ in user if k_ not in take] + ["require_mc_truth"]
        # (in this form every remaining keyword is handed to every sub-detector unfiltered)
        if take and all(_accepts(sg, k_) for k_ in rest):
            args = tuple(user.pop(p_) for p_ in take)
            classes.append("positional")
    try:
        got = top.triggered(*args, **user)
    except TypeError as exc:
        # a keyword no sub-detector takes may be refused (user error) or dropped
        if orphans and any(("'%s'" % k) in str(exc) for k in orphans):
            rec.case(case, nontrivial=False, classes=["orphan_refused"])
            return
        raise
    require(bool(got) == want, "triggered(%r) = %r, the union over sub-detectors (each given "
            "the keywords it accepts) is %r; calls seen %r, expected %r",
            user, got, want, _S.log, ref_log)
    require(_S.log == ref_log, "triggered(%r): sub-detector calls %r, expected %r "
            "(each sub-detector receives exactly the keywords its signature takes, up to the "
            "first one that answers True)", user, _S.log, ref_log)
    sigs = set(json.dumps(s.get("trig"), sort_keys=True) for s in _walk(root) if s["k"] == "leaf")
    if len(sigs) >= 2:
        classes.append("mixed_signatures")
    if any(s["k"] == "comb" for s in list(_walk(root))[1:]):
        classes.append("nested_comb")
    if want:
        classes.append("true")
    if any(len(r[2]) < len(offered) for r in ref_log):
        classes.append("filtered")
    if orphans:
        classes.append("orphan_dropped")
    if user.get("require_mc_truth"):
        classes.append("mc")
    if _matched_without(root, list(offered)):
        classes.append("matched_unfiltered_shape")
    rec.case(case, nontrivial=len(ref_log) >= 2 and len(user) >= 1, classes=classes)


def _classify_trigkw(case, exc):
    root = _number(_fresh(case["root"]))
    offered = list(case["kwargs"]) + ["require_mc_truth"]
    if isinstance(exc, TypeError) and _matched_without(root, offered) and \
            (any(("'%s'" % k) in str(exc) for k in offered)
             or "Unable to pass keyword arguments" in str(exc)):
        return "triggered passes keywords unfiltered to sub-detectors with identical signatures"
    return None


# ---------------------------------------------------------------------------
# keyword dispatch of build_antennas


BUILD_POOL = ["antenna_class", "threshold", "gain", "tag"]


@st.composite
def _build_sigs(draw, clean):
    kind = draw(st.sampled_from(["explicit"] if clean else
                                ["plain", "star", "explicit", "explicit", "explicit"]))
    if kind == "plain":
        return None
    if kind == "star":
        return "star"
    params = [p for p in BUILD_POOL if draw(st.booleans())]
    return {"params": params, "varkw": (not clean) and draw(st.integers(0, 4)) == 0}


@st.composite
def buildkw_cases(draw):
    clean = draw(st.booleans())
    sigs = [draw(_build_sigs(clean)) for _ in range(draw(st.sampled_from([1, 2, 3, 3])))]

    def leaf(sig):
        return {"k": "leaf", "build": sig,
                "ants": [draw(_ants()) for _ in range(draw(st.integers(0, 2)))]}

    def uniform(depth, sig):
        if depth == 0 or draw(st.integers(0, 2)) == 0:
            return leaf(sig)
        return {"k": "node", "kids": [uniform(depth - 1, sig)
                                      for _ in range(draw(st.integers(1, 3)))]}

    def anytree(depth):
        kk = draw(st.sampled_from(["leaf", "node", "comb"] if depth > 0 else ["leaf"]))
        if kk == "leaf":
            return leaf(draw(st.sampled_from(sigs)))
        kids = [anytree(depth - 1) for _ in range(draw(st.integers(1, 3)))]
        if kk == "node":
            return {"k": "node", "kids": kids}
        if draw(st.booleans()):
            kids.insert(draw(st.integers(0, len(kids))),
                        {"k": "list", "ants": [draw(_ants(prebuilt=True))]})
        return {"k": "comb", "kids": kids, "via": "ctor"}

    if clean:
        # one level of differing signatures, below it uniform sub-trees whose
        # build signature is mirrored upwards by pyrex
        kids = [uniform(2, draw(st.sampled_from(sigs))) for _ in range(draw(st.integers(1, 4)))]
        if draw(st.booleans()):
            root = {"k": "node", "kids": kids}
        else:
            if draw(st.booleans()):
                a = draw(_ants(prebuilt=True))
                a["k"] = "ant"
                kids.insert(draw(st.integers(0, len(kids))), a)
            root = {"k": "comb", "kids": kids, "via": draw(st.sampled_from(["ctor", "iadd"]))}
    else:
        root = anytree(3)
        if root["k"] == "leaf":
            root = {"k": "comb", "kids": [root, anytree(2)], "via": "ctor"}
    leaf_sigs = [s.get("build") for s in _walk(root) if s["k"] == "leaf"]
    everything = any(sg in (None, "star") or sg["varkw"] for sg in leaf_sigs)
    accepted = set(p for sg in leaf_sigs if isinstance(sg, dict) for p in sg["params"])
    kwargs = _draw_kwargs(draw, {"threshold": [0.5, 2.0], "gain": [2.0, 3.5], "tag": ["a", "b"]},
                          accepted, everything)
    if everything or "antenna_class" in accepted or draw(st.integers(0, 11)) == 0:
        kwargs["antenna_class"] = draw(st.sampled_from(["ant", "sys"]))
    if draw(st.integers(0, 11)) == 0:
        kwargs["orphan"] = 1
    return {"root": root, "kwargs": kwargs, "clean": clean}


def _b_accepts(sig, key):
    if sig is None or sig == "star":
        return True
    return key in sig["params"] or sig["varkw"]


def _pyrex_build_sig(spec):
    """Signature that pyrex's mirroring gives a (sub-)detector; used only to
    recognise the shape of the known finding, never as the oracle."""
    if spec["k"] == "leaf":
        sig = spec.get("build")
        return "star" if sig in (None, "star") else _sig_key(sig)
    sigs = [_pyrex_build_sig(k) for k in spec["kids"] if k["k"] in DET_KINDS]
    if sigs and len(set(sigs)) == 1:
        return sigs[0]
    return "star"


def _starved_leaves(root):
    """Leaves reached only through a sub-detector whose build signature is
    (*args, **kwargs) or has **kwargs while its siblings differ."""
    out = set()
    for s in _walk(root):
        if s["k"] not in ("node", "comb"):
            continue
        kids = [k for k in s["kids"] if k["k"] in DET_KINDS]
        sigs = [_pyrex_build_sig(k) for k in kids]
        if len(set(sigs)) <= 1:
            continue
        for k, sg in zip(kids, sigs):
            if sg == "star" or sg[1]:
                out.update(x["id"] for x in _walk(k) if x["k"] == "leaf")
    return out


def check_buildkw(case, rec):
    _reset()
    root = _number(_fresh(case["root"]))
    top = _realise(root)
    leaves = [s for s in _walk(root) if s["k"] == "leaf"]
    offered_json = dict(case["kwargs"])
    offered = dict(offered_json)
    offered_names = dict(offered_json)
    if "antenna_class" in offered_json:
        offered["antenna_class"] = ANT_CLASSES[offered_json["antenna_class"]]
        offered_names["antenna_class"] = offered["antenna_class"].__name__
    orphans = [k for k in offered if not any(_b_accepts(s.get("build"), k) for s in leaves)]
    n_pre = len(_S.created)
    try:
        top.build_antennas(**offered)
    except TypeError as exc:
        if orphans and any(("'%s'" % k) in str(exc) for k in orphans):
            rec.case(case, nontrivial=False, classes=["orphan_refused"])
            return
        raise
    logged = {}
    for kind, hid, received in _S.log:
        require(hid not in logged, "leaf=%d was built twice by one build_antennas call", hid)
        logged[hid] = received
    order = [hid for _k, hid, _r in _S.log]
    require(order == sorted(order), "leaves were built in the order %r", order)
    for s in leaves:
        sig = s.get("build")
        want = {k: v for k, v in offered_names.items() if _b_accepts(sig, k)}
        leaf = _S.reg[s["id"]]
        if sig is None:
            # pyrex's own build_antennas: hands every keyword but antenna_class to the antennas
            _validate_leaf(s, True, offered["antenna_class"])
            for obj in leaf.subsets:
                got = dict(_jsonable(obj.build_kw), antenna_class=type(obj).__name__)
                require(got == want, "build kwargs: leaf=%d (default build) passed %r to its "
                        "antennas, offered %r", s["id"], got, offered_names)
            continue
        require(s["id"] in logged, "build kwargs: leaf=%d (signature %r) was never built; "
                "offered %r", s["id"], sig, offered_names)
        require(logged[s["id"]] == want, "build kwargs: leaf=%d with signature %r received %r, "
                "expected exactly the offered keywords it takes: %r",
                s["id"], sig, logged[s["id"]], want)
        cls = offered["antenna_class"] if "antenna_class" in want else HAnt
        _validate_leaf(s, True, cls)
        for obj in leaf.subsets:
            if sig == "star":
                # logged, then pyrex's default build: keywords end up at the antennas
                got = dict(_jsonable(obj.build_kw), antenna_class=type(obj).__name__)
                require(got == want, "build kwargs: leaf=%d (default build) passed %r to its "
                        "antennas, offered %r", s["id"], got, offered_names)
            else:
                require(_inner(obj).threshold == want.get("threshold", THRESHOLD),
                        "build kwargs: leaf=%d antenna threshold %r, received %r", s["id"],
                        _inner(obj).threshold, want)
    built = set(s["id"] for s in leaves)
    for s in _walk(root):
        if s["k"] in DET_KINDS:
            _check_flat(_S.reg[s["id"]], _ref_flat(s, built), "after build: %s %d" % (s["k"], s["id"]))
    require(len(_S.created) - n_pre == sum(len(s["ants"]) for s in leaves),
            "%d antennas were created for %d positions", len(_S.created) - n_pre,
            sum(len(s["ants"]) for s in leaves))
    sigs = set(json.dumps(s.get("build"), sort_keys=True) for s in leaves)
    classes = ["clean" if case["clean"] else "any"]
    if len(sigs) >= 2:
        classes.append("mixed_signatures")
    if any(len({k: 1 for k in offered if _b_accepts(s.get("build"), k)}) < len(offered)
           for s in leaves):
        classes.append("filtered")
    if _starved_leaves(root):
        classes.append("varkw_under_filter")
    if orphans:
        classes.append("orphan_dropped")
    if _depth(root) >= 2:
        classes.append("deep")
    rec.case(case, nontrivial=len(leaves) >= 2 and len(sigs) >= 2, classes=classes)


def _classify_buildkw(case, exc):
    root = _number(_fresh(case["root"]))
    starved = _starved_leaves(root)
    if not starved:
        return None
    msg = str(exc)
    key = "build keywords not passed through sub-detectors whose build_antennas takes **kwargs"
    if isinstance(exc, TypeError) and "missing 1 required positional argument: 'antenna_class'" in msg:
        return key
    if "build kwargs: leaf=" in msg:
        try:
            hid = int(msg.split("build kwargs: leaf=")[1].split()[0])
        except ValueError:
            return None
        if hid in starved:
            return key
    return None


# ---------------------------------------------------------------------------
# position test


def _bad(a):
    return a["pos"][2] > 0


def _has_bad(spec):
    """Does realising `spec` hold an antenna above the ice that is not exempt?
    Exempt = position generated by a Detector subclass that switched
    test_antenna_positions off."""
    k = spec["k"]
    if k == "leaf":
        return spec.get("flag", True) and any(_bad(a) for a in spec["ants"])
    if k == "ant":
        return _bad(spec)
    if k == "list":
        return any(_bad(a) for a in spec["ants"])
    return any(_has_bad(kid) for kid in spec["kids"])


@st.composite
def reject_cases(draw):
    flag = draw(st.integers(0, 5)) > 0
    p = draw(st.sampled_from([0, 0, 8, 15, 30]))
    if draw(st.booleans()):
        root = draw(structs(draw(st.integers(0, 3)), ("leaf", "node", "comb", "comb"),
                            bad_leaf=p, bad_pre=p, flag=flag, ant_only_ok=True))
        return {"mode": "struct", "root": root}
    ops = draw(operands(states=False, bad_pre=p, flag=flag, bad_leaf=0 if flag else p))
    e = draw(exprs([o["k"] for o in ops], 0, len(ops)))
    return {"mode": "expr", "ops": ops, "expr": e}


def check_reject(case, rec):
    _reset()
    classes = [case["mode"]]
    if case["mode"] == "struct":
        root = _number(_fresh(case["root"]))
        want = _has_bad(root)
        n_bad = sum(1 for _t, _i, _j, a in _leaf_ants(root) if _bad(a))
        zero = sum(1 for _t, _i, _j, a in _leaf_ants(root) if a["pos"][2] == 0)
        try:
            top = _realise(root)
        except ValueError as exc:
            require("outside of ice" in str(exc), "unexpected ValueError %r", str(exc))
            require(want, "construction raised %r although no antenna is above z = 0 (or "
                    "only ones whose detector class set test_antenna_positions=False); "
                    "positions %r", str(exc), [a["pos"] for _t, _i, _j, a in _leaf_ants(root)])
            classes.append("rejected")
        else:
            require(not want, "construction accepted an antenna above the ice surface "
                    "(z of all positions: %r)", [a["pos"][2] for _t, _i, _j, a in _leaf_ants(root)])
            require(isinstance(top, (Detector, list, Antenna, AntennaSystem)), "harness")
            classes.append("accepted")
            if n_bad:
                classes.append("exempt_by_flag")
        if zero and not n_bad:
            classes.append("z=0_only")
        rec.case(case, nontrivial=len(_leaf_ants(root)) >= 2, classes=classes)
        return
    wrapper = _number({"k": "comb", "kids": _fresh(case["ops"]), "via": "ctor"})
    ops = wrapper["kids"]
    objs = []
    for o in ops:
        # operands themselves are valid by construction (detectors hold bad
        # positions only with the test switched off; bare antennas are not tested)
        objs.append(_realise(o))
    bad = [_has_bad(o) for o in ops]
    refs = [_ref_flat(o, set()) for o in ops]      # nothing is built here
    try:
        _evaluate(case["expr"], objs, refs, bad=bad)
    except _Rejected:
        classes.append("rejected")
    else:
        classes.append("accepted")
        if any(_bad(a) for o in ops for _t, _i, _j, a in _leaf_ants(o)):
            classes.append("exempt_by_flag")
    flat = json.dumps(case["expr"])
    for c, cond in (("iadd", '"+="' in flat), ("sum", '"sum"' in flat)):
        if cond:
            classes.append(c)
    rec.case(case, nontrivial=len(ops) >= 3, classes=classes)


@st.composite
def iadd_cases(draw):
    base = draw(structs(1, ("comb",), max_kids=2, max_ants=2))
    base["via"] = "ctor"
    adds = []
    for _ in range(draw(st.integers(1, 4))):
        k = draw(st.sampled_from(["ant", "ant", "list", "leaf", "comb"]))
        p = draw(st.sampled_from([0, 0, 0, 60]))
        if k == "ant":
            o = draw(_ants(False, p, prebuilt=True))
            o["k"] = "ant"
        elif k == "list":
            o = {"k": "list", "ants": [draw(_ants(False, p, prebuilt=True))
                                       for _ in range(draw(st.integers(1, 3)))]}
        elif k == "leaf":
            o = draw(structs(0, ("leaf",), max_ants=2))
        else:
            o = draw(structs(1, ("comb",), max_kids=2, max_ants=2))
            o["via"] = "ctor"
            # a combination that was legal when it was built and one of whose bare antennas has been
            # moved above the surface since (index into its bare antennas; None = left alone)
            o["lift"] = draw(st.sampled_from([None, None, 0, 1, 2]))
        adds.append(o)
    return {"base": base, "adds": adds}


def check_iadd(case, rec):
    _reset()
    wrapper = _number({"k": "comb", "kids": [_fresh(case["base"])] + _fresh(case["adds"]),
                       "via": "ctor"})
    base, adds = wrapper["kids"][0], wrapper["kids"][1:]
    c = _realise(base)
    c.build_antennas(antenna_class=HAnt)
    built = set(s["id"] for s in _walk(base) if s["k"] == "leaf")
    for s in _walk(base):
        if s["k"] == "leaf":
            _validate_leaf(s, True, HAnt)
    ref = _ref_flat(base, built)
    _check_flat(c, ref, "base")
    rejected = accepted = 0
    for step, o in enumerate(adds):
        obj = _realise(o)
        if o["k"] in DET_KINDS:
            obj.build_antennas(antenna_class=HAnt)
            for s in _walk(o):
                if s["k"] == "leaf":
                    built.add(s["id"])
                    _validate_leaf(s, True, HAnt)
        add_ref = _ref_flat(o, built)
        lifted = False
        if o.get("lift") is not None:
            bare = []
            for sub_ in obj.subsets:
                if hasattr(sub_, "position"):
                    bare.append(sub_)
                elif isinstance(sub_, (list, tuple)):
                    bare.extend(sub_)
            if bare:
                a_ = bare[o["lift"] % len(bare)]
                a_.position = np.array([float(a_.position[0]), float(a_.position[1]), 60.0])
                lifted = True
                n_before_operand = len(list(obj))
        same = c
        try:
            c += obj
        except ValueError as exc:
            require("outside of ice" in str(exc), "unexpected ValueError %r", str(exc))
            require(_has_bad(o) or lifted, "step %d: += raised %r although the operand is at z <= 0",
                    step, str(exc))
            rejected += 1
            c = same
            now = list(c)
            require(_same(now, ref), "step %d: rejected += changed the detector: it now visits "
                    "%r, before the refused addition %r", step, _labs(now), _labs(ref))
        else:
            require(not _has_bad(o) and not lifted, "step %d: += accepted an antenna above the ice", step)
            accepted += 1
            ref = ref + add_ref
            _check_flat(c, ref, "after += #%d" % step)
    classes = []
    if rejected:
        classes.append("rejected")
    if accepted:
        classes.append("accepted")
    if rejected and accepted:
        classes.append("both")
    if any(o.get("lift") is not None for o in adds):
        classes.append("lifted_combination")
    rec.case(case, nontrivial=len(adds) >= 2, classes=classes)


def _classify_iadd(case, exc):
    if "rejected += changed the detector" in str(exc):
        return "rejected += keeps the refused operand"
    return None


# ---------------------------------------------------------------------------


PROPERTY = Property(
    "C19", "Detector composition visits every antenna once; triggers and clears as the union",
    [
        SubCheck("flatten", flatten_cases(), check_flatten, quick=1800, thorough=90000,
                 rule="shape tree (leaf/node Detector subclasses, CombinedDetector over detectors, "
                      "prebuilt antennas and antenna lists; depth <= 4) x history of build_antennas "
                      "calls on arbitrary sub-detectors; list/len/[i]/slices of every detector of "
                      "the tree after every step vs depth-first walk of the tree; non-trivial = "
                      ">= 2 antennas and nesting depth >= 2",
                 floors={"nested_comb": 0.15, "prebuilt": 0.2, "partly_built": 0.04,
                         "rebuilt": 0.15, "depth=3": 0.05}, quick_shards=5),
        SubCheck("prebuilt", flatten_cases(ant_only_ok=True), check_flatten, quick=1000, thorough=50000,
                 rule="as `flatten`, additionally with CombinedDetectors made of bare antennas "
                      "only (which build_antennas must leave alone); same non-triviality rule",
                 floors={"ant_only_comb": 0.02, "prebuilt": 0.12}, quick_shards=3,
                 classify=_classify_prebuilt),
        SubCheck("combine", combine_cases(), check_combine, quick=1200, thorough=60000,
                 rule="2-6 operands (detectors, CombinedDetectors, antennas, antenna lists; hit "
                      "states) x left fold, right fold and 3 random expression trees over +, += "
                      "and sum; flattened content, operand purity, triggered (plain / MC truth) "
                      "and clear of every result; non-trivial = >= 3 operands and >= 2 antennas",
                 floors={"has_ant": 0.2, "has_list": 0.18, "has_comb": 0.25, "iadd": 0.3,
                         "sum": 0.28, "mc_differs": 0.07, "left_non_det": 0.15}, quick_shards=10),
        SubCheck("trigger", trigger_cases(), check_trigger, quick=1200, thorough=60000,
                 rule="shape tree x hit state per antenna (no signal / weak / strong pulse x "
                      "noise off / far below / far above threshold); triggered() and "
                      "triggered(require_mc_truth) of every detector of the tree vs any() over "
                      "its antennas; non-trivial = >= 2 antennas in >= 2 different states",
                 floors={"hit_noise_only": 0.13, "hit_mc": 0.18, "mc_differs": 0.08,
                         "comb_mixed": 0.15}, quick_shards=4),
        SubCheck("clear", trigger_cases(), check_clear, quick=1200, thorough=60000,
                 rule="as `trigger`; clear(reset_noise=None/False/True) of one detector of the "
                      "tree: its antennas emptied (noise redrawn iff asked), all others "
                      "untouched, triggers afterwards; non-trivial = cleared detector held a "
                      "signal",
                 floors={"partial": 0.06, "noise_observed": 0.09, "cleared_a_hit": 0.18}, quick_shards=3),
        SubCheck("trigger_kwargs", trigkw_cases(), check_trigkw, quick=1600, thorough=80000,
                 rule="CombinedDetector (nested <= 2) over sub-detectors with generated "
                      "triggered() signatures, antennas and lists x keyword set x "
                      "require_mc_truth; result and the exact sequence of (sub-detector, received "
                      "keywords) vs reference; non-trivial = >= 2 sub-detector calls and >= 1 "
                      "keyword",
                 floors={"mixed_signatures": 0.08, "filtered": 0.05, "nested_comb": 0.1, "positional": 0.03,
                         "true": 0.14}, quick_shards=4,
                 classify=_classify_trigkw),
        SubCheck("build_kwargs", buildkw_cases(), check_buildkw, quick=1600, thorough=80000,
                 rule="tree of leaves with generated build_antennas signatures (explicit / "
                      "**kwargs / pyrex default) under nodes and CombinedDetectors x keyword set; "
                      "keywords received by every leaf vs the offered ones it takes, every leaf "
                      "built once, flattened content; non-trivial = >= 2 leaves with >= 2 "
                      "signatures",
                 floors={"clean": 0.2, "mixed_signatures": 0.1, "filtered": 0.09}, quick_shards=4,
                 classify=_classify_buildkw),
        SubCheck("reject", reject_cases(), check_reject, quick=1800, thorough=90000,
                 rule="z > 0 (down to 5e-324) / z = +-0 / z < 0 positions anywhere in a shape "
                      "tree (construction) or in the operands of a +, +=, sum expression; "
                      "ValueError exactly when a non-exempt antenna is above the ice, judged at "
                      "every operator; non-trivial = >= 2 antennas / >= 3 operands",
                 floors={"rejected": 0.08, "accepted": 0.4, "z=0_only": 0.05,
                         "exempt_by_flag": 0.015}, quick_shards=3),
        SubCheck("iadd_reject", iadd_cases(), check_iadd, quick=800, thorough=40000,
                 rule="history of += on a CombinedDetector with operands partly above the ice; "
                      "a refused += leaves the detector unchanged, an accepted one appends; "
                      "non-trivial = >= 2 additions",
                 floors={"accepted": 0.4}, quick_shards=2,
                 classify=_classify_iadd),
    ],
    assumptions=[
        "antenna-like objects are Antenna subclasses and AntennaSystem subclasses carrying a "
        ".position attribute (as the shipped custom systems do); antenna lists are flat lists",
        "construction order = depth-first order of the sub-detectors as set_positions appends "
        "them and of the positions inside a leaf",
        "hit states are constructed with margins of >= 3x (pulse) and 1e3..1e4x (noise rms) around "
        "the trigger threshold, so expected is_hit / is_hit_mc_truth do not depend on the noise "
        "draw; the numpy RNG is seeded from the case",
        "an antenna above the ice is exempt from rejection exactly when its position was "
        "generated by a Detector subclass with test_antenna_positions=False (one flag value for "
        "all generated subclasses of a case)",
        "a keyword accepted by no sub-detector at all may be refused with TypeError or dropped; "
        "positional arguments to build/trigger calls are not exercised",
        "only leaves override build_antennas; intermediate detectors use pyrex's pass-through",
    ],
    design_ref="3/C19",
)
