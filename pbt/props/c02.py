"""C02 - reciprocity and the symmetries of stratified ice (DESIGN 3/C02)."""

import math

import numpy as np
from hypothesis import strategies as st

from ..core import Property, SubCheck, Violation, require
from .. import gens, ref_rays as R
from ..gens import floats, log_floats
from . import c01

FREQS = [1e7, 1e8, 3e8, 7.5e8, 2e9]
SCAN_MARK = "[layered tracer: fixed 1-degree launch-angle scan misses roots]"
C = 299792458.0


# ---------------------------------------------------------------------------
# helpers


def _summary(path, with_atten=True):
    d = dict(L=float(path.path_length), T=float(path.tof),
             e=np.asarray(path.emitted_direction, dtype=float),
             r=np.asarray(path.received_direction, dtype=float))
    if with_atten:
        d["A"] = np.asarray(path.attenuation(np.array(FREQS)), dtype=float)
    return d


def _riemann_slack(path, ice, dz=1.0):
    """Per-frequency bound on |left sum - right sum| of ds/L_att over the path's z-steps."""
    pts = [np.asarray(p, dtype=float) for p in path._points]
    fa = np.array(FREQS)
    out = np.zeros(len(FREQS))
    for p1, p2 in zip(pts[:-1], pts[1:]):
        if p1[2] == p2[2]:
            continue
        n_steps = int(abs(p2[2] - p1[2]) / dz) + 2
        step = float(np.linalg.norm(p2 - p1)) / n_steps
        zs = np.linspace(p1[2], p2[2], 201)
        g = 1.0 / np.asarray(ice.attenuation_length(zs, fa), dtype=float)
        g = g.reshape(len(zs), -1) if g.shape[0] == len(zs) else g.reshape(-1, len(zs)).T
        out += step * np.sum(np.abs(np.diff(g, axis=0)), axis=0)
    return out


def _trace(kind, f, t, ice, **kw):
    from pyrex.ray_tracing import SpecializedRayTracer, BasicRayTracer, UniformRayTracer
    if kind == "specialized":
        rt = SpecializedRayTracer(f, t, ice_model=ice)
    elif kind == "basic":
        rt = BasicRayTracer(f, t, ice_model=ice, dz=kw.get("dz", 1.0))
    elif kind == "uniform":
        rt = UniformRayTracer(f, t, ice_model=ice)
        rt.max_reflections = kw.get("max_reflections", 0)
    elif kind == "layered":
        from pyrex.custom.layered_ice import LayeredRayTracer
        rt = LayeredRayTracer(f, t, ice_model=ice)
    else:
        raise ValueError(kind)
    return rt


def _rot(v, ang):
    c, s = math.cos(ang), math.sin(ang)
    return np.array([c * v[0] - s * v[1], s * v[0] + c * v[1], v[2]])


def _f17_noise(ice_spec, f, t, paths):
    """4 x cancellation bound (known finding F17) summed over both directions."""
    tot = 0.0
    for p in paths:
        e = np.asarray(p.emitted_direction, dtype=float)
        n_f = ice_spec["n0"] - ice_spec["k"] * math.exp(ice_spec["a"] * float(p.from_point[2]))
        beta = n_f * math.hypot(e[0], e[1])
        tot += 4 * c01.cancellation_bound(ice_spec, np.asarray(p.from_point, float),
                                          np.asarray(p.to_point, float), beta, bool(p.direct))
    return tot


def _grazing(ice_spec, f, t, path):
    """Ray horizontal at the upper end point within ~3e-3 rad (see c01: rho(beta) has an
    inverse-square-root slope there and the tracer links the branches linearly)."""
    e = np.asarray(path.emitted_direction, dtype=float)
    n_f = ice_spec["n0"] - ice_spec["k"] * math.exp(ice_spec["a"] * float(path.from_point[2]))
    n_hi = ice_spec["n0"] - ice_spec["k"] * math.exp(ice_spec["a"] * max(f[2], t[2]))
    beta = n_f * math.hypot(e[0], e[1])
    return 1 - beta / n_hi < 5e-6, beta


# ---------------------------------------------------------------------------
# gradient-index tracers: swap


@st.composite
def gradient_cases(draw):
    case = draw(c01.pair_specs())
    case["tracer"] = draw(st.sampled_from(["specialized", "specialized", "specialized", "basic"]))
    if case["tracer"] == "basic":
        case["dz"] = draw(st.sampled_from([1.0, 0.5]))
    case["shift"] = [draw(floats(-1e4, 1e4)), draw(floats(-1e4, 1e4))]
    case["angle"] = draw(st.one_of(floats(-math.pi, math.pi),
                                   st.sampled_from([math.pi / 2, math.pi, -math.pi / 2])))
    return case


def _gradient_setup(case):
    from pyrex.ray_tracing import SpecializedRayTracer, BasicRayTracer
    ice_spec = case["ice"]
    ice = gens.build_ice(ice_spec)
    cls = SpecializedRayTracer if case["tracer"] == "specialized" else BasicRayTracer
    kw = {} if case["tracer"] == "specialized" else {"dz": case["dz"]}
    f, t = c01.realise(case, cls, ice, **kw)
    return ice_spec, ice, f, t, kw


def _rel(a, b):
    return abs(a - b) / max(abs(a), abs(b), 1e-300)


def check_swap_gradient(case, rec):
    ice_spec, ice, f, t, kw = _gradient_setup(case)
    if case["tracer"] == "basic" and abs(f[2] - t[2]) < 5 * kw["dz"]:
        rec.case(case, nontrivial=False, classes=["unresolved_by_dz"])
        return
    fw = _trace(case["tracer"], f, t, ice, **kw)
    bw = _trace(case["tracer"], t, f, ice, **kw)
    sf, sb = fw.solutions, bw.solutions
    geom = "%s tracer, %r <-> %r (ice %r)" % (case["tracer"], f.tolist(), t.tolist(),
                                              {k: ice_spec[k] for k in ("n0", "k", "a", "range")})
    require(len(sf) in (0, 2) and len(sb) in (0, 2),
            "gradient-index tracer returned %d / %d solutions; %s", len(sf), len(sb), geom)
    require(bool(fw.exists) == (len(sf) > 0) and bool(bw.exists) == (len(sb) > 0),
            "exists flags %r/%r but %d/%d solutions; %s", fw.exists, bw.exists, len(sf), len(sb), geom)
    rho = float(np.hypot(t[0] - f[0], t[1] - f[1]))
    cl = c01._classes(case, ice_spec, f, t, len(sf)) + [case["tracer"]]
    if len(sf) != len(sb):
        # only legitimate within rounding of the shadow boundary (both maxima are
        # recomputed from the swapped depths)
        rmax = max(float(fw.direct_r_max or 0), float(fw.indirect_r_max or 0))
        near = rmax > 0 and abs(rho - rmax) <= 1e-9 * rmax
        require(near, "swapping the endpoints changes the number of solutions from %d to %d; %s",
                len(sf), len(sb), geom)
        rec.case(case, nontrivial=False, classes=cl + ["boundary_flip"])
        return
    analytic = case["tracer"] == "specialized"
    for idx, (pf, pb) in enumerate(zip(sf, sb)):
        a = _summary(pf)
        b = _summary(pb)
        for k in ("L", "T"):
            require(math.isfinite(a[k]) and math.isfinite(b[k]), "solution %d: non-finite %s; %s", idx, k, geom)
        graz, beta = _grazing(ice_spec, f, t, pf)
        if analytic:
            tol_rel = 2e-5
            noise = _f17_noise(ice_spec, f, t, [pf, pb])
            tol_dir = 1e-6
            if beta <= c01.BETA_TOL * 1.02:
                # near-vertical: both directions report beta ~ beta_tolerance; lengths differ by
                # O((beta/n)^2) only, directions are tied to the documented tolerance
                tol_rel += 2 * (c01.BETA_TOL / (ice_spec["n0"] - ice_spec["k"])) ** 2
            if graz:
                tol_rel += 1e-3
                tol_dir += 5e-3
        else:
            # numeric tracer: the trapezoid grids of the two directions differ; both are held
            # to the dz budget of C01, so they agree within twice that budget
            Q = R.Quadrature(R.Profile(ice_spec), epsrel=1e-8)
            bud = c01._numeric_tolerance(Q, ice_spec, f, t, beta, bool(pf.direct), kw["dz"])
            if not math.isfinite(bud):
                continue
            tol_rel = min(0.5, 2 * (2 * bud / max(rho, 1.0)) + 4e-3) + 6 * kw["dz"] / max(a["L"], 1e-9)
            noise = 0.0
            tol_dir = min(1.0, 4 * bud / max(a["L"], 1.0) + 0.02)
        mark = ""
        dL, dT = abs(a["L"] - b["L"]), abs(a["T"] - b["T"])
        if analytic and (dL > tol_rel * a["L"] or dT > tol_rel * a["T"]):
            if dL <= tol_rel * a["L"] + noise and dT <= tol_rel * a["T"] + noise * ice_spec["n0"] / C:
                mark = " " + c01.F17_MARK
        require(dL <= tol_rel * max(a["L"], b["L"]),
                "solution %d: path_length %r one way, %r the other way (rel. tol %.3g); %s%s",
                idx, a["L"], b["L"], tol_rel, geom, mark)
        require(dT <= tol_rel * max(a["T"], b["T"]),
                "solution %d: tof %r one way, %r the other way (rel. tol %.3g); %s%s",
                idx, a["T"], b["T"], tol_rel, geom, mark)
        if graz and min(abs(a["e"][2]), abs(a["r"][2]), abs(b["e"][2]), abs(b["r"][2])) < 1e-6:
            # horizontal to within rounding at an end point: the vertical sense of the
            # direction there is decided by the last bit of the launch angle
            pass
        elif analytic and not mark:
            # emitted(a->b) = -received(b->a)
            d1 = float(np.max(np.abs(a["e"] + b["r"])))
            d2 = float(np.max(np.abs(a["r"] + b["e"])))
            require(d1 <= tol_dir and d2 <= tol_dir,
                    "solution %d: emitted %r / received %r one way, received %r / emitted %r the other "
                    "way are not exchanged and reversed (tol %.3g); %s",
                    idx, a["e"].tolist(), a["r"].tolist(), b["r"].tolist(), b["e"].tolist(), tol_dir, geom)
        elif not analytic:
            d1 = float(np.max(np.abs(a["e"] + b["r"])))
            d2 = float(np.max(np.abs(a["r"] + b["e"])))
            require(d1 <= tol_dir and d2 <= tol_dir,
                    "solution %d: directions not exchanged and reversed: %r vs %r (tol %.3g); %s",
                    idx, a["e"].tolist(), b["r"].tolist(), tol_dir, geom)
        # attenuation: same ray, same integral of ds / L_att
        require(np.all(np.isfinite(a["A"])) and np.all(np.isfinite(b["A"])),
                "solution %d: non-finite attenuation %r / %r; %s", idx, a["A"].tolist(), b["A"].tolist(), geom)
        tol_att = 2e-3 if analytic else 2e-2
        if graz or beta <= c01.BETA_TOL * 1.02:
            tol_att = 5e-2
        require(float(np.max(np.abs(a["A"] - b["A"]))) <= tol_att + (1.0 if mark else 0.0),
                "solution %d: attenuation %r one way, %r the other way (tol %.3g); %s",
                idx, a["A"].tolist(), b["A"].tolist(), tol_att, geom)
    rec.case(case, nontrivial=len(sf) == 2 and f[2] != t[2], classes=cl)


# ---------------------------------------------------------------------------
# gradient-index tracers: translation and rotation about the vertical


def check_move_gradient(case, rec):
    ice_spec, ice, f, t, kw = _gradient_setup(case)
    if case["tracer"] == "basic" and abs(f[2] - t[2]) < 5 * kw["dz"]:
        rec.case(case, nontrivial=False, classes=["unresolved_by_dz"])
        return
    ang = case["angle"]
    sh = np.array([case["shift"][0], case["shift"][1], 0.0])
    mid = np.array([f[0], f[1], 0.0])
    f2 = mid + _rot(f - mid, ang) + sh
    t2 = mid + _rot(t - mid, ang) + sh
    base = _trace(case["tracer"], f, t, ice, **kw)
    moved = _trace(case["tracer"], f2, t2, ice, **kw)
    s1, s2 = base.solutions, moved.solutions
    geom = "%s tracer, %r -> %r rotated by %r rad and shifted by %r (ice %r)" % (
        case["tracer"], f.tolist(), t.tolist(), ang, case["shift"],
        {k: ice_spec[k] for k in ("n0", "k", "a", "range")})
    rho = float(np.hypot(t[0] - f[0], t[1] - f[1]))
    rho2 = float(np.hypot(t2[0] - f2[0], t2[1] - f2[1]))
    cl = c01._classes(case, ice_spec, f, t, len(s1)) + [case["tracer"]]
    if len(s1) != len(s2):
        rmax = max(float(base.direct_r_max or 0), float(base.indirect_r_max or 0))
        near = rmax > 0 and abs(rho - rmax) <= 1e-9 * rmax + 4 * abs(rho - rho2)
        require(near, "moving both points horizontally changes the number of solutions from %d to %d; %s",
                len(s1), len(s2), geom)
        rec.case(case, nontrivial=False, classes=cl + ["boundary_flip"])
        return
    # the moved pair has the same separation up to rounding of the coordinates (|x| <= 2e4)
    drho = abs(rho - rho2) + 8 * 2.2e-16 * 3e4
    for idx, (p1, p2) in enumerate(zip(s1, s2)):
        a, b = _summary(p1), _summary(p2)
        graz, beta = _grazing(ice_spec, f, t, p1)
        # sensitivity of the solution to the separation: d(length) <= d(rho) / sin(theta) and, for
        # grazing or nearly-flat rays, the launch angle moves like d(rho) / (d rho / d theta)
        sin_e = max(math.hypot(a["e"][0], a["e"][1]), 1e-6)
        tol_L = 2e-8 * a["L"] + 4 * drho / sin_e + 1e-9
        # (the root finder stops at 1e-12 rad; deep in nearly flat index the launch angle is
        # conditioned like 1e-8 .. 1e-9)
        tol_dir = 2e-8 + 4 * drho / max(a["L"], 1e-3) / max(abs(a["e"][2]), 1e-3)
        if graz or beta <= c01.BETA_TOL * 1.02 or case["tracer"] == "basic":
            tol_L += 1e-6 * a["L"] + 1e-6
            tol_dir += 1e-5
        noise = _f17_noise(ice_spec, f, t, [p1, p2]) if case["tracer"] == "specialized" else 0.0
        mark = ""
        dL, dT, tn = abs(a["L"] - b["L"]), abs(a["T"] - b["T"]), ice_spec["n0"] / C
        if (dL > tol_L or dT > tol_L * tn) and dL <= tol_L + noise and dT <= (tol_L + noise) * tn:
            mark = " " + c01.F17_MARK
        require(abs(a["L"] - b["L"]) <= tol_L,
                "solution %d: path_length changes from %r to %r (tol %.3g); %s%s", idx, a["L"], b["L"],
                tol_L, geom, mark)
        require(abs(a["T"] - b["T"]) <= tol_L * ice_spec["n0"] / C,
                "solution %d: tof changes from %r to %r; %s%s", idx, a["T"], b["T"], geom, mark)
        # known finding F17: rounding noise of the closed forms moves the root of rho(theta)
        noise_dir = 4 * noise / max(a["L"], 1e-3) / max(abs(a["e"][2]), abs(a["r"][2]), 1e-3)
        for name in ("e", "r"):
            v1, v2 = a[name], b[name]
            exp = _rot(v1, ang)
            dev = max(abs(v1[2] - v2[2]), float(np.max(np.abs(exp - v2))))
            tol_h = tol_dir + 4e-16 / max(rho, 1e-9) * 3e4
            dmark = " " + c01.F17_MARK if tol_h < dev <= tol_h + noise_dir else ""
            require(abs(v1[2] - v2[2]) <= tol_dir,
                    "solution %d: vertical component of the %s direction changes from %r to %r; %s%s",
                    idx, "emitted" if name == "e" else "received", float(v1[2]), float(v2[2]), geom, dmark)
            require(float(np.max(np.abs(exp - v2))) <= tol_h,
                    "solution %d: horizontal components of the %s direction %r do not follow the rotation "
                    "(expected %r, got %r); %s%s", idx, "emitted" if name == "e" else "received",
                    v1.tolist(), exp.tolist(), v2.tolist(), geom, dmark)
        require(float(np.max(np.abs(a["A"] - b["A"]))) <= 1e-6 + 1e-2 * min(1.0, tol_L),
                "solution %d: attenuation changes from %r to %r; %s", idx, a["A"].tolist(), b["A"].tolist(), geom)
    rec.case(case, nontrivial=len(s1) == 2 and rho > 0, classes=cl)


# ---------------------------------------------------------------------------
# uniform tracer


@st.composite
def uniform_cases(draw):
    ice = draw(gens.uniform_ice_specs())
    lo, hi = ice["range"]
    pts = []
    for _ in range(2):
        # strictly inside: an endpoint ON a reflecting boundary makes the reflected path
        # degenerate (a leg of zero length), which the image construction does not define
        z = draw(st.one_of(floats(lo + 0.01, hi - 0.01),
                           st.sampled_from([lo + 0.01, hi - 0.01])))
        pts.append([draw(floats(-1e4, 1e4)), draw(floats(-1e4, 1e4)), z])
    kind = draw(st.sampled_from(["generic", "generic", "vertical", "same_depth", "near"]))
    if kind == "vertical":
        pts[1][0], pts[1][1] = pts[0][0], pts[0][1]
    elif kind == "same_depth":
        pts[1][2] = pts[0][2]
    elif kind == "near":
        pts[1][0] = pts[0][0] + draw(floats(-50, 50))
        pts[1][1] = pts[0][1] + draw(floats(-50, 50))
    return dict(ice=ice, a=pts[0], b=pts[1], max_reflections=draw(st.integers(0, 3)),
                shift=[draw(floats(-1e4, 1e4)), draw(floats(-1e4, 1e4))],
                angle=draw(st.one_of(floats(-math.pi, math.pi),
                                     st.sampled_from([math.pi / 2, math.pi, -math.pi / 2]))),
                kind=kind)


def _expected_uniform_count(ice, nref):
    n = 1
    for r in range(1, nref + 1):
        for d in (1, -1):
            up_needed = r > 1 or d == 1
            down_needed = r > 1 or d == -1
            if (ice["above"] is None and up_needed) or (ice["below"] is None and down_needed):
                continue
            n += 1
    return n


def check_uniform(case, rec):
    ice_spec = case["ice"]
    ice = gens.build_ice(ice_spec)
    a, b = np.array(case["a"]), np.array(case["b"])
    nref = case["max_reflections"]
    if float(np.linalg.norm(a - b)) < 1e-6:
        # (numerically) identical points: no direction is defined
        rec.case(case, nontrivial=False, classes=["identical_points"])
        return
    fw = _trace("uniform", a, b, ice, max_reflections=nref)
    bw = _trace("uniform", b, a, ice, max_reflections=nref)
    sf, sb = fw.solutions, bw.solutions
    geom = "uniform tracer (%d reflections), %r <-> %r (ice %r)" % (nref, a.tolist(), b.tolist(), ice_spec)
    require(bool(fw.exists) == (len(sf) > 0) and bool(bw.exists) == (len(sb) > 0), "exists vs solutions; %s", geom)
    require(len(sf) == len(sb), "swapping changes the number of solutions from %d to %d; %s", len(sf), len(sb), geom)
    require(len(sf) == _expected_uniform_count(ice_spec, nref),
            "%d solutions, expected %d (direct + two per reflection order unless the boundary index is None); %s",
            len(sf), _expected_uniform_count(ice_spec, nref), geom)
    n = ice_spec["n"]
    # reciprocity: the reversed path of every solution is a solution of the swapped pair
    A = [_summary(p) for p in sf]
    B = [_summary(p) for p in sb]
    used = set()
    for i, pa in enumerate(A):
        best = None
        for j, pb in enumerate(B):
            if j in used:
                continue
            if abs(pa["L"] - pb["L"]) <= 1e-9 * max(pa["L"], 1.0) and \
                    float(np.max(np.abs(pa["e"] + pb["r"]))) <= 1e-7 and \
                    float(np.max(np.abs(pa["r"] + pb["e"]))) <= 1e-7:
                best = j
                break
        require(best is not None,
                "solution %d (length %r, emitted %r, received %r) has no reversed counterpart among the "
                "solutions of the swapped pair %r; %s", i, pa["L"], pa["e"].tolist(), pa["r"].tolist(),
                [(q["L"], q["e"].tolist(), q["r"].tolist()) for q in B], geom)
        used.add(best)
        pb = B[best]
        require(abs(pa["T"] - pb["T"]) <= 1e-12 * max(pa["T"], 1e-30) + 1e-20, "tof differs; %s", geom)
        require(abs(pa["T"] - n * pa["L"] / C) <= 1e-12 * pa["T"] + 1e-20, "tof != n L / c; %s", geom)
        # the uniform path sums ds/L_att over left end points of z-steps of at most 1 m (documented
        # `dz`); the reversed path uses the right end points of the same steps, so the two exponents
        # differ by at most (step length) x (total variation of 1/L_att along the segment)
        slack = _riemann_slack(sf[i], ice)
        dif = np.abs(np.log(np.maximum(pa["A"], 1e-300)) - np.log(np.maximum(pb["A"], 1e-300)))
        require(bool(np.all((dif <= 1.5 * slack + 1e-9) | (np.maximum(pa["A"], pb["A"]) < 1e-290))),
                "attenuation %r one way, %r the other (exponents may differ by %r from the 1 m step "
                "rule); %s", pa["A"].tolist(), pb["A"].tolist(), (1.5 * slack).tolist(), geom)
    # translation + rotation
    ang = case["angle"]
    sh = np.array([case["shift"][0], case["shift"][1], 0.0])
    mid = np.array([a[0], a[1], 0.0])
    a2 = mid + _rot(a - mid, ang) + sh
    b2 = mid + _rot(b - mid, ang) + sh
    mv = _trace("uniform", a2, b2, ice, max_reflections=nref).solutions
    require(len(mv) == len(sf), "moving the pair changes the number of solutions; %s", geom)
    scale = max(1.0, float(np.max(np.abs(np.concatenate([a, b, a2, b2])))))
    for i, (pa, pm) in enumerate(zip(A, [_summary(p) for p in mv])):
        tol = 1e-9 * max(pa["L"], 1.0) + 64 * 2.2e-16 * scale
        require(abs(pa["L"] - pm["L"]) <= tol,
                "solution %d: path_length changes from %r to %r when both points are rotated by %r and "
                "shifted by %r; %s", i, pa["L"], pm["L"], ang, case["shift"], geom)
        require(abs(pa["T"] - pm["T"]) <= tol * n / C, "solution %d: tof changes under the move; %s", i, geom)
        tol_dir = 1e-9 + 64 * 2.2e-16 * scale / max(pa["L"], 1e-6)
        for name in ("e", "r"):
            exp = _rot(pa[name], ang)
            require(float(np.max(np.abs(exp - pm[name]))) <= tol_dir,
                    "solution %d: %s direction %r should become %r after the rotation, got %r; %s",
                    i, "emitted" if name == "e" else "received", pa[name].tolist(), exp.tolist(),
                    pm[name].tolist(), geom)
        require(float(np.max(np.abs(pa["A"] - pm["A"]))) <= 1e-9 + 1e-6,
                "solution %d: attenuation changes under the move; %s", i, geom)
    offs = bool(a[0] != 0 or a[1] != 0)
    cl = ["reflections=%d" % nref, case["kind"]] + (["xy_offset"] if offs else [])
    if len(sf) > 1:
        cl.append("has_reflected")
    rec.case(case, nontrivial=len(sf) > 1 and offs, classes=cl)


def _classify_uniform(case, exc):
    return None


# ---------------------------------------------------------------------------
# layered tracer


@st.composite
def layered_cases(draw):
    n_layers = draw(st.integers(2, 3))
    bounds = [0.0]
    for _ in range(n_layers):
        bounds.append(bounds[-1] - draw(floats(40.0, 400.0)))
    layers = []
    n_prev = None
    gradient_top = draw(st.booleans())
    for i in range(n_layers):
        rng = [bounds[i + 1], bounds[i]]
        n = draw(floats(1.2, 1.9))
        if i == 0 and gradient_top:
            # a gradient-index layer on top: reciprocity must survive the conversion of the
            # launch angle to the angle at the boundary (Snell with the layer's own profile)
            layers.append(dict(cls="AntarcticIce", n0=1.78, k=0.43, a=draw(st.sampled_from([0.0132, 0.02, 0.008])),
                               range=rng, above=1.0, below=None))
        else:
            layers.append(dict(cls="UniformIce", n=n, range=rng, above=1.0, below=None))
    ice = dict(cls="LayeredIce", layers=layers, above=1.0, below=draw(st.sampled_from([None, 2.2])))
    pts = []
    for _ in range(2):
        z = draw(floats(bounds[-1] + 1.0, bounds[0] - 1.0))
        pts.append([draw(floats(-2e3, 2e3)), draw(floats(-2e3, 2e3)), z])
    pts[1][0] = pts[0][0] + draw(floats(-300, 300))
    pts[1][1] = pts[0][1] + draw(floats(-300, 300))
    if gradient_top and math.hypot(pts[1][0] - pts[0][0], pts[1][1] - pts[0][1]) < 0.1 * abs(bounds[-1]):
        # keep rays through the gradient layer out of its documented near-vertical regime
        # (beta <= beta_tolerance: directions, junction points and even the solution count
        # are only defined to ~0.005/n there; C01 and C18 bound that regime)
        pts[1][0] = pts[0][0] + 0.1 * abs(bounds[-1]) + draw(floats(0, 200))
    return dict(ice=ice, a=pts[0], b=pts[1],
                shift=[draw(floats(-2e3, 2e3)), draw(floats(-2e3, 2e3))],
                angle=draw(st.one_of(floats(-math.pi, math.pi), st.sampled_from([math.pi / 2, math.pi]))))


def _match(A, B, tol_L, tol_dir, reverse):
    """Greedy one-to-one matching of solution summaries."""
    used = set()
    pairs = []
    for i, pa in enumerate(A):
        found = None
        for j, pb in enumerate(B):
            if j in used:
                continue
            if abs(pa["L"] - pb["L"]) > tol_L * max(pa["L"], 1.0):
                continue
            if reverse:
                ok = float(np.max(np.abs(pa["e"] + pb["r"]))) <= tol_dir and \
                    float(np.max(np.abs(pa["r"] + pb["e"]))) <= tol_dir
            else:
                ok = abs(pa["e"][2] - pb["e"][2]) <= tol_dir and abs(pa["r"][2] - pb["r"][2]) <= tol_dir
            if ok:
                found = j
                break
        if found is None:
            return None, i
        used.add(found)
        pairs.append((i, found))
    return pairs, None


def check_layered(case, rec):
    ice = gens.build_ice(case["ice"])
    a, b = np.array(case["a"]), np.array(case["b"])
    if float(np.linalg.norm(a - b)) < 1e-3:
        rec.case(case, nontrivial=False, classes=["identical_points"])
        return
    if any(l["cls"] != "UniformIce" for l in case["ice"]["layers"]) and \
            float(np.hypot(a[0] - b[0], a[1] - b[1])) < 0.1 * abs(case["ice"]["layers"][-1]["range"][0]):
        rec.case(case, nontrivial=False, classes=["near_vertical_gradient"])
        return
    fw = _trace("layered", a, b, ice)
    sf = fw.solutions
    geom = "layered tracer, %r <-> %r (layers %r)" % (
        a.tolist(), b.tolist(), [(l.get("n", l["cls"]), l["range"]) for l in case["ice"]["layers"]])
    gradient = any(l["cls"] != "UniformIce" for l in case["ice"]["layers"])
    require(bool(fw.exists) == (len(sf) > 0), "exists=%r but %d solutions; %s", fw.exists, len(sf), geom)
    A = [_summary(p, with_atten=False) for p in sf]
    for i, pa in enumerate(A):
        require(math.isfinite(pa["L"]) and pa["L"] >= np.linalg.norm(b - a) * (1 - 1e-9),
                "solution %d: path_length %r shorter than the chord; %s", i, pa["L"], geom)
    sb = _trace("layered", b, a, ice).solutions
    if len(sb) != len(sf):
        # known finding (C18): the layered tracer brackets launch angles on a fixed 91-point
        # scan and misses pairs of roots inside one step.  Mechanism probe: a 32x finer scan
        fa, fb = _trace("layered", a, b, ice), _trace("layered", b, a, ice)
        fa._angle_checks = fb._angle_checks = 2881
        mark = " " + SCAN_MARK if len(fa.solutions) == len(fb.solutions) else ""
        raise Violation("swapping changes the number of solutions from %d to %d; %s%s"
                        % (len(sf), len(sb), geom, mark))
    B = [_summary(p, with_atten=False) for p in sb]
    # (gradient layer: closed-form rounding noise ~1e-9 relative; a wrong Snell conversion
    # shows at 1e-6 in length and 1e-2 in direction)
    steep = gradient and any(math.hypot(q["e"][0], q["e"][1]) < 0.05 for q in A + B)
    # (near-vertical rays through a gradient layer sit in the documented beta_tolerance /
    # cancellation regime of the analytic sub-paths: directions are only tied to beta_tolerance/n ~ 4e-3 there)
    pairs, miss = _match(A, B, 1e-6, 1e-5 if not steep else 5e-3, reverse=True)
    require(pairs is not None, "solution %s (L=%r e=%r r=%r) has no reversed counterpart after the swap "
            "(candidates %r); %s", miss, A[miss or 0]["L"] if A else None,
            A[miss or 0]["e"].tolist() if A else None, A[miss or 0]["r"].tolist() if A else None,
            [(q["L"], q["e"].tolist(), q["r"].tolist()) for q in B], geom)
    for i, j in pairs:
        require(abs(A[i]["T"] - B[j]["T"]) <= (1e-6 if not gradient else 2e-6) * A[i]["T"],
                "tof %r one way, %r the other way; %s", A[i]["T"], B[j]["T"], geom)
    ang = case["angle"]
    sh = np.array([case["shift"][0], case["shift"][1], 0.0])
    mid = np.array([a[0], a[1], 0.0])
    a2 = mid + _rot(a - mid, ang) + sh
    b2 = mid + _rot(b - mid, ang) + sh
    sm = _trace("layered", a2, b2, ice).solutions
    require(len(sm) == len(sf), "moving the pair changes the number of solutions from %d to %d; %s",
            len(sf), len(sm), geom)
    M = [_summary(p, with_atten=False) for p in sm]
    pairs, miss = _match(A, M, 1e-7 if not gradient else 1e-6, 1e-6 if not steep else 5e-3, reverse=False)
    require(pairs is not None, "solution %s has no counterpart after rotating by %r and shifting by %r; %s",
            miss, ang, case["shift"], geom)
    for i, j in pairs:
        require(abs(A[i]["T"] - M[j]["T"]) <= (1e-7 if not gradient else 1e-6) * A[i]["T"],
                "tof changes under the move; %s", geom)
        for name in ("e", "r"):
            exp = _rot(A[i][name], ang)
            require(float(np.max(np.abs(exp - M[j][name]))) <= (1e-6 if not steep else 5e-3),
                    "%s direction %r should become %r after the rotation, got %r; %s",
                    "emitted" if name == "e" else "received", A[i][name].tolist(), exp.tolist(),
                    M[j][name].tolist(), geom)
    rec.case(case, nontrivial=len(sf) >= 2, classes=["sol=%d" % min(len(sf), 6),
                                                     "layers=%d" % len(case["ice"]["layers"])]
             + (["gradient_layer"] if gradient else []))


PROPERTY = Property(
    "C02", "Ray solution sets respect reciprocity and the symmetries of stratified ice",
    [
        SubCheck("swap_gradient", gradient_cases(), check_swap_gradient, quick=900, thorough=40000,
                 rule="C01's endpoint pairs x {Specialized, Basic dz in 1,0.5}: trace a->b and b->a; same "
                      "count (0 or 2), exists flag, pairing by order: length/tof/attenuation(5 freqs) equal, "
                      "directions exchanged and reversed; non-trivial = two solutions and different depths",
                 floors={"sol=2": 0.3, "basic": 0.1, "source_above": 0.2}, classify=c01._classify),
        SubCheck("move_gradient", gradient_cases(), check_move_gradient, quick=900, thorough=40000,
                 rule="same pairs rotated about the vertical by any angle (incl. quarter turns) and shifted by up "
                      "to 1e4 m: lengths/times/attenuations/vertical components unchanged, horizontal components "
                      "rotate; non-trivial = two solutions and rho>0",
                 floors={"sol=2": 0.3, "basic": 0.1}, classify=c01._classify),
        SubCheck("uniform", uniform_cases(), check_uniform, quick=1500, thorough=60000,
                 rule="UniformIce (index, range, boundary indices incl. None) x arbitrary pair with x,y offsets x "
                      "0-3 reflections: solution count, reversed counterpart of every solution after the swap, "
                      "tof = n L / c, invariance under rotation + shift; non-trivial = reflected solutions and "
                      "source off the axis",
                 floors={"has_reflected": 0.4, "xy_offset": 0.6}, classify=_classify_uniform),
        SubCheck("layered", layered_cases(), check_layered, quick=120, thorough=2500, quick_shards=12,
                 floors={"gradient_layer": 0.2},
                 classify=lambda case, exc: "one-degree-scan-misses-roots" if SCAN_MARK in str(exc) else None,
                 rule="2-3 layers (uniform, or an exponential layer on top) x pair inside: swap and rotate/shift relations on the matched solution "
                      "sets; non-trivial = at least two solutions",
                 shrink_cap=(40, 240)),
    ],
    assumptions=[
        "pairing of solutions after a swap is by order for the gradient-index tracers (their documented order: "
        "more direct first) and by matching length and reversed directions for the uniform and layered tracers",
        "tolerances for the analytic tracer include the two documented approximation parameters and the known "
        "finding F17; the numeric tracer is held to twice its dz budget (see C01)",
    ],
    design_ref="3/C02",
)
