"""C09 - antenna / antenna-system hit bookkeeping under every history (DESIGN 3/C09).

A case is one *history*: the description of an antenna (or antenna system with a
harness front end) and a list of operations (receive / signals / all_waveforms /
waveforms / is_hit / is_hit_mc_truth / full_waveform / is_hit_during / make_noise /
clear).  The interpreter below executes the operations one at a time on the pyrex
object and on a *model* which is nothing but the list of signals received since the
last clear (snapshots of what `signals` reported right after each receive).

Every operation is executed FIRST on the untouched state (reads fill the incremental
caches, so a read is itself part of the history) and only afterwards are further reads
used to decide the clause.

All time grids of a case live on one lattice of step h/4: a grid is
(k + q/4) h + (m h) i, i = 0..n-1.  With h = 2^-j ("dyadic") every grid, every lead-in
grid and every "number of samples" is exact in floating point, so grid statements are
asserted bit-for-bit; with an arbitrary h the same statements carry the rounding
tolerances stated at each comparison.  Lattice indices (integers) identify "the same
absolute time" in two different windows without comparing floats.
"""

import math

import numpy as np
from hypothesis import strategies as st

from ..core import Property, SubCheck, Violation, require
from .. import gens
from ..gens import floats, log_floats

EPS = 2.220446049250313e-16
K_BOLTZMANN = 1.380649e-23

# ---------------------------------------------------------------------------
# lattice grids and signal shapes


def grid_times(lat, g):
    """Sample times of grid spec g = {k, q, m, n} on the lattice lat = {h, ...}."""
    h = lat["h"]
    return (g["k"] + g["q"] / 4.0) * h + (g["m"] * h) * np.arange(g["n"])


def grid_index(g):
    """Integer lattice indices (units of h/4) of the samples of g."""
    return 4 * g["k"] + g["q"] + 4 * g["m"] * np.arange(g["n"])


def shape_values(spec, n, zero_ends):
    a = spec["amp"]
    i = np.arange(n, dtype=float)
    s = spec["shape"]
    if s == "const":
        v = np.full(n, a)
    elif s == "ramp":
        v = a * (i + 1.0) / n
    elif s == "alt":
        v = a * (1.0 - 2.0 * (np.arange(n) % 2))
    elif s == "bump":
        v = a * np.sin(math.pi * (i + 0.5) / n)
    elif s == "spike":
        v = np.zeros(n)
        v[spec["j"] % n] = a
    elif s == "list":
        v = a * np.array([spec["v"][j % len(spec["v"])] for j in range(n)], dtype=float)
    else:
        raise ValueError(s)
    if zero_ends:
        v[0] = 0.0
        v[-1] = 0.0
    return v


def lin_interp(x, xp, fp):
    """Linear interpolation of (xp, fp) at x, zero outside [xp[0], xp[-1]] (harness version,
    written from the sentence "interpolated, extrapolating with zero")."""
    x = np.asarray(x, dtype=float)
    out = np.zeros(len(x))
    inside = (x >= xp[0]) & (x <= xp[-1])
    if not inside.any():
        return out
    xi = x[inside]
    j = np.clip(np.searchsorted(xp, xi, side="right") - 1, 0, len(xp) - 2)
    w = (xi - xp[j]) / (xp[j + 1] - xp[j])
    out[inside] = fp[j] * (1.0 - w) + fp[j + 1] * w
    return out


# ---------------------------------------------------------------------------
# harness front end: linear, causal, memory <= lead_in_time


def fe_memory_samples(fe, lead, dt):
    """Number of whole-sample lags used on a grid of spacing dt: the FIR never reaches
    further back than lead_in_time (strictly: the 1e-6 keeps ulp noise of lead/dt away
    from the floor)."""
    return max(0, min(len(fe["taps"]) - 1, int(math.floor(lead / dt - 1e-6))))


def fe_apply(fe, lead, t, x):
    """y(t_n) = gain * sum_k c_k x(t_n - k dt)  +  echo * x(t_n - frac*lead)
    (x taken as zero before the first sample handed in, the echo by linear interpolation)."""
    t = np.asarray(t, dtype=float)
    x = np.asarray(x, dtype=float)
    n = len(x)
    dt = t[1] - t[0]
    y = np.zeros(n)
    for k in range(fe_memory_samples(fe, lead, dt) + 1):
        if k < n:
            y[k:] += fe["taps"][k] * x[:n - k]
    y *= fe["gain"]
    if fe["echo"] != 0.0:
        y += fe["echo"] * lin_interp(t - fe["frac"] * lead, t, x)
    return y


def fe_norm(fe):
    return abs(fe["gain"]) * sum(abs(c) for c in fe["taps"]) + abs(fe["echo"])


def extended_grid(T, lead, fe):
    """The window T continued backwards with the same dt and phase, far beyond the memory."""
    dt = T[1] - T[0]
    L = int(math.ceil(lead / dt)) + len(fe["taps"]) + 8
    return np.concatenate((T[0] - dt * np.arange(L, 0, -1), T)), L


# ---------------------------------------------------------------------------
# building the pyrex objects


def trigger_predicate(ant):
    """Harness statement of each trigger used (evaluated on the returned waveform values)."""
    kind, thr = ant["kind"], ant["threshold"]
    if kind == "antenna":
        return lambda v: True
    if kind == "dipole":
        return lambda v: bool(np.max(np.abs(v)) > thr)
    if kind == "thresh":
        return lambda v: bool(np.max(v) - np.min(v) > thr)
    raise ValueError(kind)


def noise_rms(ant):
    if ant["kind"] == "dipole":
        return math.sqrt(K_BOLTZMANN * ant["temperature"] * ant["resistance"] * ant["bandwidth"])
    return ant["rms"]


def has_noise_parameters(ant):
    return ant["kind"] == "dipole" or ant["band"] is not None


def antenna_class_and_kwargs(ant):
    from pyrex.antenna import Antenna, DipoleAntenna
    pos = (0.0, 0.0, -100.0)
    if ant["kind"] == "dipole":
        return DipoleAntenna, dict(name="d", position=pos, center_frequency=ant["center"],
                                   bandwidth=ant["bandwidth"], temperature=ant["temperature"],
                                   resistance=ant["resistance"], orientation=(0, 0, 1),
                                   trigger_threshold=ant["threshold"], noisy=ant["noisy"])
    kw = dict(position=pos, antenna_factor=ant["af"], efficiency=ant["eff"], noisy=ant["noisy"],
              freq_range=None if ant["band"] is None else tuple(ant["band"]),
              noise_rms=ant["rms"])
    if ant["kind"] == "antenna":
        return Antenna, kw
    thr = ant["threshold"]

    class PeakToPeakAntenna(Antenna):
        def trigger(self, signal):
            return np.max(signal.values) - np.min(signal.values) > thr
    return PeakToPeakAntenna, kw


def build_object(case):
    """Returns (object under test, underlying antenna, recorder list of front-end grids)."""
    np.random.seed(case["seed"])        # DipoleAntenna draws its x axis from the global RNG
    cls, kw = antenna_class_and_kwargs(case["ant"])
    sysd = case.get("sys")
    if sysd is None:
        a = cls(**kw)
        return a, a, None
    from pyrex.detector import AntennaSystem
    from pyrex.signals import Signal
    fe, lead, calls = sysd["fe"], sysd["lead_q"] / 4.0 * case["lat"]["h"], []
    sthr = sysd["thr"]

    class HarnessSystem(AntennaSystem):
        def __init__(self, antenna):
            super().__init__(antenna)
            self.lead_in_time = lead

        def front_end(self, signal):
            calls.append(np.array(signal.times, dtype=float))
            return Signal(signal.times, fe_apply(fe, lead, signal.times, signal.values),
                          value_type=signal.value_type)

    if sthr is not None:
        class HarnessSystemT(HarnessSystem):
            def trigger(self, signal):
                return float(np.sum(np.asarray(signal.values) ** 2)) > sthr * sthr
        HarnessSystem = HarnessSystemT
    if sysd["via_class"]:
        s = HarnessSystem(cls)
        s.setup_antenna(**kw)
    else:
        s = HarnessSystem(cls(**kw))
    return s, s.antenna, calls


# ---------------------------------------------------------------------------
# the interpreter


class Runner:
    def __init__(self, case, collect=False):
        self.case = case
        self.lat = case["lat"]
        self.dyadic = case["lat"]["dyadic"]
        self.ant = case["ant"]
        self.sysd = case.get("sys")
        self.noisy = case["ant"]["noisy"]
        self.obj, self.antenna, self.calls = build_object(case)
        self.h = self.lat["h"]
        self.lead = 0.0 if self.sysd is None else self.sysd["lead_q"] / 4.0 * self.h
        self.fe = None if self.sysd is None else self.sysd["fe"]
        if self.sysd is not None and self.sysd["thr"] is not None:
            sthr = self.sysd["thr"]
            self.pred = lambda v: bool(float(np.sum(np.asarray(v) ** 2)) > sthr * sthr)
        else:
            self.pred = trigger_predicate(self.ant)
        self.rms = noise_rms(self.ant) if has_noise_parameters(self.ant) else 0.0
        self.norm = 1.0 if self.fe is None else fe_norm(self.fe)
        # model
        self.sig = []           # dict(g, t, v) snapshots of the antenna-level signals
        self.noise = {}         # lattice key -> noise value of the current realisation
        self.noise_old = None   # the realisation before the last reset
        self.reset_diffs = []   # (old, new) at shared keys since the last reset
        # bookkeeping for classes / non-triviality
        self.classes = set()
        self.queried = False
        self.q_then_r = False
        self.cleared_after_query = False
        self.collect = collect
        self.obs = []           # observations (twin comparison)
        self.step_no = -1

    # -- helpers -------------------------------------------------------------

    def where(self):
        return "step %d (%s) of %s" % (self.step_no, self.case["ops"][self.step_no]["op"]
                                       if 0 <= self.step_no < len(self.case["ops"]) else "final",
                                       self.describe())

    def describe(self):
        d = self.ant["kind"] + ("+noise" if self.noisy else "")
        if self.sysd is not None:
            d = "AntennaSystem[lead=%r s, fe=%r](%s)" % (self.lead, self.fe, d)
        return d

    def scale(self):
        return sum(float(np.max(np.abs(s["v"]))) for s in self.sig)

    def tol_sum(self):
        """Rounding of a sum of linear interpolations (and of the linear front end):
        1e-12 of the summed peak amplitudes; any real bookkeeping error is O(amplitude)."""
        return 1e-12 * self.norm * self.scale() + 1e-300

    def tol_noise(self):
        """Noise differences at one absolute time: 1e-9 rms (DESIGN) on top of the rounding
        of subtracting the signal sum."""
        extra = 0.0 if self.dyadic else 1e-7      # ulp-different lead-in grids, see module doc
        return (1e-9 + extra) * self.norm * self.rms + 10 * self.tol_sum() \
            + 64 * EPS * self.norm * self.scale()

    def signal_sum(self, T, upto=None):
        """Antenna-level: sum of the received signals interpolated onto T (reception order)."""
        out = np.zeros(len(T))
        for s in self.sig[:upto]:
            out = out + lin_interp(T, s["t"], s["v"])
        return out

    def reference(self, T, upto=None):
        """What the object's waveform over T must be without noise."""
        if self.sysd is None:
            return self.signal_sum(T, upto)
        ext, L = extended_grid(T, self.lead, self.fe)
        return fe_apply(self.fe, self.lead, ext, self.signal_sum(ext, upto))[L:]

    def reference_noise(self, T):
        """The object's noise over T according to the antenna's own noise realisation."""
        if self.sysd is None:
            return np.array(self.antenna.make_noise(T).values, dtype=float)
        ext, L = extended_grid(T, self.lead, self.fe)
        return fe_apply(self.fe, self.lead, ext, np.array(self.antenna.make_noise(ext).values))[L:]

    def noise_keys(self, g):
        idx = grid_index(g)
        if self.sysd is None:
            return [("a", int(i)) for i in idx]
        # after a front end that works on samples the noise seen at one absolute time
        # belongs to the lattice (dt and phase) of the window
        m4 = 4 * g["m"]
        return [("s", g["m"], int(idx[0] % m4), int(i)) for i in idx]

    def register_noise(self, g, values, what, T):
        """Noise values seen at the samples T of grid g.  Two observations are compared when they are at
        the same lattice point AND the two float times are equal (always, on a dyadic lattice; on an
        arbitrary lattice two expressions of one lattice time may differ by an ulp, and pyrex's FFT noise
        is discontinuous at its period seam, see `histories`)."""
        tol = self.tol_noise()
        shared = 0
        for key, v, t in zip(self.noise_keys(g), values, T):
            v, t = float(v), float(t)
            if key in self.noise:
                if self.noise[key][1] == t:
                    shared += 1
                    require(abs(self.noise[key][0] - v) <= tol,
                            "%s: %s sees noise %r at time %r (lattice %r) where an earlier query of the same "
                            "noise realisation saw %r (tolerance %.3g)", self.where(), what, v, t, key,
                            self.noise[key][0], tol)
            else:
                self.noise[key] = (v, t)
            if self.noise_old is not None and key in self.noise_old and self.noise_old[key][1] == t:
                self.reset_diffs.append((self.noise_old[key][0], v))
        if shared:
            self.classes.add("noise_shared")
        self.check_reset_differs()

    def check_reset_differs(self, final=False):
        d = self.reset_diffs
        if len(d) < 3:
            return
        old = np.array([a for a, _ in d])
        new = np.array([b for _, b in d])
        # a band above the Nyquist frequency of the master grid gives an all-zero realisation (what is
        # observed is then only the rounding of "waveform minus signals"): nothing to distinguish
        floor = 1e-3 * self.norm * self.rms
        if not (float(np.max(np.abs(old))) > floor and float(np.max(np.abs(new))) > floor):
            self.classes.add("noise_degenerate")
            return
        self.classes.add("noise_reset_compared")
        require(float(np.max(np.abs(old - new))) > 1e-6 * self.norm * self.rms,
                "%s: after clear(reset_noise=True) the noise at %d shared absolute times is still the "
                "old realisation (max difference %.3g, rms %.3g)", self.where(), len(d),
                float(np.max(np.abs(old - new))), self.rms)

    def check_front_end_calls(self, requests):
        """Every grid handed to front_end: constant dt equal to the request's, start at or before
        request[0] - lead_in_time, ending with the requested samples bit-for-bit."""
        if self.calls is None:
            return
        for rec_t in self.calls:
            ok = None
            why = "no request grid matches its tail"
            for R in requests:
                if len(rec_t) < len(R) or not np.array_equal(rec_t[len(rec_t) - len(R):], R):
                    continue
                dt = R[1] - R[0]
                dev = float(np.max(np.abs(np.diff(rec_t) - dt)))
                # dyadic lattice: exact.  Otherwise each time carries half an ulp of its magnitude.
                tol_dt = 0.0 if self.dyadic else 8 * EPS * float(np.max(np.abs(rec_t)))
                if dev > tol_dt:
                    why = "spacing deviates from the request's dt=%r by %.3g" % (dt, dev)
                    continue
                if rec_t[0] > R[0] - self.lead + 1e-9 * dt:
                    why = ("it starts at %r, later than request[0]-lead_in_time=%r (dt=%r)"
                           % (float(rec_t[0]), float(R[0] - self.lead), dt))
                    continue
                ok = R
                break
            require(ok is not None,
                    "%s: front_end was handed a grid of %d samples [%r .. %r] but %s",
                    self.where(), len(rec_t), float(rec_t[0]), float(rec_t[-1]), why)
        del self.calls[:]

    def request_grids(self, T=None):
        r = [s["t"] for s in self.sig]
        if T is not None:
            r.insert(0, T)
        return r

    # -- the observations shared by several operations -----------------------------

    def check_stored_signals(self):
        """`signals` of the underlying antenna: one per receive since clear, unchanged."""
        stored = self.antenna.signals
        require(len(stored) == len(self.sig),
                "%s: %d signals stored, %d received since the last clear", self.where(),
                len(stored), len(self.sig))
        for i, (s, m) in enumerate(zip(stored, self.sig)):
            require(np.array_equal(s.times, m["t"]) and np.array_equal(s.values, m["v"]),
                    "%s: stored signal %d changed after it was received", self.where(), i)

    def check_all_waveforms(self, ws, what="all_waveforms"):
        n = len(self.sig)
        require(len(ws) == n, "%s: %s has %d entries for %d received signals", self.where(), what,
                len(ws), n)
        tol = self.tol_noise() if self.noisy else self.tol_sum()
        for i, w in enumerate(ws):
            t = self.sig[i]["t"]
            require(len(w.times) == len(t) and np.array_equal(w.times, t),
                    "%s: %s[%d] is on a grid of %d samples starting %r, its signal's grid has %d samples "
                    "starting %r", self.where(), what, i, len(w.times), float(w.times[0]), len(t),
                    float(t[0]))
            vals = np.asarray(w.values, dtype=float)
            require(vals.shape == t.shape, "%s: %s[%d] values shape %r", self.where(), what, i, vals.shape)
            if self.noisy:
                vals = vals - self.reference_noise(t)
            # the statement fixes the grid, not which later signals a cached waveform already
            # contains: accept the superposition of signals 0..m-1 for any i < m <= n
            best = None
            for m in range(i + 1, n + 1):
                err = float(np.max(np.abs(vals - self.reference(t, m))))
                best = err if best is None else min(best, err)
                if err <= tol:
                    break
            else:
                raise Violation("%s: %s[%d] is not the superposition (%s) of its own signal and any "
                                "number of later ones on its grid: smallest deviation %.3g, tolerance %.3g"
                                % (self.where(), what, i, "after the front end" if self.sysd else
                                   "interpolated", best, tol))
        if self.calls is not None:
            del self.calls[:]

    def expected_triggered(self):
        allw = self.obj.all_waveforms
        return allw, [w for w in allw if self.pred(np.asarray(w.values))]

    def same_waveforms(self, got, want, what):
        require(len(got) == len(want),
                "%s: %s returns %d waveforms, but %d of the %d waveforms satisfy the trigger",
                self.where(), what, len(got), len(want), len(self.sig))
        for j, (a, b) in enumerate(zip(got, want)):
            require(np.array_equal(a.times, b.times) and np.array_equal(a.values, b.values),
                    "%s: triggered waveform %d is not the %d-th waveform that satisfies the trigger "
                    "(reception order)", self.where(), j, j)

    def note_query(self):
        self.queried = True

    # -- operations --------------------------------------------------------------------

    def step(self, k, op):
        self.step_no = k
        if self.calls is not None:
            del self.calls[:]
        getattr(self, "op_" + op["op"])(op)

    def op_receive(self, op):
        from pyrex.signals import Signal
        g = op["grid"]
        t = grid_times(self.lat, g)
        v = shape_values(op["val"], g["n"], op.get("zero_ends", False))
        n0 = len(self.antenna.signals)
        sig = Signal(t.copy(), v.copy(), value_type=op["vtype"])
        pol = op.get("pol")
        if pol is None:
            self.obj.receive(sig)
        else:
            self.obj.receive(sig, polarization=pol)
        stored = self.antenna.signals
        require(len(stored) == n0 + 1 == len(self.sig) + 1,
                "%s: receive changed the number of stored signals from %d to %d (model: %d before)",
                self.where(), n0, len(stored), len(self.sig))
        s = stored[-1]
        require(np.array_equal(s.times, t), "%s: the stored signal is not on the received signal's grid",
                self.where())
        require(np.array_equal(sig.times, t) and np.array_equal(sig.values, v),
                "%s: receive modified the caller's signal", self.where())
        sv = np.array(s.values, dtype=float)
        if self.ant["kind"] != "dipole":
            # unit frequency response: efficiency (and antenna factor for fields) only;
            # 1e-12 relative covers the FFT round trip
            f = self.ant["eff"] / (self.ant["af"] if op["vtype"] == "field" else 1.0)
            require(float(np.max(np.abs(sv - f * v))) <= 1e-12 * abs(f) * float(np.max(np.abs(v))) + 1e-300,
                    "%s: stored signal differs from efficiency/antenna_factor times the input by %.3g",
                    self.where(), float(np.max(np.abs(sv - f * v))))
        if self.queried:
            self.q_then_r = True
        self.sig.append(dict(g=g, t=t, v=sv))
        if self.calls is not None:
            del self.calls[:]           # whether receive already runs the front end is not fixed
        self.obs.append(("receive", len(stored)))

    def op_signals(self, op):
        if self.sysd is None:
            self.check_stored_signals()
            self.obs.append(("signals", [np.array(s.values) for s in self.antenna.signals]))
            return
        got = self.obj.signals
        self.check_front_end_calls(self.request_grids())
        require(len(got) == len(self.sig), "%s: system reports %d processed signals for %d received",
                self.where(), len(got), len(self.sig))
        for i, (s, m) in enumerate(zip(got, self.sig)):
            require(np.array_equal(s.times, m["t"]),
                    "%s: processed signal %d is not on its signal's own grid (%d samples from %r; expected "
                    "%d from %r)", self.where(), i, len(s.times), float(s.times[0]), len(m["t"]),
                    float(m["t"][0]))
            ext, L = extended_grid(m["t"], self.lead, self.fe)
            ref = fe_apply(self.fe, self.lead, ext, lin_interp(ext, m["t"], m["v"]))[L:]
            tol = 1e-12 * self.norm * float(np.max(np.abs(m["v"]))) + 1e-300
            err = float(np.max(np.abs(np.asarray(s.values) - ref)))
            require(err <= tol, "%s: processed signal %d differs from the front end applied to that signal "
                    "alone by %.3g (tolerance %.3g)", self.where(), i, err, tol)
        self.check_stored_signals()
        self.obs.append(("signals", [np.array(s.values) for s in got]))

    def op_all(self, op):
        ws = self.obj.all_waveforms
        self.check_front_end_calls(self.request_grids())
        self.note_query()
        self.check_all_waveforms(ws)
        self.check_stored_signals()
        self.obs.append(("all", [np.array(w.values) for w in ws]))

    def op_waves(self, op):
        got = list(self.obj.waveforms)
        self.check_front_end_calls(self.request_grids())
        self.note_query()
        allw, want = self.expected_triggered()
        self.same_waveforms(got, want, "waveforms")
        self.check_all_waveforms(allw)
        if 0 < len(want) < len(allw):
            self.classes.add("trigger_mixed")
        if len(allw) >= 2 and len(want) >= 1 and not self.pred(np.asarray(allw[0].values)):
            self.classes.add("first_untriggered")
        self.obs.append(("waves", [np.array(w.values) for w in got]))

    def op_hit(self, op):
        got = self.obj.is_hit
        self.check_front_end_calls(self.request_grids())
        self.note_query()
        allw, want = self.expected_triggered()
        require(isinstance(got, (bool, np.bool_)) and bool(got) == (len(want) > 0),
                "%s: is_hit is %r while %d of the %d waveforms satisfy the trigger", self.where(), got,
                len(want), len(allw))
        self.same_waveforms(list(self.obj.waveforms), want, "waveforms (after is_hit)")
        self.check_all_waveforms(allw)
        self.classes.add("hit" if got else "not_hit")
        self.obs.append(("hit", bool(got)))

    def op_mc(self, op):
        """is_hit_mc_truth: read as a perturbation; decided only where the documentation defines it."""
        if not has_noise_parameters(self.ant) and (self.noisy or self.sysd is not None):
            return
        if self.sysd is not None and not self.noisy:
            # AntennaSystem.is_hit_mc_truth evaluates antenna noise even for a noise-free antenna;
            # not part of the C09 statement - executed as a perturbation of the caches only
            self.obj.is_hit_mc_truth
            self.note_query()
            if self.calls is not None:
                del self.calls[:]
            return
        got = self.obj.is_hit_mc_truth
        self.note_query()
        if self.calls is not None:
            del self.calls[:]
        allw, want = self.expected_triggered()
        if not self.noisy:
            require(bool(got) == (len(want) > 0), "%s: is_hit_mc_truth %r for a noise-free antenna with %d "
                    "triggered waveforms", self.where(), got, len(want))
        else:
            exp = any(not self.pred(np.asarray(self.obj.make_noise(w.times).values)) for w in want)
            require(bool(got) == exp, "%s: is_hit_mc_truth is %r, but noise alone %s on the %d triggered "
                    "windows", self.where(), got, "does not always trigger" if exp else "triggers",
                    len(want))
        if self.calls is not None:
            del self.calls[:]

    def _full(self, g, as_list=False):
        T = grid_times(self.lat, g)
        fw = self.obj.full_waveform(T.tolist() if as_list else T)
        self.check_front_end_calls(self.request_grids(T))
        require(len(fw.times) == len(T) and np.array_equal(np.asarray(fw.times, dtype=float), T),
                "%s: full_waveform is not on the requested window", self.where())
        vals = np.asarray(fw.values, dtype=float)
        require(vals.shape == T.shape, "%s: full_waveform values shape %r", self.where(), vals.shape)
        ref = self.reference(T)
        if not self.noisy:
            tol = self.tol_sum()
            err = float(np.max(np.abs(vals - ref)))
            require(err <= tol,
                    "%s: full_waveform over [%r .. %r] (dt %r, %d samples) differs from the sum of the %d "
                    "received signals%s by %.3g at sample %d (got %r, expected %r; tolerance %.3g)",
                    self.where(), float(T[0]), float(T[-1]), float(T[1] - T[0]), len(T), len(self.sig),
                    " passed through the front end" if self.sysd else " interpolated onto it", err,
                    int(np.argmax(np.abs(vals - ref))), float(vals[int(np.argmax(np.abs(vals - ref)))]),
                    float(ref[int(np.argmax(np.abs(vals - ref)))]), tol)
        else:
            self.register_noise(g, vals - ref, "full_waveform", T)
        self.classify_window(g, T)
        return T, vals, ref

    def op_full(self, op):
        T, vals, ref = self._full(op["grid"], op.get("as_list", False))
        if self.noisy and self.sysd is not None:
            # tie the system's noise to the antenna's realisation on an arbitrarily long lead-in
            rn = self.reference_noise(T)
            err = float(np.max(np.abs(vals - ref - rn)))
            require(err <= self.tol_noise(),
                    "%s: noise in the system waveform differs from the front end applied to the antenna's "
                    "noise realisation on a long lead-in by %.3g (tolerance %.3g)", self.where(), err,
                    self.tol_noise())
        self.check_stored_signals()
        self.obs.append(("full", vals))

    def op_during(self, op):
        g = op["grid"]
        T = grid_times(self.lat, g)
        got = self.obj.is_hit_during(T)
        self.check_front_end_calls(self.request_grids(T))
        T, vals, ref = self._full(g)
        require(bool(got) == self.pred(vals),
                "%s: is_hit_during is %r but the waveform over that window %s the trigger", self.where(),
                got, "satisfies" if self.pred(vals) else "does not satisfy")
        if not self.noisy:
            # decided from the oracle alone when the reference is not within rounding of the threshold
            lo, hi = self.pred(ref * (1 - 1e-9)), self.pred(ref * (1 + 1e-9))
            active = self.sysd["thr"] if (self.sysd is not None and self.sysd["thr"] is not None) \
                else self.ant["threshold"]
            if lo == hi and active != 0.0:
                require(bool(got) == lo, "%s: is_hit_during is %r but the sum of the received signals "
                        "over the window %s the trigger", self.where(), got,
                        "satisfies" if lo else "does not satisfy")
        self.classes.add("during_hit" if got else "during_miss")
        self.obs.append(("during", bool(got)))

    def op_noise(self, op):
        g = op["grid"]
        T = grid_times(self.lat, g)
        if not has_noise_parameters(self.ant):
            try:
                self.obj.make_noise(T)
            except ValueError:
                self.classes.add("noise_refused")
                if self.calls is not None:
                    del self.calls[:]
                return
            raise Violation("%s: make_noise without a frequency range must raise ValueError" % self.where())
        mn = self.obj.make_noise(T)
        self.check_front_end_calls(self.request_grids(T))
        require(np.array_equal(np.asarray(mn.times, dtype=float), T),
                "%s: make_noise is not on the requested window", self.where())
        vals = np.asarray(mn.values, dtype=float)
        self.register_noise(g, vals, "make_noise", T)
        if self.sysd is not None and self.dyadic:
            # (dyadic only: the reference lead-in must consist of the same floats as pyrex's)
            err = float(np.max(np.abs(vals - self.reference_noise(T))))
            require(err <= self.tol_noise(),
                    "%s: system make_noise differs from the front end applied to the antenna's noise on a "
                    "long lead-in by %.3g", self.where(), err)
        if not self.noisy:
            self.classes.add("noise_on_quiet")

    def op_clear(self, op):
        self.obj.clear(reset_noise=op["reset"])
        if self.queried and self.sig:
            self.cleared_after_query = True
        self.queried = False
        self.sig = []
        require(len(self.antenna.signals) == 0, "%s: signals not empty after clear", self.where())
        if self.sysd is not None:
            require(len(self.obj.signals) == 0, "%s: processed signals not empty after clear", self.where())
        require(len(self.obj.all_waveforms) == 0, "%s: all_waveforms not empty after clear", self.where())
        require(len(self.obj.waveforms) == 0, "%s: waveforms not empty after clear", self.where())
        require(not self.obj.is_hit, "%s: is_hit after clear", self.where())
        if op["reset"]:
            if self.noise:
                self.noise_old = self.noise
            self.noise = {}
            self.reset_diffs = []
            self.classes.add("noise_reset")
        self.obs.append(("clear",))

    def final(self):
        self.step_no = len(self.case["ops"])
        if self.calls is not None:
            del self.calls[:]
        allw, want = self.expected_triggered()
        self.check_all_waveforms(allw, "all_waveforms (final)")
        self.same_waveforms(list(self.obj.waveforms), want, "waveforms (final)")
        require(bool(self.obj.is_hit) == (len(want) > 0), "%s: is_hit %r with %d triggered waveforms",
                self.where(), self.obj.is_hit, len(want))
        self.check_stored_signals()
        if self.sysd is not None:
            self.op_signals({})
        self.check_reset_differs()
        if 0 < len(want) < len(allw):
            self.classes.add("trigger_mixed")
        if len(allw) >= 2:
            self.classes.add("final_two_or_more")
        self.obs.append(("final", [np.array(w.values) for w in allw], len(want)))

    # -- shape classes -----------------------------------------------------------------

    def classify_window(self, g, T):
        for s in self.sig:
            if s["t"][0] < T[0] < s["t"][-1]:
                self.classes.add("window_starts_mid_signal")
            if T[-1] < s["t"][0] or T[0] > s["t"][-1]:
                self.classes.add("window_disjoint")
            if s["t"][0] <= T[0] and T[-1] <= s["t"][-1]:
                self.classes.add("window_nested")
            if s["g"]["m"] != g["m"]:
                self.classes.add("window_other_dt")

    def classify_signals(self, sigs):
        for i in range(len(sigs)):
            for j in range(i):
                a, b = sigs[i]["t"], sigs[j]["t"]
                if a[-1] < b[0] or b[-1] < a[0]:
                    self.classes.add("signals_disjoint")
                elif (a[0] >= b[0] and a[-1] <= b[-1]) or (b[0] >= a[0] and b[-1] <= a[-1]):
                    self.classes.add("signals_nested")
                    self.classes.add("signals_overlap")
                else:
                    self.classes.add("signals_overlap")


def run_history(case, rec, collect=False):
    r = Runner(case, collect)
    for k, op in enumerate(case["ops"]):
        if op["op"] == "clear":
            r.classify_signals(r.sig)
        r.step(k, op)
    r.classify_signals(r.sig)
    r.final()
    cl = set(r.classes)
    cl.add(r.ant["kind"])
    cl.add("dyadic" if r.dyadic else "nondyadic")
    if r.q_then_r:
        cl.add("query_receive_query")
    if r.cleared_after_query:
        cl.add("clear_between_queries")
    if r.sysd is not None:
        lq = r.sysd["lead_q"]
        cl.add("lead0" if lq == 0 else ("lead_long" if lq >= 400 else
                                        ("lead_fractional" if lq % 4 else "lead_whole")))
    return r, cl


def check_history(case, rec):
    r, cl = run_history(case, rec)
    nt = ("query_receive_query" in cl or "clear_between_queries" in cl or "signals_overlap" in cl)
    rec.case(case, nontrivial=nt, classes=sorted(cl))


# ---------------------------------------------------------------------------
# clear == fresh object (noise-free): the suffix of a history after a clear is observed
# bit-for-bit as on a newly constructed object


def check_clear_fresh(case, rec):
    ops = case["ops"]
    cut = case["cut"] % (len(ops) + 1)
    full_case = dict(case, ops=ops[:cut] + [dict(op="clear", reset=case["reset"])] + ops[cut:])
    a = Runner(full_case, collect=True)
    for k, op in enumerate(full_case["ops"]):
        if k == cut + 1:
            a.obs = []
        a.step(k, op)
    if cut + 1 == len(full_case["ops"]):
        a.obs = []
    a.final()
    fresh_case = dict(case, ops=ops[cut:])
    b = Runner(fresh_case, collect=True)
    for k, op in enumerate(fresh_case["ops"]):
        b.step(k, op)
    b.final()
    require(len(a.obs) == len(b.obs), "cleared object produced %d observations, a fresh one %d",
            len(a.obs), len(b.obs))
    for i, (x, y) in enumerate(zip(a.obs, b.obs)):
        require(_same_obs(x, y),
                "observation %d (%s) after clear(reset_noise=%r) following %d operations differs from the "
                "same observation on a freshly constructed %s: %r vs %r", i, x[0], case["reset"], cut,
                a.describe(), _short(x), _short(y))
    pre_receives = sum(1 for o in ops[:cut] if o["op"] == "receive")
    pre_queries = sum(1 for o in ops[:cut] if o["op"] in ("all", "waves", "hit"))
    post_receives = sum(1 for o in ops[cut:] if o["op"] == "receive")
    cl = [a.ant["kind"], "system" if a.sysd is not None else "plain"]
    if pre_receives and pre_queries:
        cl.append("state_before_clear")
    if post_receives:
        cl.append("receives_after_clear")
    rec.case(case, nontrivial=bool(pre_receives and pre_queries and post_receives), classes=cl)


def _same_obs(x, y):
    if type(x) != type(y):
        return False
    if isinstance(x, (tuple, list)):
        return len(x) == len(y) and all(_same_obs(p, q) for p, q in zip(x, y))
    if isinstance(x, np.ndarray):
        return x.shape == y.shape and np.array_equal(x, y)
    return x == y


def _short(x):
    if isinstance(x, (tuple, list)):
        return [_short(p) for p in x]
    if isinstance(x, np.ndarray):
        return x[:6].tolist()
    return x


# ---------------------------------------------------------------------------
# the lead-in grid on arbitrary float grids (no lattice)


def check_lead_in_grid(case, rec):
    from pyrex.antenna import Antenna
    from pyrex.detector import AntennaSystem
    from pyrex.signals import Signal
    dt, n, t0 = case["dt"], case["n"], case["t0"]
    T = t0 + dt * np.arange(n)
    dt_req = T[1] - T[0]
    lead = {"zero": 0.0, "multiple": case["mult"] * dt, "multiple_of_req": case["mult"] * dt_req,
            "fraction": (case["mult"] + case["frac"]) * dt, "windows": case["mult"] * (T[-1] - T[0]),
            "tiny": case["frac"] * dt * 1e-6}[case["lead_kind"]]
    calls = []

    class S(AntennaSystem):
        lead_in_time = lead

        def front_end(self, signal):
            calls.append(np.array(signal.times, dtype=float))
            return signal

    s = S(Antenna((0, 0, -1), noisy=False))
    sig_t = T if case["same_grid"] else (t0 + case["sig_shift"] * dt) + (dt * case["sig_stretch"]) * np.arange(case["sig_n"])
    sig_v = np.cos(0.7 * np.arange(len(sig_t))) + 2.0
    s.receive(Signal(sig_t.copy(), sig_v.copy(), value_type="voltage"))
    stored = np.array(s.antenna.signals[0].values)
    via = case["via"]
    if via == "full":
        out = s.full_waveform(T)
        req = T
    elif via == "signals":
        out = s.signals[0]
        req = sig_t
    else:
        out = s.all_waveforms[0]
        req = sig_t
    require(len(calls) == 1, "front_end called %d times for one %s", len(calls), via)
    g = calls[0]
    dreq = req[1] - req[0]
    require(len(g) >= len(req) and np.array_equal(g[len(g) - len(req):], req),
            "grid handed to front_end (%d samples, last %r) does not end with the %d requested samples "
            "bit-for-bit (last %r)", len(g), float(g[-1]), len(req), float(req[-1]))
    n_lead = len(g) - len(req)
    # every time carries half an ulp of its magnitude (two per difference); numpy.linspace adds the
    # rounding of its start and step: 6 eps max|t| per difference
    ulp = EPS * float(np.max(np.abs(g)))
    tol = 6 * ulp
    dev = float(np.max(np.abs(np.diff(g) - dreq))) if len(g) > 1 else 0.0
    require(dev <= tol,
            "lead-in grid spacing deviates from the request's dt=%r by %.3g (tolerance %.3g); lead=%r n_lead=%d",
            dreq, dev, tol, lead, n_lead)
    # the request's dt is itself only known to an ulp of the times, and the number of lead-in samples
    # comes from (span + lead) / dt: the whole grid's worth of samples of that uncertainty
    # (seen: lead = 3e-8 dt at t = 2e-4 s, 126 samples: 0 lead-in samples, 1.2e-18 s short)
    require(g[0] <= req[0] - lead + 1e-9 * dreq + 2 * (len(req) + n_lead + 4) * ulp,
            "lead-in grid starts at %r, later than request[0] - lead_in_time = %r - %r (dt %r, %d lead-in samples)",
            float(g[0]), float(req[0]), lead, dreq, n_lead)
    require(np.array_equal(np.asarray(out.times, dtype=float), req), "result is not on the requested grid")
    ref = lin_interp(req, sig_t, stored)
    require(float(np.max(np.abs(np.asarray(out.values) - ref))) <= 1e-12 * 3.0,
            "identity front end: result differs from the interpolated signal by %.3g",
            float(np.max(np.abs(np.asarray(out.values) - ref))))
    rec.case(case, nontrivial=lead > 0, classes=[case["lead_kind"], via,
                                                  "big_offset" if abs(t0) > 1e4 * dt * n else "small_offset"])


# ---------------------------------------------------------------------------
# generators


@st.composite
def _grid(draw, prev, origin, max_n=40, force_m=None):
    mode = draw(st.sampled_from(["free", "free", "free", "rel", "rel", "nested", "far", "same"])) if prev \
        else "free"
    if mode in ("rel", "nested", "same"):
        p = prev[draw(st.integers(0, len(prev) - 1))]
        if mode == "same":
            g = dict(p)
        elif mode == "rel":
            g = dict(k=p["k"] + p["m"] * draw(st.integers(-25, 25)), q=p["q"], m=p["m"],
                     n=draw(st.integers(2, max_n)))
        else:
            a = draw(st.integers(0, max(0, p["n"] - 2)))
            g = dict(k=p["k"] + p["m"] * a, q=p["q"], m=p["m"],
                     n=draw(st.integers(2, max(2, p["n"] - a))))
        if force_m is not None and g["m"] != force_m:
            g["m"] = force_m
        prev.append(g)
        return g
    k = origin + (draw(st.integers(-60, 60)) if mode == "free"
                  else draw(st.sampled_from([-1, 1])) * draw(st.integers(400, 3000)))
    g = dict(k=k, q=draw(st.sampled_from([0, 0, 0, 1, 2, 3])),
             m=force_m or draw(st.sampled_from([1, 1, 2, 2, 3, 4])),
             n=draw(st.one_of(st.integers(2, 6), st.integers(2, max_n))))
    prev.append(g)
    return g


@st.composite
def _values(draw, unit):
    shape = draw(st.sampled_from(["const", "const", "ramp", "alt", "bump", "spike", "list"]))
    d = dict(shape=shape, amp=unit * draw(st.sampled_from([1.0, -1.0])) * draw(log_floats(0.05, 20.0)))
    if shape == "spike":
        d["j"] = draw(st.integers(0, 40))
    if shape == "list":
        d["v"] = draw(st.lists(floats(-1.0, 1.0), min_size=2, max_size=8))
        if not any(abs(x) > 1e-3 for x in d["v"]):
            d["v"][0] = 1.0
    return d


@st.composite
def _antenna(draw, noisy, kinds=("antenna", "thresh", "dipole")):
    kind = draw(st.sampled_from(kinds))
    thr_f = draw(st.sampled_from([0.0, 0.3, 1.0, 1.0, 3.0, 10.0]))
    if kind == "dipole":
        temperature, resistance, bandwidth = 300.0, 50.0, draw(st.sampled_from([100e6, 300e6]))
        unit = math.sqrt(K_BOLTZMANN * temperature * resistance * bandwidth)
        return dict(kind=kind, noisy=noisy, center=draw(st.sampled_from([200e6, 250e6])),
                    bandwidth=bandwidth, temperature=temperature, resistance=resistance,
                    threshold=thr_f * unit, unit=unit)
    rms = draw(st.sampled_from([1.0, 2.5e-5]))
    band = [50e6, 200e6]
    if not noisy and draw(st.integers(0, 2)) == 0:
        band = None
    return dict(kind=kind, noisy=noisy, af=draw(st.sampled_from([1.0, 2.0])),
                eff=draw(st.sampled_from([1.0, 0.5])), band=band, rms=rms, threshold=thr_f * rms,
                unit=rms)


@st.composite
def _lattice(draw, allow_nondyadic=True):
    dy = draw(st.sampled_from([True, True, False])) if allow_nondyadic else True
    h = 2.0 ** draw(st.integers(-32, -30)) if dy else draw(floats(0.2e-9, 1.0e-9))
    return dict(h=h, dyadic=dy)


OPS_PLAIN = ["receive"] * 6 + ["all"] * 2 + ["waves"] * 3 + ["hit"] * 2 + ["mc"] + ["full"] * 4 + \
    ["during"] * 2 + ["noise"] + ["clear"] * 2 + ["signals"]
OPS_NOISY = OPS_PLAIN + ["noise"] * 2 + ["full"] * 2


@st.composite
def histories(draw, system=False, noisy=False, max_ops=20, ops_pool=None, allow_nondyadic=True):
    # noisy objects: dyadic lattice only.  FFTThermalNoise is periodic with period (N-1) dt, so its first
    # and last sample coincide and the noise function JUMPS at the seam (the master's first sample time plus
    # multiples of the period) - lattice points.  "The same absolute time" written as two float expressions
    # that differ by one ulp can then straddle the jump; with a dyadic lattice equal times are equal floats.
    lat = draw(_lattice(allow_nondyadic and not noisy))
    origin = draw(st.sampled_from([0, 0, 1000, -123456, 10 ** 7]))
    kinds = ("antenna", "thresh", "dipole")
    if system and not lat["dyadic"]:
        kinds = ("antenna", "thresh")      # see zero_ends below
    ant = draw(_antenna(noisy, kinds))
    case = dict(lat=lat, ant=ant, seed=draw(gens.seeds32))
    force_m = None
    if system:
        lead_q = draw(st.sampled_from([0, 0, 4, 8, 12, 5, 10, 7, 18, 33, 40, 130, 400, 1203]))
        fe = dict(gain=draw(st.sampled_from([1.0, 2.0, -0.5])),
                  taps=draw(st.sampled_from([[1.0], [1.0, 0.5], [0.25, 0.5, 0.25], [1.0, -1.0, 0.5, 0.25],
                                             [0.5, 0.0, 0.0, 0.0, 1.0]])),
                  echo=draw(st.sampled_from([0.0, 0.75, -0.5, 1.0])),
                  frac=draw(st.sampled_from([1.0, 1.0, 0.5, 0.37])))
        sthr = draw(st.sampled_from([None, None, 1.0, 4.0]))
        case["sys"] = dict(lead_q=lead_q, fe=fe, via_class=draw(st.booleans()),
                           thr=None if sthr is None else sthr * ant["unit"])
        if noisy:
            # the front end works on samples: shared absolute times need windows of one dt
            force_m = draw(st.sampled_from([None, 1, 2]))
    prev = []
    windows = []
    ops = []
    pool = ops_pool or (OPS_NOISY if noisy else OPS_PLAIN)
    for _ in range(draw(st.integers(3, max_ops))):
        name = draw(st.sampled_from(pool))
        op = dict(op=name)
        if name == "receive":
            op["grid"] = draw(_grid(prev, origin, max_n=32))
            op["val"] = draw(_values(ant["unit"]))
            op["vtype"] = draw(st.sampled_from(["voltage", "voltage", "field"]))
            if ant["kind"] == "dipole" and draw(st.integers(0, 3)) == 0:
                op["pol"] = draw(st.sampled_from([[0.0, 0.0, 1.0], [0.6, 0.0, 0.8]]))
            if system and not lat["dyadic"]:
                # the reference lead-in grid and pyrex's differ by ulps when h is not dyadic; a signal
                # that jumps at its ends would turn that into a whole-amplitude difference
                op["zero_ends"] = True
                op["grid"]["n"] = max(3, op["grid"]["n"])
        elif name in ("full", "during", "noise"):
            op["grid"] = draw(_grid(prev, origin, max_n=48, force_m=force_m))
            windows.append(op["grid"])
            if name == "full":
                op["as_list"] = draw(st.integers(0, 4)) == 0
        elif name == "clear":
            op["reset"] = draw(st.booleans())
        ops.append(op)
        if name == "clear" and op["reset"] and noisy and windows and draw(st.integers(0, 3)) > 0:
            # look again where the previous noise realisation has been seen
            ops.append(dict(op=draw(st.sampled_from(["noise", "full"])),
                            grid=dict(windows[draw(st.integers(0, len(windows) - 1))])))
    case["ops"] = ops
    return case


OPS_FRESH = ["receive"] * 6 + ["all"] * 2 + ["waves"] * 3 + ["hit"] * 2 + ["full"] * 3 + ["during"] * 2 + \
    ["signals"] + ["clear"]


@st.composite
def clear_fresh_cases(draw):
    system = draw(st.booleans())
    case = draw(histories(system=system, noisy=False, max_ops=16, ops_pool=OPS_FRESH,
                          allow_nondyadic=not system))
    case["cut"] = draw(st.integers(0, 16))
    case["reset"] = draw(st.booleans())
    return case


@st.composite
def lead_in_cases(draw):
    dt = draw(st.one_of(log_floats(1e-11, 1e-7), st.sampled_from([1e-9, 0.5e-9, 0.1e-9, 2.0 ** -30])))
    n = draw(st.one_of(st.integers(2, 8), st.integers(2, 200)))
    t0 = draw(st.one_of(st.just(0.0), floats(-1e3, 1e3).map(lambda x: x * dt),
                        floats(-1e-3, 1e-3), st.sampled_from([1e-6, -2.5e-7, 100e-9])))
    return dict(dt=dt, n=n, t0=t0,
                lead_kind=draw(st.sampled_from(["zero", "multiple", "multiple", "multiple_of_req",
                                                "fraction", "fraction", "windows", "tiny"])),
                mult=draw(st.integers(1, 60)), frac=draw(floats(0.01, 0.99)),
                via=draw(st.sampled_from(["full", "full", "signals", "all"])),
                same_grid=draw(st.booleans()), sig_shift=draw(st.integers(-30, 30)),
                sig_stretch=draw(st.sampled_from([1.0, 0.5, 2.0, 1.37])),
                sig_n=draw(st.integers(2, 60)))


# ---------------------------------------------------------------------------


_HIST_RULE = ("history of 3-20 operations (receive of sampled signals on overlapping/nested/disjoint/far "
              "windows of different dt and length, signals, all_waveforms, waveforms, is_hit, is_hit_mc_truth, "
              "full_waveform and is_hit_during on arbitrary windows, make_noise, clear(reset_noise)); each "
              "operation runs first on the untouched state; non-trivial = history contains query -> receive "
              "-> query, or a clear between queries, or >= 2 overlapping signals")

PROPERTY = Property(
    "C09", "Antenna and antenna-system hit bookkeeping is consistent under every history",
    [
        SubCheck("antenna_history", histories(system=False, noisy=False), check_history,
                 quick=1600, thorough=80000,
                 rule="noise-free Antenna / threshold subclass / DipoleAntenna x " + _HIST_RULE,
                 floors={"query_receive_query": 0.35, "clear_between_queries": 0.18, "signals_overlap": 0.2, "signals_nested": 0.17,
                         "signals_disjoint": 0.25, "trigger_mixed": 0.05, "window_starts_mid_signal": 0.1,
                         "window_nested": 0.1, "window_other_dt": 0.2, "nondyadic": 0.14, "hit": 0.08, "not_hit": 0.18}),
        SubCheck("antenna_noise", histories(system=False, noisy=True), check_history,
                 quick=1200, thorough=60000,
                 rule="noisy Antenna / threshold subclass / DipoleAntenna x " + _HIST_RULE +
                      "; noise = waveform minus interpolated signals, compared at shared lattice times",
                 floors={"query_receive_query": 0.3, "clear_between_queries": 0.12, "signals_overlap": 0.2, "trigger_mixed": 0.03,
                         "noise_shared": 0.28, "noise_reset_compared": 0.06, "window_other_dt": 0.2}),
        SubCheck("system_history", histories(system=True, noisy=False), check_history,
                 quick=1200, thorough=60000,
                 rule="noise-free AntennaSystem (lead_in_time 0 / whole / fractional samples / several "
                      "windows; linear causal front end: FIR taps + interpolated echo at lead_in_time) x "
                      + _HIST_RULE,
                 floors={"query_receive_query": 0.32, "clear_between_queries": 0.17, "signals_overlap": 0.2, "trigger_mixed": 0.06,
                         "lead0": 0.08, "lead_fractional": 0.18, "lead_whole": 0.11, "lead_long": 0.05,
                         "window_starts_mid_signal": 0.1, "nondyadic": 0.13}),
        SubCheck("system_noise", histories(system=True, noisy=True), check_history,
                 quick=800, thorough=40000,
                 rule="noisy AntennaSystem x " + _HIST_RULE,
                 floors={"query_receive_query": 0.28, "clear_between_queries": 0.09, "signals_overlap": 0.2, "trigger_mixed": 0.04,
                         "noise_shared": 0.25, "noise_reset_compared": 0.08, "lead_fractional": 0.17,
                         "window_starts_mid_signal": 0.1}),
        SubCheck("clear_fresh", clear_fresh_cases(), check_clear_fresh, quick=800, thorough=40000,
                 rule="noise-free antenna or system: operations, clear(reset_noise), more operations; every "
                      "observation after the clear equals bit-for-bit the observation on a newly constructed "
                      "object; non-trivial = receives and cache-filling queries before the clear and receives "
                      "after it",
                 floors={"state_before_clear": 0.2, "receives_after_clear": 0.35, "system": 0.25, "plain": 0.2}),
        SubCheck("lead_in_grid", lead_in_cases(), check_lead_in_grid, quick=3000, thorough=150000,
                 rule="arbitrary float grid (dt 1e-11..1e-7, offsets up to 1e-3 s) x lead_in_time (0, whole "
                      "multiples of dt, fractional, several windows, tiny) x route (full_waveform, signals, "
                      "all_waveforms): grid handed to front_end; non-trivial = lead_in_time > 0",
                 floors={"zero": 0.07, "multiple": 0.1, "fraction": 0.11, "windows": 0.06, "tiny": 0.06, "big_offset": 0.04,
                         "signals": 0.12, "all": 0.11}),
    ],
    assumptions=[
        "received signals are sampled `Signal` objects with >= 2 samples on uniform grids (a one-sample signal "
        "has no dt and cannot pass the frequency response); function-backed signals are C04's clause",
        "query windows have >= 2 samples and dt > 0",
        "system front ends are linear and causal with memory <= lead_in_time (FIR taps on samples plus an echo "
        "delayed by up to lead_in_time), so 'each signal through the front end' and 'the sum through the front "
        "end' coincide; the reference is the same front end on a lead-in far longer than its memory",
        "which later-received signals a cached per-hit waveform already contains is not fixed by the statement: "
        "any superposition of its own signal with a prefix of the later ones is accepted",
        "after a front end that works on samples, 'the same noise at the same absolute time' is compared between "
        "windows of equal dt and phase only",
        "'the same absolute time' means equal floats: noisy objects are exercised on dyadic lattices (all grid "
        "arithmetic exact); on arbitrary lattices noise values are compared only where the two float times are "
        "equal, because pyrex's FFT thermal noise is discontinuous at its period seam (period (N-1)dt makes the "
        "first and last sample coincide; C17's subject) and two float expressions of one lattice time can "
        "straddle it",
        "'differs after reset_noise' is asserted when both realisations are non-zero at >= 3 shared times (a noise "
        "band above the Nyquist frequency of the first queried grid gives an all-zero realisation)",
        "is_hit_mc_truth is executed as a cache-perturbing read; it is decided only for plain antennas and noisy "
        "systems (documented semantics), not for noise-free systems",
    ],
    design_ref="3/C09",
)
