"""C01 - every ray-trace solution is a true ray joining its endpoints (DESIGN 3/C01)."""

import math

import numpy as np
from hypothesis import strategies as st

from ..core import Property, SubCheck, Violation, require
from .. import gens, ref_rays as R
from ..gens import floats, log_floats

C = 299792458.0
UNIFORMITY = 1e-5        # 1 - uniformity_factor documented on SpecializedRayTracePath
BETA_TOL = 0.005         # beta_tolerance documented on SpecializedRayTracePath


# ---------------------------------------------------------------------------
# generators


@st.composite
def pair_specs(draw, numeric=False):
    """Endpoint pair relative to an ice spec; geometry is finalised in the check."""
    ice = draw(gens.exp_ice_specs(boundary_indices=False))
    lo, hi = ice["range"]
    depth = hi - lo
    z_u = R.z_uniform_of(ice)
    kinds = ["generic", "generic", "generic", "shallow", "deep", "vertical", "near_vertical",
             "shadow_direct", "shadow_indirect", "equal_depth", "bounds"]
    kind = draw(st.sampled_from(kinds))
    rho = {"mode": "abs", "value": draw(log_floats(0.1, 6000.0))}
    if kind == "shallow":
        za, zb = -draw(log_floats(0.01, 20.0)), -draw(log_floats(0.01, 20.0))
        rho = {"mode": "abs", "value": draw(log_floats(0.1, 300.0))}
    elif kind == "deep" and z_u - lo > 2.0:
        za = draw(floats(lo, z_u - 1.0))
        zb = draw(floats(lo, z_u - 1.0))
    elif kind == "vertical":
        za, zb = draw(floats(lo, hi)), draw(floats(lo, hi))
        rho = {"mode": "abs", "value": 0.0}
    elif kind == "near_vertical":
        za, zb = draw(floats(lo, hi)), draw(floats(lo, hi))
        rho = {"mode": "abs", "value": draw(log_floats(1e-4, 1.0))}
    elif kind == "shadow_direct":
        za, zb = draw(floats(lo, hi)), draw(floats(lo, hi))
        # (closer than 1e-3 to the boundary rho(beta) has an inverse-square-root slope and the
        # tracer links its branches linearly: nothing can be decided there, see DESIGN 7.3)
        eps = draw(st.sampled_from([3e-2, 1e-2, 3e-3, 1e-3]))
        rho = {"mode": "rel_direct_max", "q": 1.0 + draw(st.sampled_from([-1.0, 1.0])) * eps}
    elif kind == "shadow_indirect":
        za, zb = draw(floats(lo, hi)), draw(floats(lo, hi))
        eps = draw(st.sampled_from([1e-1, 3e-2, 1e-2]))
        rho = {"mode": "rel_indirect_max", "q": 1.0 - eps}
    elif kind == "equal_depth":
        # (only where the index profile still resolves the metre-scale hop of such a pair)
        z_res = max(lo, math.log(1e-7 / ice["k"]) / ice["a"])
        za = zb = draw(floats(z_res, hi))
    elif kind == "bounds":
        za = draw(st.sampled_from([hi, lo, draw(floats(lo, hi))]))
        zb = draw(st.sampled_from([hi, lo, draw(floats(lo, hi))]))
    else:
        kind = "generic"
        za, zb = draw(floats(lo, hi)), draw(floats(lo, hi))
    if kind != "equal_depth" and abs(za - zb) < 1e-3:
        zb = max(lo, min(hi, za - 1.0 if za - 1.0 >= lo else za + 1.0))
    phi = draw(st.one_of(floats(-math.pi, math.pi),
                         st.sampled_from([0.0, math.pi / 2, math.pi, -math.pi / 2])))
    off = draw(st.sampled_from([[0.0, 0.0], None]))
    if off is None:
        off = [draw(floats(-1e4, 1e4)), draw(floats(-1e4, 1e4))]
    spec = dict(ice=ice, kind=kind, z_from=za, z_to=zb, rho=rho, phi=phi, xy=off)
    if numeric:
        spec["dz"] = draw(st.sampled_from([2.0, 1.0, 0.5, 0.25]))
    return spec


def realise(case, tracer_cls, ice, **kw):
    """-> (from_point, to_point) with rho resolved through the tracer's own maxima."""
    za, zb = case["z_from"], case["z_to"]
    rho = case["rho"]
    if rho["mode"] == "abs":
        r = rho["value"]
    else:
        probe = tracer_cls((0.0, 0.0, za), (1.0, 0.0, zb), ice_model=ice, **kw)
        rmax = probe.direct_r_max if rho["mode"] == "rel_direct_max" else probe.indirect_r_max
        r = float(rmax) * rho["q"] if rmax is not None and np.isfinite(rmax) else 100.0
        r = min(max(r, 0.0), 2e5)
    f = np.array([case["xy"][0], case["xy"][1], za])
    t = np.array([case["xy"][0] + r * math.cos(case["phi"]),
                  case["xy"][1] + r * math.sin(case["phi"]), zb])
    return f, t


def _classes(case, ice_spec, f, t, n_sol):
    z_u = R.z_uniform_of(ice_spec)
    cl = [case["kind"], "sol=%d" % n_sol]
    if f[2] > t[2]:
        cl.append("source_above")
    elif f[2] < t[2]:
        cl.append("source_below")
    if min(f[2], t[2]) < z_u:
        cl.append("below_z_uniform")
    if not ice_spec.get("default"):
        cl.append("custom_ice")
    if case["xy"] != [0.0, 0.0]:
        cl.append("xy_offset")
    return cl


# ---------------------------------------------------------------------------
# shared solution checks


def _basic_solution_facts(path, f, t, ice_spec, idx, analytic=True):
    e = np.asarray(path.emitted_direction, dtype=float)
    r = np.asarray(path.received_direction, dtype=float)
    L = float(path.path_length)
    T = float(path.tof)
    require(e.shape == (3,) and r.shape == (3,) and np.all(np.isfinite(e)) and np.all(np.isfinite(r)),
            "solution %d: non-finite directions emitted=%r received=%r", idx, e, r)
    d = float(np.linalg.norm(t - f))
    mark = ""
    if analytic and math.isfinite(L) and not (L >= 0.9 * d - 1e-3):
        n_f_ = ice_spec["n0"] - ice_spec["k"] * math.exp(ice_spec["a"] * f[2])
        b_ = n_f_ * math.hypot(e[0], e[1])
        if 4 * cancellation_bound(ice_spec, f, t, b_, bool(path.direct)) >= d - L:
            mark = " " + F17_MARK
    if not analytic:
        # the numeric tracer integrates with whole steps of dz: paths shorter than a few
        # steps may legitimately come out as short as zero (held to the dz budget by the caller)
        require(math.isfinite(L) and math.isfinite(T) and L >= 0 and T >= 0,
                "solution %d: path_length=%r tof=%r", idx, L, T)
    else:
        require(math.isfinite(L) and math.isfinite(T) and (L > 0 or d == 0) and (T > 0 or d == 0),
                "solution %d: path_length=%r tof=%r for a chord of %r m%s", idx, L, T, d, mark)
    require(abs(np.linalg.norm(e) - 1) < 1e-9 and abs(np.linalg.norm(r) - 1) < 1e-9,
            "solution %d: directions not unit: |e|=%r |r|=%r", idx, np.linalg.norm(e), np.linalg.norm(r))
    n_f = ice_spec["n0"] - ice_spec["k"] * math.exp(ice_spec["a"] * f[2])
    n_t = ice_spec["n0"] - ice_spec["k"] * math.exp(ice_spec["a"] * t[2])
    be = n_f * math.hypot(e[0], e[1])
    br = n_t * math.hypot(r[0], r[1])
    require(abs(be - br) <= 1e-9 * max(1.0, be),
            "solution %d: n sin(theta) differs between launch (%r) and reception (%r)", idx, be, br)
    # straight line distance / c is a lower bound of both quantities (n >= 1)
    if analytic:   # (the numeric tracer is held to its dz budget by the caller)
        # gross sanity only (grazing rays found in the documented linear `link_range` can be a
        # per cent short; the quadrature comparison below carries the derived tolerances)
        require(L >= 0.9 * d - 1e-3, "solution %d: path_length %r shorter than the chord %r%s",
                idx, L, d, mark)
    return e, r, L, T, be


def _azimuth_ok(vec, f, t, idx, what, tol):
    h = t[:2] - f[:2]
    rho = float(np.hypot(*h))
    vh = float(np.hypot(vec[0], vec[1]))
    if rho < 1e-9 or vh < 1e-12:
        return
    # horizontal part of the direction must point from source to receiver
    cross = (vec[0] * h[1] - vec[1] * h[0]) / (vh * rho)
    dot = (vec[0] * h[0] + vec[1] * h[1]) / (vh * rho)
    require(abs(cross) <= tol and dot > 0,
            "solution %d: %s direction is not in the vertical plane through the endpoints "
            "(sin of azimuth error %r, cos %r)", idx, what, cross, dot)


# ---------------------------------------------------------------------------
# known finding F17: cancellation noise of the analytic closed forms

EPS = 2.220446049250313e-16
F17_MARK = "[F17 closed-form cancellation]"


def cancellation_bound(ice_spec, f, t, beta, direct):
    """Rounding-noise estimate (metres of path length) of pyrex's closed forms.

    They evaluate log(n0 n_z - beta^2 - sqrt(alpha gamma)) at the end points, at
    the turning depth and at z_uniform; the argument equals
    beta^2 (n0-n_z)^2 / (n0 n_z - beta^2 + sqrt(alpha gamma)) and is computed by
    subtracting numbers of size n0 n_z, so its relative error is about
    eps n0 n_z / argument, which the 1/a prefactor turns into metres.
    """
    n0, k, a = ice_spec["n0"], ice_spec["k"], ice_spec["a"]
    z_u = R.z_uniform_of(ice_spec)
    alpha = n0 * n0 - beta * beta
    if alpha <= 0 or beta <= 0:
        return 0.0
    pts = [f[2], t[2]]
    if min(f[2], t[2]) < z_u < max(f[2], t[2]) or (not direct and min(f[2], t[2]) < z_u):
        pts += [z_u, z_u]
    if not direct:
        hi = sorted(ice_spec["range"])[1]
        zt = math.log(max(1e-300, (n0 - min(beta, n0 * (1 - 1e-16))) / k)) / a
        pts += [min(hi, zt)] * 2
    total = 0.0
    for z in pts:
        if z < z_u:
            continue
        nz = n0 - k * math.exp(a * z)
        gamma = max(nz * nz - beta * beta, 0.0)
        arg = (beta * k * math.exp(a * z)) ** 2 / (n0 * nz - beta * beta + math.sqrt(alpha * gamma))
        if arg <= 0:
            continue
        rel = min(1.0, 2 * EPS * n0 * nz / arg)
        total += rel * n0 / (a * math.sqrt(alpha))
    return total


# ---------------------------------------------------------------------------
# analytic tracer vs quadrature (O1)


def check_analytic_quadrature(case, rec):
    from pyrex.ray_tracing import SpecializedRayTracer
    ice_spec = case["ice"]
    ice = gens.build_ice(ice_spec)
    f, t = realise(case, SpecializedRayTracer, ice)
    rt = SpecializedRayTracer(f, t, ice_model=ice)
    sols = rt.solutions
    require(len(sols) in (0, 2), "gradient-index tracer returned %d solutions for %r -> %r",
            len(sols), f.tolist(), t.tolist())
    require(bool(rt.exists) == (len(sols) > 0), "exists=%r but %d solutions", rt.exists, len(sols))
    rho = float(np.hypot(t[0] - f[0], t[1] - f[1]))
    z_u = R.z_uniform_of(ice_spec)
    Q = R.Quadrature(R.Profile(ice_spec, uniform_below=z_u))
    geom = "from %r to %r (ice %r)" % (f.tolist(), t.tolist(), {k: ice_spec[k] for k in ("n0", "k", "a", "range")})
    d_max = Q.direct_rho_max(f[2], t[2]) if f[2] != t[2] else 0.0
    degenerate = 0
    for idx, p in enumerate(sols):
        e, r, L, T, beta = _basic_solution_facts(p, f, t, ice_spec, idx)
        _azimuth_ok(e, f, t, idx, "emitted", 1e-9)
        _azimuth_ok(r, f, t, idx, "received", 1e-9)
        direct = bool(p.direct)
        if direct:
            require(idx == 0, "direct flag on solution %d", idx)
            if f[2] != t[2]:
                require((e[2] > 0) == (t[2] > f[2]) or abs(e[2]) < 1e-9,
                        "solution 0 (direct) launched %s although the receiver is %s: %s",
                        "up" if e[2] > 0 else "down", "above" if t[2] > f[2] else "below", geom)
            require((r[2] > 0) == (e[2] > 0) or abs(r[2]) < 1e-7 or abs(e[2]) < 1e-7,
                    "direct ray changes vertical sense: emitted z %r received z %r; %s", e[2], r[2], geom)
            q = Q.direct(f[2], t[2], beta)
        else:
            require(e[2] >= -1e-9 and r[2] <= 1e-9,
                    "turning ray must leave upwards and arrive downwards: e_z=%r r_z=%r; %s",
                    e[2], r[2], geom)
            q = Q.indirect(f[2], t[2], beta)
        n_hi = ice_spec["n0"] - ice_spec["k"] * math.exp(ice_spec["a"] * max(f[2], t[2]))
        if q is None and beta <= n_hi * (1 + 1e-9):
            # horizontal at the upper end point to within rounding: the branch integral is
            # not defined for the oracle; nothing further can be decided for this solution
            degenerate += 1
            continue
        require(q is not None, "solution %d: no %s ray with n sin(theta) = %r exists between these "
                "depths; %s", idx, "non-turning" if direct else "turning", beta, geom)
        base = 5e-3
        # 1e-5 relative: pyrex's root finder (xtol 1e-12 rad) and closed forms reach
        # 1e-6..1e-12; wrong algebra shows up at 1e-4 and above
        tol_r = base + 1e-5 * max(rho, L)
        tol_L = base + 1e-5 * L
        tol_T = 1e-5 * T + base * ice_spec["n0"] / C
        if min(f[2], t[2]) < z_u:
            # below z_uniform the closed form for the time keeps n(z) in the numerator
            # while the model index is n0: a relative difference of at most 1-uniformity_factor
            tol_T += 1.5 * UNIFORMITY * T
        if beta <= BETA_TOL * 1.02:
            # documented: below beta_tolerance the closed forms treat the ray as vertical
            qv = Q.direct(f[2], t[2], BETA_TOL * 1.02) if direct else Q.indirect(f[2], t[2], BETA_TOL * 1.02)
            tol_r += float(qv[0])
            tol_L += 2 * (BETA_TOL / 1.3) ** 2 * L
            tol_T += 2 * (BETA_TOL / 1.3) ** 2 * T
        n_hi = ice_spec["n0"] - ice_spec["k"] * math.exp(ice_spec["a"] * max(f[2], t[2]))
        n_lo = ice_spec["n0"] - ice_spec["k"] * math.exp(ice_spec["a"] * min(f[2], t[2]))
        if 1 - beta / n_hi < 5e-6:
            # the ray is horizontal at the upper end point to within ~3e-3 rad.  There
            # rho(beta) has an inverse-square-root slope, so the root finder's angular
            # tolerance (and, on the indirect branch, the documented linear `link_range`
            # of 1e-6 rad to the maximal direct distance) shows up as a distance error
            # bounded by the variation of rho over this grazing range
            b_g = n_hi * (1 - 5e-6)
            qg = Q.direct(f[2], t[2], b_g) if direct else Q.indirect(f[2], t[2], b_g)
            if qg is not None:
                graze = abs(float(qg[0]) - d_max) + 1e-3
                tol_r += graze
                tol_L += 2 * graze
                tol_T += 2 * graze * ice_spec["n0"] / C
        n_surf = ice_spec["n0"] - ice_spec["k"] * math.exp(ice_spec["a"] * sorted(ice_spec["range"])[1])
        if not direct and abs(1 - beta / n_surf) < 1e-4:
            # the ray tops out within centimetres of the surface: mirrored there or turned just below
            # (the tracer clamps the turning depth to the surface) - same allowance as in the ODE
            # sub-check (seen there: 2 cm at L = 84 m, 12 cm at L = 230 m; here 11 cm at L = 37 m)
            sg = 0.1 + 2e-3 * L
            tol_r += sg
            tol_L += 2 * sg
            tol_T += 2 * sg * ice_spec["n0"] / C
        errs = (abs(q[0] - rho), abs(q[1] - L), abs(q[2] - T))
        if errs[0] > tol_r or errs[1] > tol_L or errs[2] > tol_T:
            # conditioning of the comparison itself: the reported direction carries beta
            # only to a few ulp; where rho(beta) is steep (nearly flat index, grazing
            # rays) that alone moves the integrals
            fn = Q.direct if direct else Q.indirect
            lo_b = fn(f[2], t[2], beta * (1 - 8 * EPS))
            hi_b = fn(f[2], t[2], min(beta * (1 + 8 * EPS), n_hi))
            cond = 0.0
            for qq in (lo_b, hi_b):
                if qq is not None:
                    cond += abs(float(qq[0] - q[0]))
                    tol_r += abs(float(qq[0] - q[0]))
                    tol_L += abs(float(qq[1] - q[1]))
                    tol_T += abs(float(qq[2] - q[2]))
            if cond > 0.01 * max(rho, 1.0):
                # 8 ulp of beta move the ray by more than 1 % of the distance: the reported
                # direction does not determine the ray; the ODE sub-check decides these
                degenerate += 1
                continue
        tols = (tol_r, tol_L, tol_T)
        mark = ""
        if any(e_ > t_ for e_, t_ in zip(errs, tols)):
            cb = 4 * cancellation_bound(ice_spec, f, t, beta, direct)
            if errs[0] <= tol_r + cb and errs[1] <= tol_L + cb and errs[2] <= tol_T + cb * ice_spec["n0"] / C:
                mark = " " + F17_MARK
        require(errs[0] <= tol_r,
                "solution %d (%s): launched as reported (n sin theta=%r) the ray covers a horizontal "
                "distance %r, the receiver is at %r (tol %.3g); %s%s",
                idx, "direct" if direct else "indirect", beta, float(q[0]), rho, tol_r, geom, mark)
        require(errs[1] <= tol_L,
                "solution %d (%s): path_length %r but the line integral of ds is %r (tol %.3g); %s%s",
                idx, "direct" if direct else "indirect", L, float(q[1]), tol_L, geom, mark)
        require(errs[2] <= tol_T,
                "solution %d (%s): tof %r but the line integral of n ds / c is %r (tol %.3g); %s%s",
                idx, "direct" if direct else "indirect", T, float(q[2]), tol_T, geom, mark)
    if len(sols) == 2 and f[2] != t[2]:
        # (margin 1e-4: the tracer's own maximal direct distance comes from closed forms that
        # carry the F17 rounding noise; closer to the boundary the classification is undecidable)
        if rho < d_max * (1 - 1e-4) - 1e-6:
            require(bool(sols[0].direct), "a non-turning ray exists (rho=%r < %r) but solution 0 turns; %s",
                    rho, d_max, geom)
        elif rho > d_max * (1 + 1e-4) + 1e-6:
            require(not sols[0].direct, "no non-turning ray exists (rho=%r > %r) but solution 0 is "
                    "flagged direct; %s", rho, d_max, geom)
        require(not sols[1].direct, "solution 1 flagged direct; %s", geom)
    cl = _classes(case, ice_spec, f, t, len(sols))
    if len(sols) == 2 and not sols[0].direct:
        cl.append("band_two_turning")
    if degenerate:
        cl.append("degenerate_grazing")
    rec.case(case, nontrivial=len(sols) == 2 and degenerate < 2, classes=cl)


# ---------------------------------------------------------------------------
# analytic tracer vs ODE shooter in the true profile (O2)


def _angle_tolerance(ice_spec, f, t, beta, turning):
    """Direction error explained by the two documented approximations."""
    z_u = R.z_uniform_of(ice_spec)
    tol = 2e-6
    if min(f[2], t[2]) < z_u:
        n0 = ice_spec["n0"]
        g = n0 * n0 - beta * beta
        tan_deep = beta / math.sqrt(g) if g > 0 else math.inf
        tol += min(3 * UNIFORMITY * tan_deep, 1.5 * math.sqrt(2 * UNIFORMITY))
    if beta <= BETA_TOL * 1.02:
        # sin(theta) = beta/n(z) <= beta_tolerance / n(surface)
        tol += BETA_TOL * 1.02 / (ice_spec["n0"] - ice_spec["k"])
    return tol


def check_analytic_shoot(case, rec):
    from pyrex.ray_tracing import SpecializedRayTracer
    ice_spec = case["ice"]
    ice = gens.build_ice(ice_spec)
    f, t = realise(case, SpecializedRayTracer, ice)
    rt = SpecializedRayTracer(f, t, ice_model=ice)
    sols = rt.solutions
    geom = "from %r to %r (ice %r)" % (f.tolist(), t.tolist(), {k: ice_spec[k] for k in ("n0", "k", "a", "range")})
    cl = _classes(case, ice_spec, f, t, len(sols))
    for idx, p in enumerate(sols):
        e, r, L, T, beta = _basic_solution_facts(p, f, t, ice_spec, idx)
        shot = R.shoot(ice_spec, f, e, t, 1.2 * L + 50.0)
        dth = _angle_tolerance(ice_spec, f, t, beta, not p.direct)
        tol_miss = 0.02 + L * dth
        sh = R.pick_arrival(shot, tol_miss, L)
        cond = 0.0
        if sh["miss"] > tol_miss or abs(sh["s"] - L) > 1e-4 * L + sh["miss"] + 1e-3:
            # conditioning of the experiment: the reported direction fixes the polar angle
            # only to a few ulp of sin(theta); for nearly horizontal rays in nearly flat
            # index (or rays grazing the surface) that alone moves the landing point
            sin_t = math.hypot(e[0], e[1])
            if 0 < sin_t < 1:
                d_ang = 16 * EPS * sin_t / max(abs(e[2]), 1e-12) + 1e-12
                for sgn in (-1.0, 1.0):
                    th = math.atan2(sin_t, e[2]) + sgn * d_ang
                    e2 = np.array([e[0] / sin_t * math.sin(th), e[1] / sin_t * math.sin(th), math.cos(th)])
                    sh2 = R.pick_arrival(R.shoot(ice_spec, f, e2, t, 1.2 * L + 50.0), tol_miss, L)
                    cond = max(cond, abs(sh2["miss"] - sh["miss"]) + abs(sh2["s"] - sh["s"]))
        if cond > 0.01 * max(1.0, L):
            rec.klass("ill_conditioned_shot")
            continue
        n_hi = ice_spec["n0"] - ice_spec["k"] * math.exp(ice_spec["a"] * max(f[2], t[2]))
        if 1 - beta / n_hi < 5e-6:
            # horizontal at the upper end point within ~3e-3 rad: inverse-square-root slope of
            # rho(beta) + the documented linear `link_range` (see the quadrature sub-check)
            Qt = R.Quadrature(R.Profile(ice_spec), epsrel=1e-9)
            b_g = n_hi * (1 - 5e-6)
            qg = Qt.direct(f[2], t[2], b_g) if p.direct else Qt.indirect(f[2], t[2], b_g)
            if qg is not None:
                cond += abs(float(qg[0]) - (Qt.direct_rho_max(f[2], t[2]) if f[2] != t[2] else 0.0)) + 1e-3
        n_surf = ice_spec["n0"] - ice_spec["k"] * math.exp(ice_spec["a"] * sorted(ice_spec["range"])[1])
        surface_grazing = (not p.direct) and abs(1 - beta / n_surf) < 1e-4
        if surface_grazing:
            # the ray tops out within a fraction of a millimetre of the surface: whether it is
            # mirrored there or turns just below (the analytic tracer clamps the turning depth
            # to the surface) moves the landing point by centimetres (seen: 2 cm at L = 84 m,
            # 12 cm at L = 230 m) and changes the arrival angle
            cond += 0.1 + 2e-3 * L
        tol_miss += cond
        cond += L * dth   # a direction error dth changes the arc length by at most L*dth
        cb = 4 * cancellation_bound(ice_spec, f, t, beta, bool(p.direct))
        mark = ""
        if (sh["miss"] > tol_miss or abs(sh["s"] - L) > 1e-4 * L + sh["miss"] + 1e-3 + cond or
                abs(sh["tof"] - T) > 1e-4 * T + ice_spec["n0"] * (sh["miss"] + 1e-3 + cond) / C):
            if sh["miss"] <= tol_miss + cb and abs(sh["s"] - L) <= 1e-4 * L + sh["miss"] + 1e-3 + cond + cb:
                mark = " " + F17_MARK
        require(sh["miss"] <= tol_miss,
                "solution %d (%s): a ray launched from the source in the reported direction %r passes "
                "the receiver at %.4g m (allowed %.3g m = 0.02 + L*%.3g rad); %s%s",
                idx, "direct" if p.direct else "indirect", e.tolist(), sh["miss"], tol_miss, dth, geom, mark)
        require(abs(sh["s"] - L) <= 1e-4 * L + sh["miss"] + 1e-3 + cond,
                "solution %d: path_length %r but arc length to the receiver is %r; %s%s", idx, L, sh["s"],
                geom, mark)
        require(abs(sh["tof"] - T) <= 1e-4 * T + ice_spec["n0"] * (sh["miss"] + 1e-3 + cond) / C,
                "solution %d: tof %r but integrated n ds/c is %r; %s%s", idx, T, sh["tof"], geom, mark)
        # (the side of the receiver on which the ray turns over is decidable only when the
        # arrival and launch angles differ from horizontal by more than the angular budget)
        g_ang = max(1e-3, 3 * dth)
        grazing = abs(sh["pz"]) / sh["n_end"] < g_ang or abs(e[2]) < g_ang
        # an endpoint on the surface makes the reflection coincide with the endpoint
        # (likewise an endpoint closer to the surface than the landing tolerance: the pass before
        # and the pass after the reflection cannot be told apart)
        grazing = grazing or surface_grazing or \
            max(f[2], t[2]) >= sorted(ice_spec["range"])[1] - max(1e-2, tol_miss, sh["miss"])
        if not grazing and sh["miss"] < 0.5 * max(1.0, 0.01 * L):
            events = int(sh["turned"]) + int(sh["reflected"])
            want_events = 0 if p.direct else 1
            if events != want_events and not mark:
                # the pass was picked by arc length nearest to the reported path_length; where that
                # length itself carries the F17 rounding noise (cb metres) a pass with the right
                # event count within cb of it means the length, not the flag, is what is off
                alts = [c for c in shot["candidates"] if c["miss"] <= tol_miss and
                        int(c["turned"]) + int(c["reflected"]) == want_events]
                if alts and min(abs(c["s"] - L) for c in alts) <= 1e-4 * L + tol_miss + 1e-3 + cond + cb:
                    mark = " " + F17_MARK
            if p.direct:
                require(events == 0, "solution %d is flagged direct but the shot ray %s before reaching "
                        "the receiver; %s%s", idx,
                        "reflects off the surface" if sh["reflected"] else "turns over", geom, mark)
            else:
                require(events == 1, "solution %d is flagged indirect but the shot ray has %d turning "
                        "events before reaching the receiver; %s%s", idx, events, geom, mark)
                cl.append("reflected" if sh["reflected"] else "refracted_turn")
            # received direction = tangent of the shot ray at the receiver
            cz = sh["pz"] / sh["n_end"]
            # (a ray passing the receiver at distance `miss` is compared where the index differs by
            # n' miss: d cos(theta) = n' miss / (n cos(theta)), large for shallow flat arrivals)
            bend = ice_spec["k"] * ice_spec["a"] * math.exp(ice_spec["a"] * t[2]) * sh["miss"] / \
                (sh["n_end"] * max(abs(cz), abs(r[2]), 1e-3))
            require(abs(cz - r[2]) <= 2 * dth + 1e-5 + 2 * sh["miss"] / max(L, 1.0) + 2 * bend,
                    "solution %d: received_direction z %r but the shot ray arrives with z component %r; %s",
                    idx, r[2], cz, geom)
    rec.case(case, nontrivial=len(sols) == 2, classes=cl)


# ---------------------------------------------------------------------------
# numeric tracer


def _numeric_tolerance(Q, ice_spec, f, t, beta, direct, dz):
    """Error budget of the dz-trapezoid, evaluated by the oracle.

    The numeric path stops dz/10 short of the turning depth on both legs and
    integrates an inverse-square-root singularity with a trapezoid of step dz:
    the omitted segments and the last panels are each of the order of
    sqrt(2 beta delta / |n'|) with delta = dz/10 resp. dz.
    """
    prof = Q.p
    z_top, reflects = Q.top_of(beta)
    hi_z = max(f[2], t[2])
    if direct or reflects or z_top is None:
        # smooth integrand except when nearly horizontal at the upper end point
        if reflects and not direct:
            # a reflected ray is steepest (in tan) at the surface, where it also omits dz/10 twice
            hi_z = sorted(ice_spec["range"])[1]
        n_hi = prof.n_true(hi_z)
        g = n_hi * n_hi - beta * beta
        slope = abs(prof.dn(hi_z))
        if g <= 0:
            return math.inf
        tan_hi = beta / math.sqrt(g)
        # trapezoid error ~ dz^2/12 * |d tan/dz| summed: bounded by dz * tan at the steep end
        return 4 * dz * tan_hi * (1 + dz * slope * beta * n_hi / g)
    slope = abs(prof.dn(z_top))
    seg = lambda d: math.sqrt(2 * beta * d / slope)
    return 4 * (2 * seg(dz / 10) + 2 * seg(dz)) * 0.5 + 4 * dz


def check_numeric(case, rec):
    from pyrex.ray_tracing import BasicRayTracer
    ice_spec = case["ice"]
    ice = gens.build_ice(ice_spec)
    dz = case["dz"]
    f, t = realise(case, BasicRayTracer, ice, dz=dz)
    if abs(f[2] - t[2]) < 5 * dz:
        # fewer than five integration steps between the depths: the trapezoid has no
        # interior panels to speak of; outside the domain in which a step size is meaningful
        rec.case(case, nontrivial=False, classes=["unresolved_by_dz"])
        return
    rt = BasicRayTracer(f, t, ice_model=ice, dz=dz)
    sols = rt.solutions
    require(len(sols) in (0, 2), "numeric tracer returned %d solutions", len(sols))
    require(bool(rt.exists) == (len(sols) > 0), "exists=%r but %d solutions", rt.exists, len(sols))
    rho = float(np.hypot(t[0] - f[0], t[1] - f[1]))
    Q = R.Quadrature(R.Profile(ice_spec), epsrel=1e-9)
    geom = "from %r to %r dz=%r (ice %r)" % (f.tolist(), t.tolist(), dz,
                                              {k: ice_spec[k] for k in ("n0", "k", "a", "range")})
    cl = _classes(case, ice_spec, f, t, len(sols)) + ["dz=%g" % dz]
    worst = 0.0
    for idx, p in enumerate(sols):
        e, r, L, T, beta = _basic_solution_facts(p, f, t, ice_spec, idx, analytic=False)
        _azimuth_ok(e, f, t, idx, "emitted", 1e-9)
        _azimuth_ok(r, f, t, idx, "received", 1e-9)
        direct = bool(p.direct)
        if direct:
            if f[2] != t[2]:
                require((e[2] > 0) == (t[2] > f[2]) or abs(e[2]) < 1e-9,
                        "direct solution launched in the wrong vertical sense; %s", geom)
            q = Q.direct(f[2], t[2], beta)
        else:
            require(e[2] >= -1e-9 and r[2] <= 1e-9, "turning ray must leave upwards and arrive "
                    "downwards: e_z=%r r_z=%r; %s", e[2], r[2], geom)
            q = Q.indirect(f[2], t[2], beta)
        if q is None:
            # beta marginally above n at the upper endpoint: only possible within the
            # discretisation error of a grazing ray
            n_hi = ice_spec["n0"] - ice_spec["k"] * math.exp(ice_spec["a"] * max(f[2], t[2]))
            require(beta <= n_hi * (1 + 1e-6), "solution %d: n sin(theta)=%r exceeds the index %r at the "
                    "upper endpoint; %s", idx, beta, n_hi, geom)
            continue
        tol = _numeric_tolerance(Q, ice_spec, f, t, beta, direct, dz)
        if not math.isfinite(tol):
            continue
        if direct and f[2] != t[2]:
            # the direct distance is a trapezoid sum of the monotone tan(theta(z)) over the whole
            # interval with equal steps: error <= step x |tan_a - tan_b| (twice the textbook bound)
            n_a, n_b = Q.p.n_true(min(f[2], t[2])), Q.p.n_true(max(f[2], t[2]))
            g_a, g_b = n_a * n_a - beta * beta, n_b * n_b - beta * beta
            if g_a > 0 and g_b > 0:
                step = abs(f[2] - t[2]) / max(1, int(abs(f[2] - t[2]) / dz))
                tol = min(tol, step * abs(beta / math.sqrt(g_a) - beta / math.sqrt(g_b)) + 1e-9)
        err = abs(float(q[0]) - rho)
        worst = max(worst, err / max(tol, 1e-12))
        require(err <= tol + 1e-6 * rho + 1e-6,
                "solution %d (%s): launched as reported the ray covers %r m horizontally, receiver at "
                "%r m: error %.4g exceeds the dz-discretisation budget %.4g; %s",
                idx, "direct" if direct else "indirect", float(q[0]), rho, err, tol, geom)
        if direct and f[2] != t[2]:
            # a direct path is integrated over the whole depth interval with int(|dz_tot|/dz) equal
            # steps and nothing omitted: the trapezoid error of a function is at most step x its
            # total variation / 2.  sec(theta) is monotone in z; TV(n sec) <= n_max TV(sec) + sec_max TV(n)
            prof = Q.p
            n_a, n_b = prof.n_true(min(f[2], t[2])), prof.n_true(max(f[2], t[2]))
            g_a, g_b = n_a * n_a - beta * beta, n_b * n_b - beta * beta
            if g_a > 0 and g_b > 0:
                sec_a, sec_b = n_a / math.sqrt(g_a), n_b / math.sqrt(g_b)
                step = abs(f[2] - t[2]) / max(1, int(abs(f[2] - t[2]) / dz))
                b_L = step * abs(sec_a - sec_b)
                b_T = (max(n_a, n_b) * b_L + step * max(sec_a, sec_b) * abs(n_a - n_b)) / C
                require(abs(float(q[1]) - L) <= b_L + 1e-6 * L + 1e-9,
                        "solution %d (direct): path_length %r vs line integral %r: differs by more than the "
                        "trapezoid bound %.3g of %d steps over the depth interval; %s",
                        idx, L, float(q[1]), b_L, int(abs(f[2] - t[2]) / dz), geom)
                require(abs(float(q[2]) - T) <= b_T + 1e-6 * T + 1e-18,
                        "solution %d (direct): tof %r vs line integral %r: differs by more than the "
                        "trapezoid bound %.3g; %s", idx, T, float(q[2]), b_T, geom)
        # lengths and times: same relative budget, applied to the integrals at the reported beta
        rel = (tol + 1e-6 * rho) / max(rho, 1.0)
        rel = min(0.5, 2 * rel + 2e-3)
        require(abs(float(q[1]) - L) <= rel * L + 3 * dz,
                "solution %d: path_length %r vs line integral %r (relative budget %.3g); %s",
                idx, L, float(q[1]), rel, geom)
        require(abs(float(q[2]) - T) <= rel * T + 3 * dz * ice_spec["n0"] / C,
                "solution %d: tof %r vs line integral %r (relative budget %.3g); %s",
                idx, T, float(q[2]), rel, geom)
    rec.case(case, nontrivial=len(sols) == 2, classes=cl)


def _classify(case, exc):
    if R.flat_index_pair(case["ice"], case["z_from"], case["z_to"],
                         case["rho"].get("value") if case["rho"]["mode"] == "abs" else None):
        return "flat-index-pair"
    if F17_MARK in str(exc):
        return "closed-form-cancellation"
    if isinstance(exc, ValueError) and "must have different signs" in str(exc) and \
            case.get("tracer", "specialized") == "basic":
        return "basic-tracer-bracket-without-sign-change"
    return None


def _classify_numeric(case, exc):
    if R.flat_index_pair(case["ice"], case["z_from"], case["z_to"],
                         case["rho"].get("value") if case["rho"]["mode"] == "abs" else None):
        return "flat-index-pair"
    msg = str(exc)
    if isinstance(exc, ValueError) and "must have different signs" in msg:
        return "basic-tracer-bracket-without-sign-change"
    if isinstance(exc, ValueError) and ("NaN" in msg or "nan" in msg):
        return "basic-tracer-nan-at-max-angle"
    return None


PROPERTY = Property(
    "C01", "Every ray-trace solution is a true ray joining its two endpoints",
    [
        SubCheck("analytic_quadrature", pair_specs(), check_analytic_quadrature,
                 quick=1600, thorough=80000,
                 rule="ice (shipped or arbitrary n0,k,a,range) x endpoint pair (generic/shallow/deep/"
                      "vertical/near-vertical/shadow boundary/equal depth/on bounds, any azimuth and x,y "
                      "offset, both orders) traced by SpecializedRayTracer; each solution re-integrated by "
                      "adaptive quadrature of the Snell integrals from its reported direction; "
                      "non-trivial = two solutions returned",
                 floors={"sol=2": 0.35, "source_above": 0.2, "below_z_uniform": 0.15, "shallow": 0.03,
                         "xy_offset": 0.25, "custom_ice": 0.3}, classify=_classify),
        SubCheck("analytic_shoot", pair_specs(), check_analytic_shoot,
                 quick=640, thorough=30000,
                 rule="same pairs; each solution shot through the true exponential profile by an ODE "
                      "integrator (DOP853, rtol 1e-11, mirror at the surface): closest approach, arc "
                      "length, optical time, turning events, arrival direction; non-trivial = two solutions",
                 floors={"sol=2": 0.3, "reflected": 0.03, "refracted_turn": 0.02}, classify=_classify),
        SubCheck("numeric", pair_specs(numeric=True), check_numeric,
                 quick=800, thorough=30000,
                 rule="same pairs x dz in {2,1,0.5,0.25} traced by BasicRayTracer; quadrature reference in "
                      "the true profile with the dz-discretisation budget (omitted dz/10 segments + "
                      "singular trapezoid panels) as tolerance; non-trivial = two solutions",
                 floors={"sol=2": 0.3},
                 classify=_classify_numeric, shrink_cap=(30, 180)),
    ],
    assumptions=[
        "the analytic tracer's two documented approximations (uniformity_factor = 1-1e-5, beta_tolerance = "
        "0.005) are part of its contract: their effect is bounded in the tolerances, not reported",
        "the numeric tracer is an O(sqrt(dz)) scheme by construction; it is held to its discretisation "
        "budget, not to analytic accuracy",
        "completeness (every physical ray is found) is not part of the statement; the fraction of pairs "
        "with solutions is a generator floor instead",
    ],
    design_ref="3/C01",
)
