"""C10 - the event kernel: one time-aligned signal per ray solution, any component (DESIGN 3/C10).

Every sub-check runs `EventKernel.event()` on a generated configuration and compares what the
antennas / the writer / the caller received with a reference that is assembled by the harness
from FRESH component objects (second ice object, fresh tracer per vertex/antenna pair, twin
antennas, twin generator under the same numpy seed, harness-side viewing angle and polarization
formulas).  The kernel's own loop (what is handed to whom, how often, in which order, on which
time grid) is never consulted by the reference.

Sub-checks (one per clause / root cause):
  interface  every shipped tracer x model x attenuation_interpolation x writer runs at all (F8)
  align      event identity, number / order / exact time grid of the signals, off-cone => zero
  values     each signal equals receive(propagate(model(...))) recomputed by the harness
  weights    weight cuts (float and (survival, interaction)) incl. values equal to the threshold
  writer     arguments of writer.add (paths, polarizations, events_thrown, triggered), real File
  triggers   trigger function(s): called once, on the kernel's antennas, after all signals
"""

import inspect
import math
import os
import shutil
import tempfile

import numpy as np
from hypothesis import strategies as st

from ..core import Property, SubCheck, Violation, require
from .. import gens, ref_rays as R
from ..gens import floats, log_floats

MODELS = ["ARZ", "AVZ", "ZHS", "ARVZ"]
NU_IDS = ["electron_neutrino", "electron_antineutrino", "muon_neutrino", "muon_antineutrino",
          "tau_neutrino", "tau_antineutrino"]

F8_KEY = "propagate-rejects-attenuation_interpolation"
META_KEY = "ray-path-without-_metadata"
NAN_KEY = "viewing-angle-nan-direction-along-ray"

ALL_CHECKS = frozenset(["align", "values", "weights", "writer", "triggers"])


# ---------------------------------------------------------------------------
# small vector helpers (harness side; no pyrex)


def _seed(base, k):
    return (int(base) + int(k)) % 2**32


def _v(p):
    return np.array([float(p[0]), float(p[1]), float(p[2])])


def _unit(v):
    v = np.asarray(v, dtype=float)
    n = math.sqrt(float(np.dot(v, v)))
    return v / n if n > 0 else v


def _perp_basis(e):
    """Two unit vectors orthogonal to the unit vector e and to each other."""
    e = _unit(e)
    a = np.array([1.0, 0.0, 0.0]) if abs(e[0]) < 0.9 else np.array([0.0, 1.0, 0.0])
    u = _unit(np.cross(e, a))
    w = np.cross(e, u)
    return u, w


def viewing_angle(d, e):
    """Angle between particle direction d and emitted direction e (well conditioned everywhere)."""
    d = np.asarray(d, dtype=float)
    e = np.asarray(e, dtype=float)
    c = np.cross(d, e)
    return math.atan2(math.sqrt(float(np.dot(c, c))), float(np.dot(d, e)))


def vertex_polarization(d, e):
    """Askaryan polarization at the vertex: (d x e) x e normalised (zero when d is along e)."""
    d = np.asarray(d, dtype=float)
    e = np.asarray(e, dtype=float)
    return _unit(np.cross(np.cross(d, e), e))


# ---------------------------------------------------------------------------
# generators of case specs


def _medium_frame(medium):
    """(lo, hi, zmin): ice range and the deepest depth used for in-ice points."""
    ice = medium["ice"]
    if ice["cls"] == "LayeredIce":
        lo = min(l["range"][0] for l in ice["layers"])
        hi = max(l["range"][1] for l in ice["layers"])
        return lo, hi, max(lo, hi - 1500.0)
    lo, hi = sorted(ice["range"])
    if ice["cls"] == "UniformIce":
        return lo, hi, max(lo, hi - 1500.0)
    # gradient ice: stay where index(z) is distinguishable from n0 (known finding F16 below)
    zmin = max(lo, -30.0 / ice["a"], -1200.0 if medium["tracer"] == "specialized" else -600.0)
    return lo, hi, zmin


@st.composite
def medium_specs(draw, kinds=("specialized", "specialized", "basic", "uniform", "uniform", "layered")):
    kind = draw(st.sampled_from(list(kinds)))
    if kind in ("specialized", "basic"):
        ice = draw(gens.exp_ice_specs(boundary_indices=False, min_depth=400.0, max_depth=3000.0))
        return dict(tracer=kind, ice=ice, max_ref=None)
    if kind == "uniform":
        return dict(tracer=kind, ice=draw(gens.uniform_ice_specs()), max_ref=draw(st.integers(0, 2)))
    d1 = draw(floats(30.0, 400.0))
    d2 = d1 + draw(floats(100.0, 1200.0))
    top = dict(cls="UniformIce", n=draw(floats(1.3, 1.5)), range=[-d1, 0.0], above=1.0, below=None)
    if draw(st.integers(0, 2)) > 0:
        bot = dict(cls="UniformIce", n=draw(floats(1.55, 1.8)), range=[-d2, -d1], above=1.0, below=None)
    else:
        bot = dict(cls="AntarcticIce", n0=1.78, k=0.43, a=0.0132, range=[-d2, -d1], above=1.0,
                   below=None, default=True)
    ice = dict(cls="LayeredIce", layers=[top, bot], above=draw(st.sampled_from([1.0, 1.0, None])),
               below=draw(st.sampled_from([None, None, 1.9])))
    return dict(tracer="layered", ice=ice, max_ref=draw(st.integers(0, 1)))


@st.composite
def point_specs(draw, medium, kinds):
    lo, hi, zmin = _medium_frame(medium)
    kind = draw(st.sampled_from(list(kinds)))
    x, y = draw(floats(-300.0, 300.0)), draw(floats(-300.0, 300.0))
    span = hi - zmin
    if kind == "far":
        r = draw(floats(2500.0, 6000.0))
        ph = draw(floats(0.0, 2 * math.pi))
        x, y = r * math.cos(ph), r * math.sin(ph)
        z = hi - min(draw(log_floats(0.5, 60.0)), 0.5 * span)
    elif kind == "outside":
        if draw(st.booleans()):
            z = hi + draw(log_floats(0.1, 30.0))
        else:
            z = lo - draw(log_floats(0.1, 30.0))
    elif kind == "shallow":
        z = hi - min(draw(log_floats(0.5, 60.0)), 0.5 * span)
    else:
        kind = "in"
        z = zmin + span * draw(floats(0.02, 0.98))
    return dict(p=[x, y, z], kind=kind)


@st.composite
def antenna_specs(draw, medium, pkinds=("in", "in", "in", "in", "in", "shallow", "shallow", "far", "outside")):
    pos = draw(point_specs(medium, pkinds))
    kind = draw(st.sampled_from(["antenna", "antenna", "dipole", "dipole", "system"]))
    spec = dict(kind=kind, pos=pos["p"], pkind=pos["kind"])
    if kind == "dipole":
        spec.update(orientation=draw(gens.unit_vectors()), fc=draw(floats(150e6, 500e6)),
                    bw=draw(floats(50e6, 250e6)), thr=draw(st.sampled_from([0.0, 1e-9, 1e-6, 1e-3])))
    else:
        spec.update(af=draw(floats(0.5, 20.0)), eff=draw(floats(0.1, 1.0)))
        if kind == "system":
            spec.update(gain=draw(floats(0.5, 4.0)))
    return spec


@st.composite
def time_specs(draw):
    n = draw(st.integers(64, 256))
    dt = draw(floats(0.2e-9, 2e-9))
    t0 = -n * dt * draw(floats(0.1, 0.5))
    return dict(n=n, dt=dt, t0=t0)


@st.composite
def weight_values(draw):
    """(survival, interaction, forced) weights of a particle."""
    w = lambda: draw(st.sampled_from([None, 0.0, 1.0, 1.0, 0.5, 0.5, 0.25, 0.125, 1e-3]))  # noqa: E731
    kind = draw(st.sampled_from(["none", "both", "both", "forced", "partial", "float"]))
    if kind == "none":
        return None, None, None
    if kind == "forced":
        return w(), w(), draw(st.sampled_from([0.0, 1.0, 0.5, 0.25, 1e-3]))
    if kind == "partial":
        return w(), None, None
    if kind == "float":
        return draw(floats(0.0, 1.0)), draw(floats(0.0, 1.0)), None
    a, b = w(), w()
    return (0.5 if a is None else a), (0.25 if b is None else b), None


@st.composite
def direction_specs(draw, n_ant):
    kind = draw(st.sampled_from(["vec", "cone", "cone", "cone", "along"]))
    if kind == "vec":
        return dict(mode="vec", v=draw(gens.unit_vectors()))
    spec = dict(mode=kind, ant=draw(st.integers(0, max(0, n_ant - 1))), sol=draw(st.integers(0, 2)),
                v=draw(gens.unit_vectors()))
    if kind == "cone":
        spec.update(off_deg=draw(st.one_of(floats(-8.0, 8.0), floats(-60.0, 60.0),
                                           st.sampled_from([0.0, 1.0, -1.0]))),
                    az=draw(floats(0.0, 2 * math.pi)))
        # optional: put the viewing angle a relative step away from the off-cone cut
        spec["edge"] = draw(st.sampled_from([None, None, 1e-3, -1e-3, 1e-6, -1e-6]))
    else:
        spec["sign"] = draw(st.sampled_from([1.0, 1.0, -1.0]))
    return spec


@st.composite
def particle_specs(draw, medium, n_ant, vkinds=("in", "in", "in", "in", "in", "in", "shallow", "outside")):
    vtx = draw(point_specs(medium, vkinds))
    sw, iw, fw = draw(weight_values())
    em = draw(st.sampled_from([0.0, 1.0, None, None]))
    had = draw(st.sampled_from([0.0, 1.0, None, None]))
    return dict(id=draw(st.sampled_from(NU_IDS)), vertex=vtx["p"], vkind=vtx["kind"],
                dir=draw(direction_specs(n_ant)), energy=draw(log_floats(1e5, 1e11)),
                # (0 or >= 1e-3: shower energies stay far above ARZ's pole at 0.0786 GeV, cf. C07)
                em=draw(floats(1e-3, 1.0)) if em is None else em,
                had=draw(floats(1e-3, 1.0)) if had is None else had, sw=sw, iw=iw, fw=fw)


# An antenna that already holds k Askaryan (function-backed) signals takes about 3^k ms to
# receive the next one: every copy of a filtered signal deep-copies the antenna behind the
# bound frequency_response, which holds the earlier signals, which hold copies of the antenna...
# (12 signals: ~1 min per receive).  Cases therefore keep at most SIGNAL_CAP signals on an
# antenna between two clears, by construction.
SIGNAL_CAP = 6


def max_solutions(medium):
    if medium["tracer"] in ("specialized", "basic"):
        return 2
    if medium["tracer"] == "uniform":
        return 2 * medium["max_ref"] + 1
    return 2 + 3 * medium["max_ref"]


@st.composite
def event_lists(draw, medium, n_ant, max_events=3, max_particles=3, vkinds=None, prefer_multi=False):
    kw = {} if vkinds is None else dict(vkinds=vkinds)
    most = max(1, min(max_particles, SIGNAL_CAP // max_solutions(medium)))
    evs = []
    for _ in range(draw(st.integers(1, max_events))):
        ps = [draw(particle_specs(medium, n_ant, **kw))
              for _ in range(draw(st.sampled_from([1, min(2, most), most, most] if prefer_multi
                                                  else [1, 1, min(2, most), most])))]
        evs.append(dict(particles=ps, tree=draw(st.booleans())))
    return evs


@st.composite
def generator_specs(draw, medium, n_ant, kinds=("list", "list", "cyl", "rect", "file"), **kw):
    kind = draw(st.sampled_from(list(kinds)))
    lo, hi, zmin = _medium_frame(medium)
    if kind in ("cyl", "rect"):
        # pyrex's volume generators always start at z = 0
        depth = max(50.0, -zmin)
        spec = dict(kind=kind, dz=depth * draw(floats(0.3, 1.0)),
                    energy=draw(st.one_of(log_floats(1e6, 1e11), st.just("spectrum"))),
                    shadow=draw(st.booleans()),
                    flavor=draw(st.sampled_from([[1, 1, 1], [1, 0, 0], [0, 1, 1], [1, 2, 0]])),
                    source=draw(st.sampled_from(["cosmogenic", "pp"])))
        if kind == "cyl":
            spec["dr"] = draw(log_floats(50.0, 1500.0))
        else:
            spec["dx"] = draw(log_floats(50.0, 2500.0))
            spec["dy"] = draw(log_floats(50.0, 2500.0))
        return spec
    evs = draw(event_lists(medium, n_ant, **kw))
    spec = dict(kind=kind, events=evs)
    if kind == "file":
        spec["thrown"] = [draw(st.integers(1, 4)) for _ in evs]
    else:
        spec["as_particles"] = draw(st.booleans()) and all(len(e["particles"]) == 1 for e in evs)
    return spec


TRIG_KINDS = ["const", "count_ge", "parity", "any_hit", "ant_has"]


@st.composite
def trig_fn_specs(draw, n_ant, plain=False):
    kind = draw(st.sampled_from(TRIG_KINDS))
    spec = dict(kind=kind, ret="bool" if plain else draw(st.sampled_from(["bool", "bool", "obj"])))
    if kind == "const":
        spec["value"] = draw(st.booleans())
    elif kind == "count_ge":
        spec["k"] = draw(st.integers(0, 6))
    elif kind == "ant_has":
        spec["i"] = draw(st.integers(0, n_ant - 1))
    return spec


@st.composite
def trigger_specs(draw, n_ant, plain=False, forms=(None, "func", "dict", "dict")):
    form = draw(st.sampled_from(list(forms)))
    if form is None:
        return None
    if form == "func":
        return dict(form="func", fn=draw(trig_fn_specs(n_ant, plain)))
    extra = draw(st.lists(st.sampled_from(["alpha", "beta", "zeta", "Global", "global2"]),
                          min_size=0, max_size=3, unique=True))
    keys = extra + ["global"]
    order = draw(st.permutations(keys))
    return dict(form="dict", keys=[[k, draw(trig_fn_specs(n_ant, plain))] for k in order])


@st.composite
def writer_specs(draw, kinds=(None, None, "double", "double", "file")):
    kind = draw(st.sampled_from(list(kinds)))
    if kind is None:
        return None
    if kind == "double":
        return dict(kind="double", open=draw(st.booleans()), has_detector=draw(st.booleans()))
    return dict(kind="file", waveforms=draw(st.booleans()), noise=draw(st.booleans()),
                require_trigger=draw(st.booleans()), pre_open=draw(st.booleans()))


def _offcone(draw):
    return draw(st.sampled_from([None, None, 180.0, 90.0, 40.0, 40.0, 20.0, 5.0, 0.5]))


def _weight_min(draw):
    return draw(st.sampled_from([None, None, None, None, None, None, 0.0, 1e-3, 0.125, 0.25, 1.0,
                                 [0.5, 0.25], [0.0, 0.0], [0.25, 0.0], [0.0, 0.125], [1e-3, 1e-3]]))


@st.composite
def kernel_cases(draw, tracers=None, models=MODELS, gen_kinds=("list", "list", "cyl", "rect", "file"),
                 max_ant=4, writers=(None, None, "double", "double", "file"),
                 trig_forms=(None, "func", "dict", "dict"), pkinds=None, vkinds=None,
                 weight_min=None, offcone=None, max_events=3, prefer_multi=False, max_ref_cap=None):
    medium = draw(medium_specs(tracers) if tracers else medium_specs())
    if max_ref_cap is not None and medium["max_ref"] is not None:
        medium["max_ref"] = min(medium["max_ref"], max_ref_cap)
    n_ant = draw(st.integers(1, max_ant))
    akw = {} if pkinds is None else dict(pkinds=pkinds)
    ants = [draw(antenna_specs(medium, **akw)) for _ in range(n_ant)]
    container = draw(st.sampled_from(["list", "list", "tuple", "detector"]))
    gkw = {} if vkinds is None else dict(vkinds=vkinds)
    if prefer_multi:
        gkw["prefer_multi"] = True
    gen = draw(generator_specs(medium, n_ant, kinds=gen_kinds, **gkw))
    writer = draw(writer_specs(writers))
    plain = writer is not None and writer["kind"] == "file"
    trig = draw(trigger_specs(n_ant, plain=plain, forms=trig_forms))
    if plain and trig is None:
        writer["require_trigger"] = False
    n_events = draw(st.integers(1, max_events))
    if gen["kind"] == "file":
        n_events = min(n_events, len(gen["events"]))
    ops = [dict(clear=draw(st.booleans()), extra_throws=draw(st.sampled_from([0, 0, 0, 1, 2])))
           for _ in range(n_events)]
    if gen["kind"] == "file":
        budget = len(gen["events"]) - n_events
        for op in ops:
            op["extra_throws"] = min(op["extra_throws"], budget)
            budget -= op["extra_throws"]
    # keep the signals accumulated on one antenna below SIGNAL_CAP (see there)
    per_event = max_solutions(medium) * (max(len(e["particles"]) for e in gen["events"])
                                         if gen["kind"] in ("list", "file") else 1)
    held = 0
    for op in ops:
        if held + per_event > SIGNAL_CAP:
            op["clear"] = True
        held = per_event if op["clear"] else held + per_event
    return dict(medium=medium, model=draw(st.sampled_from(list(models))), times=draw(time_specs()),
                antennas=ants, container=container, gen=gen,
                offcone_max=offcone(draw) if offcone else _offcone(draw),
                weight_min=weight_min(draw) if weight_min else _weight_min(draw),
                ai=draw(st.sampled_from([None, 0.1, 0.1, 1, 0.37])),
                triggers=trig, writer=writer, ops=ops, seed=draw(gens.seeds32))


# ---------------------------------------------------------------------------
# building pyrex objects from a case

_TRACER_CACHE = {}


def tracer_class(medium):
    from pyrex.ray_tracing import SpecializedRayTracer, BasicRayTracer, UniformRayTracer
    kind = medium["tracer"]
    if kind == "specialized":
        return SpecializedRayTracer
    if kind == "basic":
        return BasicRayTracer
    key = (kind, medium["max_ref"])
    if key not in _TRACER_CACHE:
        if kind == "uniform":
            base = UniformRayTracer
        else:
            from pyrex.custom.layered_ice import LayeredRayTracer
            base = LayeredRayTracer
        # the kernel instantiates the class itself, so the number of reflections (a documented
        # class-level parameter) is configured the only way a user can: on a subclass
        _TRACER_CACHE[key] = type("%s_maxref%d" % (base.__name__, medium["max_ref"]), (base,),
                                  {"max_reflections": medium["max_ref"]})
    return _TRACER_CACHE[key]


def model_class(name):
    import pyrex.askaryan as ask
    return {"ARZ": ask.ARZAskaryanSignal, "AVZ": ask.AVZAskaryanSignal,
            "ZHS": ask.ZHSAskaryanSignal, "ARVZ": ask.ARVZAskaryanSignal}[name]


def _spy_classes():
    """Antenna classes that log what `receive` is handed (the kernel's documented interface to
    an antenna is `position` + `receive(signal, direction=, polarization=)`)."""
    from pyrex.antenna import Antenna, DipoleAntenna
    from pyrex.detector import AntennaSystem, Detector

    class SpyMixin:
        def receive(self, signal, direction=None, polarization=None, force_real=False):
            # the log is kept OUTSIDE the antenna: pyrex deep-copies an antenna (with everything
            # reachable from it) whenever a signal filtered by its bound frequency_response is copied
            SPYLOG.setdefault(id(self), []).append(
                dict(signal=signal, direction=direction, polarization=polarization, force_real=force_real))
            return super().receive(signal, direction=direction, polarization=polarization,
                                   force_real=force_real)

    class SpyAntenna(SpyMixin, Antenna):
        pass

    class SpyDipole(SpyMixin, DipoleAntenna):
        pass

    class SpySystem(SpyMixin, AntennaSystem):
        """Front end with a flat gain; exposes `position` like every shipped AntennaSystem."""
        def __init__(self, position, gain, **kw):
            super().__init__(SpyAntenna(position=position, **kw))
            self.position = position
            self.gain = gain

        def front_end(self, signal):
            return signal * self.gain

    class PlainDetector(Detector):
        test_antenna_positions = False

        def set_positions(self, positions):
            self.antenna_positions = [tuple(p) for p in positions]

    return SpyAntenna, SpyDipole, SpySystem, PlainDetector


_SPY = {}
SPYLOG = {}


def spy_of(ant):
    return SPYLOG.get(id(ant), [])


def spy_classes():
    if "c" not in _SPY:
        _SPY["c"] = _spy_classes()
    return _SPY["c"]


def build_antenna(spec, noise=None):
    SpyAntenna, SpyDipole, SpySystem, _ = spy_classes()
    pos = _v(spec["pos"])
    if spec["kind"] == "dipole":
        a = SpyDipole("dip", position=pos, center_frequency=spec["fc"], bandwidth=spec["bw"],
                      temperature=300.0, resistance=50.0, orientation=_v(spec["orientation"]),
                      trigger_threshold=spec["thr"], noisy=bool(noise))
        return a
    kw = dict(antenna_factor=spec["af"], efficiency=spec["eff"], noisy=bool(noise))
    if noise:
        kw.update(freq_range=(100e6, 400e6), noise_rms=1e-6)
    if spec["kind"] == "system":
        return SpySystem(pos, spec["gain"], **kw)
    return SpyAntenna(position=pos, **kw)


def build_antennas(case, noise=None):
    specs = case["antennas"]
    *_, PlainDetector = spy_classes()
    SpyAntenna = spy_classes()[0]
    if case["container"] == "detector":
        # a Detector builds one antenna class for all positions: base antennas, first spec's gains
        det = PlainDetector([s["pos"] for s in specs])
        kw = dict(antenna_factor=specs[0].get("af", 1.0), efficiency=specs[0].get("eff", 1.0),
                  noisy=bool(noise))
        if noise:
            kw.update(freq_range=(100e6, 400e6), noise_rms=1e-6)
        det.build_antennas(SpyAntenna, **kw)
        return det, list(det)
    ants = [build_antenna(s, noise) for s in specs]
    return (tuple(ants) if case["container"] == "tuple" else ants), list(ants)


def effective_antenna_specs(case):
    if case["container"] != "detector":
        return case["antennas"]
    s0 = case["antennas"][0]
    return [dict(kind="antenna", pos=s["pos"], pkind=s["pkind"], af=s0.get("af", 1.0),
                 eff=s0.get("eff", 1.0)) for s in case["antennas"]]


def build_particle(ps, direction):
    from pyrex.particle import Particle
    p = Particle(particle_id=ps["id"], vertex=_v(ps["vertex"]), direction=direction,
                 energy=ps["energy"], weight=ps["fw"])
    p.interaction.em_frac = ps["em"]
    p.interaction.had_frac = ps["had"]
    p.survival_weight = ps["sw"]
    p.interaction_weight = ps["iw"]
    return p


def build_event(es, directions):
    from pyrex.particle import Event
    ps = [build_particle(p, d) for p, d in zip(es["particles"], directions)]
    if es["tree"] and len(ps) > 1:
        ev = Event(ps[0])
        ev.add_children(ps[0], ps[1:2])
        if len(ps) > 2:
            ev.add_children(ps[1], ps[2:])
        return ev
    return Event(ps)


class Solver:
    """Fresh tracer per (vertex, antenna position) pair on the harness's own ice object."""

    def __init__(self, medium):
        self.medium = medium
        self.ice = gens.build_ice(medium["ice"])
        self.cls = tracer_class(medium)
        self.cache = {}

    def solutions(self, vertex, pos):
        key = (tuple(float(x) for x in vertex), tuple(float(x) for x in pos))
        if key not in self.cache:
            rt = self.cls(np.array(key[0]), np.array(key[1]), ice_model=self.ice)
            self.cache[key] = list(rt.solutions) if rt.exists else []
        return self.cache[key]

    def index(self, z):
        spec = self.medium["ice"]
        if spec["cls"] == "LayeredIce":
            return float(self.ice.index(z))
        return gens.ref_index(spec, z)


ARZ_BUDGET = 3e5    # samples of ARZ's internally oversampled trace per pulse
C_LIGHT = 299792458.0


def arz_min_offsets(case, ps, n, theta_c):
    """Smallest |psi - theta_c| (rad; below, above the cone) that keeps the ARZ model affordable.

    ARZ divides dt until dz <= shower length / 100, i.e. by 100 dt c / (L |1 - n cos(psi)|) with
    L = 0.01 * 36.08 * log2(E / 0.0786) / 0.92 m (documented shower-maximum depth): the cost
    diverges at the cone, except exactly on it (|psi - theta_c| < ~5e-7 rad uses a closed form).
    Same domain restriction as C07."""
    if case["model"] not in ("ARZ", "ARVZ"):
        return 0.0, 0.0
    lengths = [abs(0.01 * 36.08 * math.log2(e / 0.0786) / 0.92)
               for e in (ps["energy"] * ps["em"], ps["energy"] * ps["had"]) if e > 0]
    if not lengths or min(lengths) <= 0:
        return 0.0, 0.0
    g = 100.0 * case["times"]["dt"] * C_LIGHT * (case["times"]["n"] + 1) / (min(lengths) * ARZ_BUDGET)
    above = math.acos(max(-1.0, (1 - g) / n)) - theta_c
    below = theta_c - math.acos((1 + g) / n) if (1 + g) / n <= 1 else None
    return below, above


def _arz_unsafe(d, ps, solver, ant_specs, case):
    """True when some ray of this particle is viewed close to (but not on) the cone, where the
    ARZ model's cost explodes (see arz_min_offsets)."""
    if case["model"] not in ("ARZ", "ARVZ"):
        return False
    n = solver.index(ps["vertex"][2])
    if not n >= 1:
        return False
    theta_c = math.acos(1.0 / n)
    below, above = arz_min_offsets(case, ps, n, theta_c)
    for ant in ant_specs:
        for path in solver.solutions(ps["vertex"], ant["pos"]):
            delta = viewing_angle(d, path.emitted_direction) - theta_c
            if abs(delta) <= 1e-7:       # on the cone: closed form (oncone_range is 4.5e-7 rad)
                continue
            lim = above if delta > 0 else below
            if lim is None or abs(delta) < lim:
                return True
    return False


def resolve_direction(ps, solver, ant_specs, case):
    """Direction of a listed particle; 'cone'/'along' are relative to a harness-traced ray."""
    d, mode = _resolve_direction(ps, solver, ant_specs, case, 0.0)
    k = 0
    while _arz_unsafe(d, ps, solver, ant_specs, case) and k < 8:
        # push the view of the targeted ray further off the cone / tilt a free direction
        k += 1
        d, mode = _resolve_direction(ps, solver, ant_specs, case, 0.004 * 2 ** k)
    return d, mode


def _resolve_direction(ps, solver, ant_specs, case, push):
    offcone_max = case["offcone_max"]
    d = ps["dir"]

    def free():
        v = _unit(d["v"])
        if push:
            u, w = _perp_basis(v)
            v = _unit(v + push * u)
        return v, "vec"
    if d["mode"] == "vec" or not ant_specs:
        return free()
    ant = ant_specs[d["ant"] % len(ant_specs)]
    sols = solver.solutions(ps["vertex"], ant["pos"])
    if not sols:
        return free()
    e = np.asarray(sols[d["sol"] % len(sols)].emitted_direction, dtype=float)
    if not np.all(np.isfinite(e)) or abs(np.linalg.norm(e) - 1) > 1e-6:
        return free()
    if d["mode"] == "along":
        if push:
            return free()
        return d["sign"] * e, "along"
    n = solver.index(ps["vertex"][2])
    theta_c = math.acos(1.0 / n) if n >= 1 else 0.0
    off = math.radians(d["off_deg"])
    if d.get("edge") is not None and offcone_max is not None and offcone_max < 120.0:
        off = math.radians(offcone_max) * (1.0 + d["edge"]) * (1.0 if d["off_deg"] >= 0 else -1.0)
    if off != 0 or push:
        below, above = arz_min_offsets(case, ps, n, theta_c)
        if off == 0:
            off = 1e-12
        if off < 0 and below is None:
            off = -off
        lim = above if off > 0 else below
        if abs(off) < lim + push:
            off = math.copysign(1.01 * lim + 1e-9 + push, off)
    psi = min(max(theta_c + off, 0.0), math.pi)
    u, w = _perp_basis(e)
    v = math.cos(psi) * e + math.sin(psi) * (math.cos(d["az"]) * u + math.sin(d["az"]) * w)
    return _unit(v), "cone"


def build_generator(case, solver, tmpdir, twin=False):
    """-> (generator, list of per-event direction lists or None)."""
    import pyrex.generation as g
    gs = case["gen"]
    if gs["kind"] in ("cyl", "rect"):
        if gs["energy"] == "spectrum":
            energy = lambda: 10 ** np.random.uniform(6, 11)  # noqa: E731
        else:
            energy = gs["energy"]
        kw = dict(energy=energy, shadow=gs["shadow"], flavor_ratio=tuple(gs["flavor"]), source=gs["source"])
        if gs["kind"] == "cyl":
            return g.CylindricalGenerator(gs["dr"], gs["dz"], **kw), None
        return g.RectangularGenerator(gs["dx"], gs["dy"], gs["dz"], **kw), None
    aspecs = effective_antenna_specs(case)
    dirs = [[resolve_direction(p, solver, aspecs, case)[0] for p in es["particles"]]
            for es in gs["events"]]
    if gs["kind"] == "list":
        events = [build_event(es, ds) for es, ds in zip(gs["events"], dirs)]
        if gs.get("as_particles"):
            events = [ev.roots[0] for ev in events]
        return g.ListGenerator(events), dirs
    path = os.path.join(tmpdir, "events.h5")
    if not twin:
        from pyrex.io import File
        with File(path, "w", write_particles=True, write_triggers=False, write_antenna_triggers=False,
                  write_rays=False, write_noise=False, write_waveforms=False,
                  require_trigger=False) as f:
            for es, ds, n in zip(gs["events"], dirs, gs["thrown"]):
                f.add(build_event(es, ds), events_thrown=n)
    return g.FileGenerator(path), dirs


class Token:
    """A trigger result that is not a bool (identity can be followed through the kernel)."""

    def __init__(self, value):
        self.value = bool(value)

    def __bool__(self):
        return self.value

    def __repr__(self):
        return "Token(%r)" % self.value


def eval_trigger(spec, antennas):
    kind = spec["kind"]
    if kind == "const":
        return bool(spec["value"])
    counts = [len(a.signals) for a in antennas]
    if kind == "count_ge":
        return sum(counts) >= spec["k"]
    if kind == "parity":
        return sum(counts) % 2 == 1
    if kind == "ant_has":
        return counts[spec["i"] % len(counts)] > 0
    return bool(any(a.is_hit for a in antennas))


class TriggerFn:
    def __init__(self, key, spec, log):
        self.key, self.spec, self.log = key, spec, log

    def __call__(self, antennas):
        counts = [len(a.signals) for a in antennas]
        val = eval_trigger(self.spec, antennas)
        if self.spec["ret"] == "obj":
            val = Token(val)
        self.log.append(dict(key=self.key, arg=antennas, counts=counts, ret=val))
        return val


def build_triggers(spec, log):
    if spec is None:
        return None
    if spec["form"] == "func":
        return TriggerFn(None, spec["fn"], log)
    return {k: TriggerFn(k, s, log) for k, s in spec["keys"]}


class RecordingWriter:
    """Stand-in for pyrex.File with exactly the members the kernel documents/uses."""

    def __init__(self, is_open, has_detector, antennas_flat):
        self.is_open = is_open
        self.has_detector = has_detector
        self.calls = []
        self.adds = []
        self._flat = antennas_flat

    def open(self):
        self.calls.append(("open",))
        self.is_open = True

    def set_detector(self, detector):
        self.calls.append(("set_detector", detector))
        self.has_detector = True

    def create_analysis_metadataset(self, name, *a, **k):
        self.calls.append(("create_meta", name))

    def add_analysis_metadata(self, name, metadata, index=None):
        self.calls.append(("add_meta", name, dict(metadata)))

    def add(self, event=None, triggered=None, ray_paths=None, polarizations=None, events_thrown=1):
        if not self.is_open:
            raise IOError("File is not open")
        self.adds.append(dict(event=event, triggered=triggered, ray_paths=ray_paths,
                              polarizations=polarizations, events_thrown=events_thrown,
                              n_paths=None if ray_paths is None else [len(x) for x in ray_paths],
                              n_pols=None if polarizations is None else [len(x) for x in polarizations],
                              counts=[len(a.signals) for a in self._flat]))


# ---------------------------------------------------------------------------
# the reference


def passes_weight_cut(sw, iw, fw, weight_min):
    """Documented cut: total weight below a float, or survival / interaction weight below the
    matching tuple element, skips the particle; a weight equal to the minimum is kept."""
    if weight_min is None:
        return True
    if isinstance(weight_min, (list, tuple)):
        if sw is not None and sw < weight_min[0]:
            return False
        if iw is not None and iw < weight_min[1]:
            return False
        return True
    if fw is not None:
        total = fw
    else:
        total = 1
        if sw is not None:
            total = total * sw
        if iw is not None:
            total = total * iw
    return not (total < weight_min)


def call_propagate(path, signal, polarization, ai):
    """path.propagate with the keyword when the path class declares it (so that the reference
    exists on both sides of finding F8; the kernel itself must always be able to pass it)."""
    params = inspect.signature(path.propagate).parameters
    if "attenuation_interpolation" in params or any(p.kind == p.VAR_KEYWORD for p in params.values()):
        return path.propagate(signal=signal, polarization=polarization, attenuation_interpolation=ai)
    return path.propagate(signal=signal, polarization=polarization)


class Entry:
    __slots__ = ("ip", "isol", "path", "tof", "psi", "theta_c", "cut", "particle", "pol")


def reference_entries(case, solver, particles, flat_specs):
    """Per antenna: the ordered list of expected signals for one event."""
    wm = case["weight_min"]
    off = case["offcone_max"]
    off_rad = math.pi if off is None else math.radians(off)
    out = [[] for _ in flat_specs]
    passing = []
    for ip, p in enumerate(particles):
        ok = passes_weight_cut(p.survival_weight, p.interaction_weight, p._forced_weight, wm)
        passing.append(ok)
        if not ok:
            continue
        vtx = np.asarray(p.vertex, dtype=float)
        for ia, aspec in enumerate(flat_specs):
            sols = solver.solutions(vtx, aspec["pos"])
            if not sols:
                continue
            n = solver.index(float(vtx[2]))
            theta_c = math.acos(1.0 / n)
            for isol, path in enumerate(sols):
                en = Entry()
                en.ip, en.isol, en.path, en.particle = ip, isol, path, p
                en.tof = path.tof
                e = np.asarray(path.emitted_direction, dtype=float)
                en.psi = viewing_angle(p.direction, e)
                en.theta_c = theta_c
                en.pol = vertex_polarization(p.direction, e)
                margin = abs(en.psi - theta_c) - off_rad
                # None = within rounding of the cut: either outcome is accepted
                en.cut = None if abs(margin) < 1e-9 else bool(margin > 0)
                if float(np.linalg.norm(vtx - np.asarray(aspec["pos"], dtype=float))) < 1e-6 or \
                        not math.isfinite(en.psi):
                    # vertex on top of the antenna (generated: 2e-313 m apart): the ray has no
                    # direction, so there is no viewing angle to cut on
                    en.cut = None
                out[ia].append(en)
    return out, passing


def reference_signal(case, solver, en, ant_twin, times):
    """receive(propagate(model(...))) on harness-side objects -> Signal, or 'empty'."""
    from pyrex.signals import EmptySignal, Signal
    model = model_class(case["model"])
    try:
        pulse = model(times=np.array(times), particle=en.particle, viewing_angle=en.psi,
                      viewing_distance=en.path.path_length, ice_model=solver.ice)
    except ValueError:
        # documented: an Askaryan model refusing its arguments yields an empty signal
        ant_twin.receive(EmptySignal(np.array(times) + en.tof, value_type=Signal.Type.field))
        return ant_twin.signals[-1]
    sigs, pols = call_propagate(en.path, pulse, en.pol, case["ai"])
    ant_twin.receive(sigs, direction=en.path.received_direction, polarization=pols)
    return ant_twin.signals[-1]


def _pulse_floor(case, solver, en, times):
    """Rounding floor of a received signal: 1e-11 x the peak of the emitted pulse (V/m -> V with
    effective heights of the order of a metre).  An antenna whose polarization / directional
    gain cancels the pulse exactly (orthogonal geometry) delivers rounding residue of that size,
    ~20 orders below the pulse, about which relative agreement says nothing."""
    try:
        pulse = model_class(case["model"])(times=np.array(times), particle=en.particle,
                                           viewing_angle=en.psi, viewing_distance=en.path.path_length,
                                           ice_model=solver.ice)
        v = np.asarray(pulse.values, dtype=float)
        peak = float(np.max(np.abs(v))) if v.size and np.all(np.isfinite(v)) else 0.0
    except Exception:
        return 0.0
    return 1e-11 * peak


def _particle_facts(p):
    return (p.id, [float(x) for x in p.vertex], [float(x) for x in p.direction], float(p.energy),
            None if p.survival_weight is None else float(p.survival_weight),
            None if p.interaction_weight is None else float(p.interaction_weight),
            float(p.interaction.em_frac), float(p.interaction.had_frac), p.interaction.kind)


# ---------------------------------------------------------------------------
# one case


def run_case(case, rec, checks):
    tmpdir = None
    if case["gen"]["kind"] == "file" or (case["writer"] or {}).get("kind") == "file":
        tmpdir = tempfile.mkdtemp(prefix="C10-")
    opened = []
    SPYLOG.clear()
    try:
        _run_case(case, rec, checks, tmpdir, opened)
    finally:
        for f in opened:
            try:
                f.close()
            except Exception:
                pass
        SPYLOG.clear()
        if tmpdir is not None:
            shutil.rmtree(tmpdir, ignore_errors=True)


def _run_case(case, rec, checks, tmpdir, opened):
    from pyrex.kernel import EventKernel
    from pyrex.signals import EmptySignal

    seed = case["seed"]
    np.random.seed(seed)
    solver = Solver(case["medium"])
    times = gens.build_times(case["times"])
    flat_specs = effective_antenna_specs(case)
    wspec = case["writer"]
    noise = wspec is not None and wspec["kind"] == "file" and wspec.get("noise")

    # --- kernel side objects ------------------------------------------------
    np.random.seed(seed)
    antennas, flat = build_antennas(case, noise)
    np.random.seed(seed)
    twins = build_antennas(dict(case, container="list"), noise)[1] if case["container"] != "detector" \
        else build_antennas(case, noise)[1]
    np.random.seed(seed)
    gen, _ = build_generator(case, solver, tmpdir)
    np.random.seed(seed)
    gen_twin, _ = build_generator(case, solver, tmpdir, twin=True)
    for g_ in (gen, gen_twin):
        if hasattr(g_, "_file"):
            opened.append(g_._file)
    ice_k = gens.build_ice(case["medium"]["ice"])
    trig_log = []
    triggers = build_triggers(case["triggers"], trig_log)
    writer = None
    file_path = None
    if wspec is not None:
        if wspec["kind"] == "double":
            writer = RecordingWriter(wspec["open"], wspec["has_detector"], flat)
        else:
            from pyrex.io import File
            file_path = os.path.join(tmpdir, "out.h5")
            # (a File that records triggers needs trigger information: without kernel triggers
            #  the documented way is write_triggers=False, require_trigger=False)
            writer = File(file_path, "w", write_waveforms=wspec["waveforms"], write_noise=bool(noise),
                          write_triggers=case["triggers"] is not None,
                          require_trigger=wspec["require_trigger"] and case["triggers"] is not None)
            opened.append(writer)
            if wspec["pre_open"]:
                writer.open()

    count0 = gen.count
    kernel = EventKernel(gen, antennas, ice_model=ice_k, ray_tracer=tracer_class(case["medium"]),
                         signal_model=model_class(case["model"]), signal_times=times,
                         event_writer=writer, triggers=triggers, offcone_max=case["offcone_max"],
                         weight_min=(tuple(case["weight_min"]) if isinstance(case["weight_min"], list)
                                     else case["weight_min"]),
                         attenuation_interpolation=case["ai"])
    if wspec is not None and wspec["kind"] == "double" and "writer" in checks:
        require(writer.is_open, "kernel left a closed writer closed")
        require(writer.has_detector, "kernel did not hand its antennas to a writer without detector")
        sd = [c for c in writer.calls if c[0] == "set_detector"]
        require(len(sd) == (0 if wspec["has_detector"] else 1) and all(c[1] is antennas for c in sd),
                "set_detector calls %r for has_detector=%r", len(sd), wspec["has_detector"])
        require(len([c for c in writer.calls if c[0] == "open"]) == (0 if wspec["open"] else 1),
                "writer.open() calls for an %s writer", "open" if wspec["open"] else "unopened")

    classes = set([case["medium"]["tracer"], "model=" + case["model"], "gen=" + case["gen"]["kind"],
                   "writer=" + (wspec["kind"] if wspec else "none"),
                   "trig=" + (case["triggers"]["form"] if case["triggers"] else "none"),
                   "container=" + case["container"]])
    total_signals = 0
    last_count = count0
    thrown_expected_base = gen_twin.count
    n_done = 0

    for iev, op in enumerate(case["ops"]):
        if op["clear"]:
            for a in flat:
                a.clear()
                del SPYLOG.setdefault(id(a), [])[:]
            for a in twins:
                a.clear()
        # user throws events away between kernel events: they count as thrown
        for k in range(op["extra_throws"]):
            np.random.seed(_seed(seed, 1000 * (iev + 1) + k))
            gen.create_event()
            np.random.seed(_seed(seed, 1000 * (iev + 1) + k))
            gen_twin.create_event()
        # --- reference for this event (twin generator under the same seed) -------
        np.random.seed(_seed(seed, iev + 1))
        ev_ref = gen_twin.create_event()
        parts_ref = list(ev_ref)
        entries, passing = reference_entries(case, solver, parts_ref, flat_specs)
        before = [len(a.signals) for a in flat]
        if max(b_ + len(e_) for b_, e_ in zip(before, entries)) > SIGNAL_CAP + 3:
            # cannot happen with the shipped strategies; hand-written replays are refused rather
            # than left running for hours (see SIGNAL_CAP)
            # (rare: a vertex with more ray solutions than the strategy's estimate)
            rec.case(case, nontrivial=False, classes=["over_signal_cap"])
            return
        spy_before = [len(spy_of(a)) for a in flat]
        n_adds = len(writer.adds) if isinstance(writer, RecordingWriter) else 0
        n_trig = len(trig_log)

        # --- the call under test ---------------------------------------------------
        created = []
        orig_create = gen.create_event

        def recording_create(orig=orig_create, created=created):
            ev = orig()
            created.append(ev)
            return ev
        gen.create_event = recording_create
        np.random.seed(_seed(seed, iev + 1))
        try:
            result = kernel.event()
        finally:
            del gen.create_event
        n_done += 1

        # --- returned event ---------------------------------------------------------
        if case["triggers"] is None:
            event, trig_ret, has_trig = result, None, False
        else:
            require(isinstance(result, tuple) and len(result) == 2,
                    "with triggers the kernel must return (event, triggered), got %r", type(result))
            event, trig_ret = result
            has_trig = True
        if "align" in checks or "writer" in checks:
            require(len(created) >= 1 and event is created[-1],
                    "returned event is not the object the generator created")
            got = [_particle_facts(p) for p in event]
            want = [_particle_facts(p) for p in parts_ref]
            require(got == want, "returned event %r differs from the generator's event %r", got, want)
        parts = list(event)

        # --- signals per antenna ---------------------------------------------------
        any_cut = any_oncone = any_shadow_then_visible = False
        for ia, (ant, ens) in enumerate(zip(flat, entries)):
            new = ant.signals[before[ia]:]
            spy = spy_of(ant)[spy_before[ia]:]
            total_signals += len(new)
            if checks & {"align", "values", "weights"}:
                require(len(new) == len(ens),
                        "event %d antenna %d at %r: %d new signals, but the particles passing the cut "
                        "(%r) have %d ray solutions to it (per particle: %r)", iev, ia,
                        flat_specs[ia]["pos"], len(new), passing, len(ens),
                        [sum(1 for e in ens if e.ip == k) for k in range(len(parts_ref))])
                require(len(spy) == len(ens), "antenna %d: receive called %d times for %d solutions",
                        ia, len(spy), len(ens))
            for j, (sig, en) in enumerate(zip(new, ens)):
                what = "event %d antenna %d signal %d (particle %d, solution %d)" % (iev, ia, j, en.ip, en.isol)
                tof_ok = np.ndim(en.tof) == 0 and math.isfinite(float(en.tof))
                if not tof_ok:
                    classes.add("tracer_nonfinite")
                    continue
                grid = times + en.tof
                if checks & {"align", "weights", "values"}:
                    # exact: both the empty and the propagated branch add the same float to the
                    # same array (np.ndarray + float64), so no rounding freedom exists
                    require(np.shape(sig.times) == grid.shape and np.array_equal(sig.times, grid),
                            "%s: times are not signal_times + tof (tof=%r): first sample %r, expected %r, "
                            "max deviation %r", what, float(en.tof), float(np.ravel(sig.times)[0]),
                            float(grid[0]),
                            float(np.max(np.abs(np.asarray(sig.times, dtype=float) - grid)))
                            if np.shape(sig.times) == grid.shape else None)
                    require(sig.value_type == sig.Type.voltage, "%s: value_type %r", what, sig.value_type)
                if en.cut:
                    any_cut = True
                elif en.cut is False:
                    any_oncone = True
                if ("align" in checks or "values" in checks) and en.cut:
                    # (values of kept signals are only evaluated by `values`: evaluation runs the
                    #  Askaryan model, whose own failures are C07's subject)
                    vals = np.asarray(sig.values)
                    require(vals.shape == grid.shape, "%s: %d values on %d times", what, len(vals), len(grid))
                    require(not np.any(vals != 0),
                            "%s: viewing angle %.6f deg is %.6f deg off the Cherenkov angle, beyond "
                            "offcone_max=%r, but the signal is not empty (max |v| = %r)", what,
                            math.degrees(en.psi), math.degrees(abs(en.psi - en.theta_c)),
                            case["offcone_max"], float(np.max(np.abs(vals))))
                    handed = spy[j]["signal"] if j < len(spy) else None
                    require(isinstance(handed, EmptySignal) or (
                        not hasattr(handed, "__len__") and not np.any(np.asarray(handed.values) != 0)),
                        "%s: off-cone, but the antenna was not handed an empty signal", what)
                if "align" in checks and en.cut is False and j < len(spy):
                    # the cut is the ONLY reason for an empty pulse (besides a model that refuses
                    # its arguments with ValueError): a kept view is handed the propagated pair
                    handed = spy[j]["signal"]
                    if isinstance(handed, EmptySignal) or not hasattr(handed, "__len__"):
                        try:
                            model_class(case["model"])(times=np.array(times), particle=en.particle,
                                                       viewing_angle=en.psi,
                                                       viewing_distance=en.path.path_length,
                                                       ice_model=solver.ice)
                        except ValueError:
                            classes.add("model_refuses")
                        else:
                            raise Violation("%s: viewing angle %.6f deg is %.6f deg off the Cherenkov angle, "
                                            "within offcone_max=%r, but the antenna was handed %s instead of "
                                            "the propagated pulse" % (what, math.degrees(en.psi),
                                                                      math.degrees(abs(en.psi - en.theta_c)),
                                                                      case["offcone_max"], type(handed).__name__))
                    else:
                        require(len(handed) == 2, "%s: receive got %d signal components", what, len(handed))
                if "values" in checks and en.cut is not None:
                    ref = reference_signal(case, solver, en, twins[ia], times)
                    try:
                        want = np.asarray(ref.values, dtype=float)
                    except Exception as exc:   # the components themselves fail on this input
                        classes.add("component_error")
                        try:
                            sig.values
                        except Exception as exc2:
                            require(type(exc2) is type(exc), "%s: evaluating the kernel's signal raised %r, "
                                    "evaluating the recomputed one %r", what, exc2, exc)
                        else:
                            raise Violation("%s: the recomputed signal cannot be evaluated (%r) but the "
                                            "kernel's can" % (what, exc))
                        continue
                    got_v = np.asarray(sig.values, dtype=float)
                    require(got_v.shape == grid.shape, "%s: %d values on %d times", what, len(got_v), len(grid))
                    # (the kernel takes psi = arccos(d . e), whose rounding error is eps / sin(psi): below
                    # sin(psi) = 3e-4 that is a relative error of psi above 2e-9, which the models'
                    # dependence on psi turns into more than the 1e-7 compared here - seen: 1.6e-7 at
                    # psi = 1.6e-5)
                    if math.sin(en.psi) < 3e-4 and not en.cut:
                        # particle moving along the ray: the polarization (rejection of d from e)
                        # is pure rounding noise in any formula; the pulse itself vanishes there
                        classes.add("aligned")
                        require(np.all(np.isfinite(got_v)) or not np.all(np.isfinite(want)),
                                "%s: non-finite signal for a particle moving along the ray (psi=%r)", what, en.psi)
                        continue
                    if en.cut:
                        require(not np.any(got_v != 0), "%s: off-cone signal not zero", what)
                    else:
                        scale = float(np.max(np.abs(want))) if want.size else 0.0
                        if not np.all(np.isfinite(want)):
                            classes.add("reference_nonfinite")
                            require(np.array_equal(np.isfinite(want), np.isfinite(got_v)),
                                    "%s: non-finite samples differ from the recomputed signal", what)
                        else:
                            # tolerance: both sides run the same deterministic component code on
                            # equal inputs; the only difference is the viewing angle / polarization
                            # formula (atan2 and triple product here, arccos and rejection in the
                            # kernel), i.e. a few ulp amplified by the cone width (<1e-9 relative)
                            err = float(np.max(np.abs(got_v - want))) if want.size else 0.0
                            floor = 1e-30
                            if err > 1e-7 * scale + floor:
                                floor += _pulse_floor(case, solver, en, times)
                                if err <= 1e-7 * scale + floor:
                                    classes.add("cancelled_to_rounding")
                            # (+1e-30 V: signals of ~1e-35 V are rounding noise of the models'
                            # far tails, relative agreement means nothing there)
                            require(err <= 1e-7 * scale + floor,
                                    "%s: signal differs from receive(propagate(model(psi=%.9f rad, "
                                    "distance=%r))) recomputed with fresh components: max |diff| = %r, "
                                    "max |expected| = %r, max |got| = %r (tracer %s, model %s, ai %r)",
                                    what, en.psi, float(en.path.path_length), err, scale,
                                    float(np.max(np.abs(got_v))) if got_v.size else 0.0,
                                    case["medium"]["tracer"], case["model"], case["ai"])
                            if scale > 0:
                                classes.add("oncone_nonzero")
                        # what the antenna was handed
                        if j < len(spy) and hasattr(spy[j]["signal"], "__len__"):
                            h = spy[j]
                            require(len(h["signal"]) == 2 and len(h["polarization"]) == 2,
                                    "%s: receive got %d signals / %d polarizations", what,
                                    len(h["signal"]), len(h["polarization"]))
                            rd = np.asarray(en.path.received_direction, dtype=float)
                            require(np.allclose(np.asarray(h["direction"], dtype=float), rd, rtol=0, atol=1e-12),
                                    "%s: receive direction %r is not the path's received_direction %r",
                                    what, h["direction"], rd)
                            for comp in h["signal"]:
                                require(np.array_equal(comp.times, grid), "%s: a polarization component "
                                        "handed to receive is not on signal_times + tof", what)
                            # the s/p directions are the path's own (propagate's second result)
                            want_pols = en.path.propagate(polarization=en.pol)
                            for pv, wv in zip(h["polarization"], want_pols):
                                require(np.allclose(np.asarray(pv, dtype=float), np.asarray(wv, dtype=float),
                                                    rtol=0, atol=1e-9),
                                        "%s: polarization direction %r handed to receive, the path's "
                                        "propagate() gives %r", what, pv, wv)
            if ia > 0 and len(ens) > 0 and any(len(e) == 0 for e in entries[:ia]):
                any_shadow_then_visible = True

        # --- triggers ---------------------------------------------------------------
        new_trig = trig_log[n_trig:]
        final_counts = [len(a.signals) for a in flat]
        if "triggers" in checks or "writer" in checks:
            if case["triggers"] is None:
                require(not new_trig, "trigger function called without triggers")
                expected_triggered = None
            elif case["triggers"]["form"] == "func":
                require(len(new_trig) == 1, "trigger function called %d times in one event", len(new_trig))
                expected_triggered = new_trig[0]["ret"]
                require(trig_ret is expected_triggered, "returned trigger %r is not the function's result %r",
                        trig_ret, expected_triggered)
            else:
                keys = [k for k, _ in case["triggers"]["keys"]]
                require(sorted(t["key"] for t in new_trig) == sorted(keys),
                        "trigger functions called for keys %r, dict has %r", [t["key"] for t in new_trig], keys)
                expected_triggered = {t["key"]: t["ret"] for t in new_trig}
                require(trig_ret is expected_triggered["global"],
                        "returned trigger %r is not the result of the 'global' function %r (all: %r)",
                        trig_ret, expected_triggered["global"], expected_triggered)
            for t in new_trig:
                require(t["arg"] is antennas, "trigger %r was evaluated on %r, not on the kernel's antennas",
                        t["key"], type(t["arg"]))
                require(t["counts"] == final_counts,
                        "trigger %r was evaluated when the antennas held %r signals; after the event "
                        "they hold %r", t["key"], t["counts"], final_counts)
            # same function on the same antennas again: same answer (nothing changed since)
            if case["triggers"] is not None:
                fns = ([(None, case["triggers"]["fn"])] if case["triggers"]["form"] == "func"
                       else case["triggers"]["keys"])
                for k, s in fns:
                    again = eval_trigger(s, antennas)
                    first = [t for t in new_trig if t["key"] == k][0]["ret"]
                    require(bool(first) == bool(again), "trigger %r gave %r inside the kernel but %r on the "
                            "antennas after the event", k, first, again)
        else:
            expected_triggered = None

        # --- writer -----------------------------------------------------------------
        thrown = gen.count - last_count
        thrown_ref = gen_twin.count - thrown_expected_base
        if "writer" in checks or "align" in checks:
            require(thrown == thrown_ref and thrown >= 1 + op["extra_throws"],
                    "generator count advanced by %r, its twin under the same seed by %r", thrown, thrown_ref)
        if isinstance(writer, RecordingWriter) and "writer" in checks:
            adds = writer.adds[n_adds:]
            require(len(adds) == 1, "writer.add called %d times for one event", len(adds))
            ad = adds[0]
            require(ad["event"] is event, "writer got a different event object")
            require(ad["events_thrown"] == thrown,
                    "writer got events_thrown=%r, the generator count advanced by %r since the previous "
                    "kernel event", ad["events_thrown"], thrown)
            require(ad["counts"] == final_counts, "writer.add ran before all signals were received")
            if case["triggers"] is None:
                require(ad["triggered"] is None, "writer got triggered=%r without triggers", ad["triggered"])
            elif case["triggers"]["form"] == "func":
                require(ad["triggered"] is expected_triggered, "writer got triggered=%r, function returned %r",
                        ad["triggered"], expected_triggered)
            else:
                require(isinstance(ad["triggered"], dict) and
                        sorted(ad["triggered"]) == sorted(expected_triggered) and
                        all(ad["triggered"][k] is v for k, v in expected_triggered.items()),
                        "writer got triggered=%r, the functions returned %r", ad["triggered"], expected_triggered)
            require(ad["ray_paths"] is not None and ad["polarizations"] is not None and
                    len(ad["ray_paths"]) == len(flat) and len(ad["polarizations"]) == len(flat),
                    "writer got %r ray-path lists and %r polarization lists for %d antennas",
                    None if ad["ray_paths"] is None else len(ad["ray_paths"]),
                    None if ad["polarizations"] is None else len(ad["polarizations"]), len(flat))
            for ia, ens in enumerate(entries):
                paths, pols = ad["ray_paths"][ia], ad["polarizations"][ia]
                n_new = final_counts[ia] - before[ia]
                require(len(paths) == len(pols) == n_new,
                        "antenna %d: writer got %d ray paths and %d polarizations for %d signals of this event",
                        ia, len(paths), len(pols), n_new)
                require(len(paths) == len(ens), "antenna %d: writer got %d ray paths, reference has %d",
                        ia, len(paths), len(ens))
                sigs = flat[ia].signals[before[ia]:]
                for j, (pth, pol, en, sig) in enumerate(zip(paths, pols, ens, sigs)):
                    what = "event %d antenna %d entry %d" % (iev, ia, j)
                    tof = pth.tof
                    if not (np.ndim(tof) == 0 and math.isfinite(float(tof))):
                        continue
                    # lines up with the j-th signal: same delay, same ray as the fresh solution
                    require(np.array_equal(sig.times, times + tof),
                            "%s: reported ray path (tof %r) does not belong to the signal at that index", what, tof)
                    require(float(tof) == float(en.tof) and
                            float(pth.path_length) == float(en.path.path_length) and
                            np.array_equal(np.asarray(pth.emitted_direction), np.asarray(en.path.emitted_direction)) and
                            np.array_equal(np.asarray(pth.received_direction), np.asarray(en.path.received_direction)),
                            "%s: reported ray path differs from solution %d of a fresh tracer "
                            "(tof %r vs %r)", what, en.isol, float(tof), float(en.tof))
                    pol = np.asarray(pol, dtype=float)
                    e = np.asarray(pth.emitted_direction, dtype=float)
                    require(pol.shape == (3,), "%s: polarization shape %r", what, pol.shape)
                    nrm = float(np.linalg.norm(pol))
                    aligned = float(np.linalg.norm(np.cross(parts[en.ip].direction, e))) < 1e-7
                    if not aligned:
                        # tolerances: unit to 4 ulp-ish, transverse to 1e-9/sin(psi) (the rejection
                        # loses digits like 1/sin(psi); psi > 1e-7 here)
                        require(abs(nrm - 1) < 1e-9, "%s: polarization %r is not a unit vector", what, pol)
                        require(abs(float(np.dot(pol, e))) < 1e-7,
                                "%s: polarization %r is not perpendicular to emitted_direction %r (dot %r)",
                                what, pol, e, float(np.dot(pol, e)))
                        require(float(np.linalg.norm(pol - en.pol)) < 1e-6 / max(math.sin(en.psi), 1e-7),
                                "%s: polarization %r, expected (d x e) x e normalised = %r", what, pol, en.pol)
                    else:
                        classes.add("aligned")
                        require(nrm < 1 + 1e-9, "%s: polarization %r longer than a unit vector", what, pol)
        last_count = gen.count
        thrown_expected_base = gen_twin.count
        if any_cut:
            classes.add("offcone_cut")
        if any_oncone:
            classes.add("oncone")
        if any_cut and any_oncone:
            classes.add("cut_and_kept")
        if any_shadow_then_visible:
            classes.add("shadowed_then_visible")
        if any(len(e) == 0 for e in entries):
            classes.add("no_solution_antenna")
        if not all(passing):
            classes.add("particle_cut")
        if not all(passing) and any(passing):
            classes.add("cut_and_pass")
        if len(parts_ref) > 1:
            classes.add("multi_particle")
        if thrown > 1 + op["extra_throws"]:
            classes.add("shadow_rethrow")
        if op["extra_throws"]:
            classes.add("extra_throws")
        if any(len(e) >= 2 and len(set(x.ip for x in e)) >= 2 for e in entries):
            classes.add("two_particles_one_antenna")
        if any(len(e) >= 3 for e in entries):
            classes.add("three_plus_signals")
        _boundary_classes(case, parts_ref, classes)

    if len(case["ops"]) > 1:
        classes.add("multi_event")
        if not all(op["clear"] for op in case["ops"][1:]):
            classes.add("accumulating")

    # --- real file: closes, and holds one entry per kernel event ------------------
    if file_path is not None:
        writer.close()
        if "writer" in checks:
            from pyrex.io import File
            with File(file_path, "r") as f:
                require(len(f) == n_done, "file holds %d events after %d kernel events", len(f), n_done)

    default = (case["medium"]["tracer"] == "specialized" and case["medium"]["ice"].get("default")
               and case["model"] == "ARZ" and case["gen"]["kind"] == "list" and case["writer"] is None
               and case["triggers"] is None and case["offcone_max"] == 40.0 and case["weight_min"] is None
               and case["ai"] == 0.1)
    rec.case(case, nontrivial=total_signals > 0 and not default, classes=sorted(classes))


def _boundary_classes(case, parts, classes):
    wm = case["weight_min"]
    if wm is None:
        return
    for p in parts:
        if isinstance(wm, list):
            if p.survival_weight == wm[0] or p.interaction_weight == wm[1]:
                classes.add("weight_equals_min")
        elif p.weight == wm:
            classes.add("weight_equals_min")


def make_check(*checks):
    cs = frozenset(checks)

    def check(case, rec):
        run_case(case, rec, cs)
    return check


# ---------------------------------------------------------------------------
# interface: every shipped tracer x model x interpolation x writer runs (F8 and its relatives)


@st.composite
def interface_cases(draw):
    tracer = draw(st.sampled_from(["specialized", "basic", "uniform", "layered"]))
    if tracer in ("specialized", "basic"):
        cls = draw(st.sampled_from(sorted(gens.SHIPPED_EXP)))
        ice = dict(gens.SHIPPED_EXP[cls])
        ice["range"] = list(ice["range"])
        ice.update(cls=cls, above=1.0, below=None, default=True)
        medium = dict(tracer=tracer, ice=ice, max_ref=None)
    elif tracer == "uniform":
        medium = dict(tracer=tracer, max_ref=draw(st.integers(0, 2)),
                      ice=dict(cls="UniformIce", n=draw(floats(1.3, 1.8)), range=[-2000.0, 0.0],
                               above=1.0, below=draw(st.sampled_from([None, 1.9]))))
    else:
        medium = draw(medium_specs(kinds=("layered",)))
    zv = -draw(floats(150.0, 500.0))
    za = -draw(floats(20.0, 140.0))
    if medium["tracer"] == "layered":
        d1 = -medium["ice"]["layers"][0]["range"][0]
        d2 = -medium["ice"]["layers"][1]["range"][0]
        za = -d1 * draw(floats(0.2, 0.8))
        zv = -(d1 + (d2 - d1) * draw(floats(0.1, 0.6)))
    rho = draw(floats(20.0, 250.0))
    ph = draw(floats(0.0, 2 * math.pi))
    ant = dict(kind="antenna", pos=[rho * math.cos(ph), rho * math.sin(ph), za], pkind="in", af=1.0, eff=1.0)
    # on the Cherenkov cone of the first ray for 'on', far off it for 'off'
    view = draw(st.sampled_from(["on", "on", "on", "off"]))
    part = dict(id="electron_neutrino", vertex=[0.0, 0.0, zv], vkind="in",
                dir=dict(mode="cone", ant=0, sol=0, v=[0.0, 0.0, 1.0], az=draw(floats(0.0, 6.28)),
                         off_deg=draw(floats(-1.5, 1.5)) if view == "on" else 70.0, edge=None),
                energy=draw(log_floats(1e7, 1e10)), em=1.0, had=draw(st.sampled_from([0.0, 0.5])),
                sw=None, iw=None, fw=None)
    writer = draw(st.sampled_from([None, dict(kind="double", open=True, has_detector=False),
                                   dict(kind="file", waveforms=False, noise=False, require_trigger=False,
                                        pre_open=True)]))
    return dict(medium=medium, model=draw(st.sampled_from(MODELS)),
                times=dict(n=draw(st.sampled_from([64, 97, 128])), dt=0.5e-9, t0=-10e-9),
                antennas=[ant], container="list",
                gen=dict(kind="list", events=[dict(particles=[part], tree=False)], as_particles=False),
                offcone_max=draw(st.sampled_from([None, 40.0])), weight_min=None,
                ai=draw(st.sampled_from([None, 0.1, 1])), triggers=None, writer=writer,
                ops=[dict(clear=False, extra_throws=0)], seed=draw(gens.seeds32), view=view)


def check_interface(case, rec):
    """The kernel must run for every shipped combination and deliver the visible pulse."""
    got = {}

    class Rec:
        def case(self, c, nontrivial, classes=()):
            got["nontrivial"] = nontrivial
            got["classes"] = list(classes)
    run_case(case, Rec(), frozenset(["align", "values", "writer"]))
    cl = got["classes"] + ["view=" + case["view"], "ai=%r" % case["ai"]]
    if case["view"] == "on" and "oncone" not in got["classes"]:
        # the tracer found no ray in this geometry (its own subject): nothing to deliver
        cl = [c for c in cl if not c.startswith("view=")] + ["no_ray"]
    rec.case(case, nontrivial=bool(got["nontrivial"]), classes=cl)


# ---------------------------------------------------------------------------
# classification of failures into known findings


def _case_vertices(case):
    gs = case["gen"]
    if gs["kind"] in ("list", "file"):
        return [p["vertex"] for es in gs["events"] for p in es["particles"]]
    out = []
    try:
        solver = Solver(case["medium"])
        gen, _ = build_generator(case, solver, None, twin=True)
        for iev, op in enumerate(case["ops"]):
            for k in range(op["extra_throws"]):
                np.random.seed(_seed(case["seed"], 1000 * (iev + 1) + k))
                gen.create_event()
            np.random.seed(_seed(case["seed"], iev + 1))
            out.extend([float(x) for x in p.vertex] for p in gen.create_event())
    except Exception:
        pass
    return out


def _direction_beyond_unit_dot(case):
    """True when a listed particle's direction and a ray's emitted direction have a float dot
    product outside [-1, 1] (the kernel's arccos then returns NaN)."""
    gs = case["gen"]
    if gs["kind"] not in ("list", "file"):
        return False
    from pyrex.internal_functions import normalize
    solver = Solver(case["medium"])
    aspecs = effective_antenna_specs(case)
    for es in gs["events"]:
        for ps in es["particles"]:
            d = normalize(resolve_direction(ps, solver, aspecs, case)[0])
            for a in aspecs:
                for path in solver.solutions(ps["vertex"], a["pos"]):
                    if abs(float(np.vdot(path.emitted_direction, d))) > 1.0:
                        return True
    return False


def classify(case, exc):
    msg = str(exc)
    if isinstance(exc, TypeError) and "attenuation_interpolation" in msg:
        return F8_KEY
    if isinstance(exc, AttributeError) and "_metadata" in msg and "RayTracePath" in msg:
        return META_KEY
    try:
        if _direction_beyond_unit_dot(case):
            return NAN_KEY
    except Exception:
        pass
    ice = case["medium"]["ice"]
    if case["medium"]["tracer"] in ("specialized", "basic") and not isinstance(exc, Violation):
        for v in _case_vertices(case):
            for a in case["antennas"]:
                rho = math.hypot(v[0] - a["pos"][0], v[1] - a["pos"][1])
                if R.flat_index_pair(ice, v[2], a["pos"][2], rho):
                    return "flat-index-pair"
    return None


# ---------------------------------------------------------------------------
# sub-check specific generators


def align_cases():
    return kernel_cases()


def values_cases():
    return kernel_cases(max_ant=2, gen_kinds=("list", "list", "list", "cyl", "file"),
                        writers=(None,), trig_forms=(None,), max_events=2,
                        pkinds=("in", "in", "in", "shallow"), vkinds=("in", "in", "shallow"))


def weights_cases():
    def wm(draw):
        return draw(st.sampled_from([0.0, 1e-3, 0.125, 0.25, 0.5, 1.0, [0.5, 0.25], [0.25, 0.0], [0.0, 0.125],
                                     [1.0, 1.0], [1e-3, 1e-3], [0.125, 0.125], None]))
    return kernel_cases(tracers=("uniform", "uniform", "uniform", "specialized", "layered"),
                        models=("ZHS", "ZHS", "AVZ", "ARZ"), gen_kinds=("list", "list", "list", "file"),
                        max_ant=2, writers=(None, "double"), trig_forms=(None,), weight_min=wm,
                        pkinds=("in", "in", "shallow"), vkinds=("in",), prefer_multi=True, max_ref_cap=1)


def writer_cases():
    return kernel_cases(writers=("double", "double", "double", "file"), max_ant=3,
                        models=("ZHS", "AVZ", "ARZ", "ARVZ"))


def triggers_cases():
    return kernel_cases(trig_forms=("func", "dict", "dict", "dict"), writers=(None, "double", "double", "file"),
                        models=("ZHS", "ZHS", "AVZ", "ARZ"), max_ant=3,
                        tracers=("uniform", "uniform", "specialized", "basic", "layered"))


PROPERTY = Property(
    "C10", "Event kernel delivers one time-aligned signal per ray solution, any component",
    [
        SubCheck("interface", interface_cases(), check_interface, quick=96, thorough=4000, quick_shards=4,
                 rule="one visible (on-cone) or off-cone ray for each shipped tracer (specialized, basic, uniform "
                      "with 0-2 reflections, layered) x Askaryan model (ARZ, AVZ, ZHS, ARVZ) x "
                      "attenuation_interpolation (None, 0.1, 1) x writer (none, recording double, real File); "
                      "non-trivial = a signal was delivered",
                 floors={"uniform": 0.035, "layered": 0.05, "specialized": 0.055, "basic": 0.03,
                         "writer=file": 0.02, "writer=double": 0.055, "view=on": 0.23, "view=off": 0.07,
                         "ai=0.1": 0.055, "ai=1": 0.055, "ai=None": 0.06},
                 classify=classify),
        SubCheck("align", align_cases(), make_check("align"), quick=200, thorough=8000, quick_shards=5,
                 rule="full configuration space (tracer x ice x model x generator x 1-4 antennas of three kinds in "
                      "list/tuple/Detector x offcone_max x weight_min x interpolation x triggers x writer), 1-3 "
                      "kernel events; non-trivial = at least one signal delivered and not the default configuration",
                 floors={"offcone_cut": 0.07, "oncone": 0.19, "no_solution_antenna": 0.18,
                         "multi_particle": 0.075, "gen=cyl": 0.035, "gen=rect": 0.04, "gen=file": 0.04,
                         "layered": 0.025, "basic": 0.03, "shadowed_then_visible": 0.02, "multi_event": 0.15,
                         "accumulating": 0.05, "container=detector": 0.065, "specialized": 0.075, "uniform": 0.07,
                         "model=ARZ": 0.1, "model=AVZ": 0.04, "model=ZHS": 0.06, "model=ARVZ": 0.05,
                         "writer=file": 0.03, "writer=double": 0.1, "trig=dict": 0.11, "trig=func": 0.05},
                 classify=classify),
        SubCheck("values", values_cases(), make_check("values"), quick=160, thorough=6000, quick_shards=5,
                 rule="list/cylindrical/file generators, 1-2 antennas: every delivered signal recomputed from fresh "
                      "components; non-trivial = at least one signal delivered",
                 floors={"oncone_nonzero": 0.18, "offcone_cut": 0.09, "layered": 0.04, "basic": 0.025,
                         "aligned": 0.045},
                 classify=classify),
        SubCheck("weights", weights_cases(), make_check("weights"), quick=200, thorough=8000, quick_shards=4,
                 rule="listed multi-particle events with survival/interaction/forced weights from a small lattice "
                      "(so that weights equal to the minimum occur) x float and tuple minima; non-trivial = "
                      "a signal delivered",
                 floors={"particle_cut": 0.13, "cut_and_pass": 0.02, "weight_equals_min": 0.05},
                 classify=classify),
        SubCheck("writer", writer_cases(), make_check("writer"), quick=160, thorough=6000, quick_shards=4,
                 rule="as align, always with a writer (recording double or real File in a temporary directory); "
                      "non-trivial = a signal delivered",
                 floors={"writer=file": 0.05, "writer=double": 0.28, "shadow_rethrow": 0.045, "extra_throws": 0.1,
                         "multi_event": 0.12, "offcone_cut": 0.085},
                 classify=classify),
        SubCheck("triggers", triggers_cases(), make_check("triggers"), quick=160, thorough=6000, quick_shards=3,
                 rule="as align, always with a trigger function or dict (1-4 keys, 'global' at any position); "
                      "non-trivial = a signal delivered",
                 floors={"trig=dict": 0.17, "trig=func": 0.085, "writer=file": 0.03},
                 classify=classify),
    ],
    assumptions=[
        "signal_times is a float ndarray of 64-256 uniformly spaced samples containing t=0",
        "antennas are Antenna, DipoleAntenna or an AntennaSystem subclass that exposes `position` (like "
        "every shipped subclass), held in a list, tuple or Detector; the reflections of the uniform and "
        "layered tracers are configured on a subclass (the kernel instantiates the tracer class itself)",
        "the reference uses a fresh tracer of the same class: correctness of the rays themselves is C01/C02/"
        "C18's subject, of propagate C03's, of the Askaryan models C07's, of the antenna response C08's",
        "gradient-index geometries stay where index(z) differs from n0 in floating point (known finding F16)",
        "a real File writer is opened with write_triggers=False, require_trigger=False when the kernel has no "
        "triggers (File.add needs trigger information otherwise) and gets plain bool trigger results",
        "at most 6 (+3) signals are put on one antenna between two clears: receiving the k-th function-backed "
        "signal costs about 3^k ms in pyrex (nested deep copies of the antenna), 12 signals take a minute each; "
        "run time is not an oracle here, so larger pile-ups are outside the generated domain",
        "listed particles: shower fractions 0 or >= 1e-3, and ARZ viewing angles of the targeted ray are "
        "either exactly on the cone or far enough off it that ARZ's oversampled trace stays below 3e5 samples "
        "(cost diverges at the cone; same restriction as C07)",
        "particles moving exactly along a ray (sin psi < 1e-7) are compared for grid, count and finiteness only: "
        "their polarization is rounding noise in every formula",
    ],
    design_ref="3/C10",
)
